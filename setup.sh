#!/bin/sh
# Build /verif/.venv offline: python 3.12 of /venv (has the repo's deps) + z3-solver, cvc5, sympy from the wheelhouse.
set -e
cd "$(dirname "$0")"
if [ -x .venv/bin/python ] && .venv/bin/python -c "import z3, cvc5, sympy, numpy, scipy, qmat" 2>/dev/null; then
  echo "setup: .venv ok"; exit 0
fi
rm -rf .venv
/venv/bin/python -m venv .venv
SP=$(.venv/bin/python -c "import sysconfig; print(sysconfig.get_paths()['purelib'])")
echo "import site; site.addsitedir('/venv/lib/python3.12/site-packages')" > "$SP/zz_repo_deps.pth"
PIP_NO_INDEX=1 .venv/bin/python -m pip install -q --no-index --find-links /opt/veriftools/wheels z3-solver cvc5 sympy mpmath jsonschema
.venv/bin/python -c "import z3, cvc5, sympy, numpy, scipy, qmat; print('setup: built', z3.get_version_string())"
