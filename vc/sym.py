"""
Symbolic leaf domains for evaluating the *real* pySDC functions under CPython.

SBool / SNum (Int or Real sort) wrap z3 terms; every Python operation the real bytecode performs on them
builds a term; every truth test (`if`, `and`, `max`, `x in list`, ...) goes through SBool.__bool__, which
asks the current path (vc.paths.Path) and forks when both outcomes are feasible.

Assumptions about Python encoded here (all cross-checked against CPython at start-up, see vc/selftest.py):
  * int is unbounded -> z3 Int; float is treated as a mathematical real -> z3 Real; concrete floats are lifted
    to their exact binary rational.
  * `//` and `%` on ints have Python's floor semantics (sign of the divisor).
  * int/int true division yields a real.
"""

import fractions
import numbers
import itertools
import numpy as np
import z3

Fraction = fractions.Fraction


class Unsupported(Exception):
    """The real code did something with a symbolic value that the domains cannot express -> verdict 'undecided'."""


# ------------------------------------------------------------------------------------------------ path access
class _State:
    path = None  # the active vc.paths.Path or None (native / lemma mode)
    counter = None  # fresh-name counter, reset per path so that names are deterministic across re-executions


def current_path():
    return _State.path


def fresh_name(prefix):
    if _State.counter is None:
        _State.counter = itertools.count()
    return f"{prefix}!{next(_State.counter)}"


def reset_names():
    _State.counter = itertools.count()


# ------------------------------------------------------------------------------------------------ helpers
def _const_of(t):
    """Return a Fraction / bool if the z3 term is a literal, else None."""
    if z3.is_int_value(t):
        return Fraction(t.as_long())
    if z3.is_rational_value(t):
        return Fraction(t.numerator_as_long(), t.denominator_as_long())
    if z3.is_true(t):
        return True
    if z3.is_false(t):
        return False
    return None


def _is_np_scalar(x):
    return isinstance(x, np.generic)


def to_fraction(x):
    if isinstance(x, Fraction):
        return x
    if isinstance(x, bool):
        return Fraction(int(x))
    if isinstance(x, (int, np.integer)):
        return Fraction(int(x))
    if isinstance(x, (float, np.floating)):
        if x != x or x in (float('inf'), float('-inf')):
            raise Unsupported(f'non-finite float {x} meets a symbolic value')
        return Fraction(float(x))
    raise TypeError(type(x))


def real_val(q):
    q = to_fraction(q)
    return z3.RealVal(f"{q.numerator}/{q.denominator}") if q.denominator != 1 else z3.RealVal(q.numerator)


# ------------------------------------------------------------------------------------------------ SBool
class SBool:
    __slots__ = ('t',)
    __array_ufunc__ = None

    def __init__(self, t):
        if isinstance(t, bool):
            t = z3.BoolVal(t)
        self.t = t

    # truth test = fork point
    def __bool__(self):
        c = _const_of(self.t)
        if c is not None:
            return bool(c)
        s = z3.simplify(self.t)
        c = _const_of(s)
        if c is not None:
            return bool(c)
        p = _State.path
        if p is None:
            raise Unsupported(f'truth value of symbolic condition {self.t} outside a path')
        return p.decide(s)

    @staticmethod
    def lift(x):
        if isinstance(x, SBool):
            return x
        if isinstance(x, (bool, np.bool_)):
            return SBool(z3.BoolVal(bool(x)))
        if isinstance(x, SNum):
            return x != 0
        if isinstance(x, (int, float)):
            return SBool(z3.BoolVal(bool(x)))
        raise Unsupported(f'cannot lift {type(x)} to SBool')

    def __and__(self, o):
        return SBool(z3.And(self.t, SBool.lift(o).t))

    __rand__ = __and__

    def __or__(self, o):
        return SBool(z3.Or(self.t, SBool.lift(o).t))

    __ror__ = __or__

    def __invert__(self):
        return SBool(z3.Not(self.t))

    def __xor__(self, o):
        return SBool(z3.Xor(self.t, SBool.lift(o).t))

    __rxor__ = __xor__

    def __eq__(self, o):
        try:
            return SBool(self.t == SBool.lift(o).t)
        except Unsupported:
            return NotImplemented

    def __ne__(self, o):
        try:
            return SBool(self.t != SBool.lift(o).t)
        except Unsupported:
            return NotImplemented

    def __hash__(self):
        return hash(self.t)

    def __repr__(self):
        return f'SBool({self.t})'

    def __format__(self, spec):
        return str(self.t)

    # arithmetic on booleans (True + True) -- rare; go through ints
    def as_int(self):
        return SNum(z3.If(self.t, z3.IntVal(1), z3.IntVal(0)))

    def __add__(self, o):
        return self.as_int() + o

    __radd__ = __add__

    def __mul__(self, o):
        return self.as_int() * o

    __rmul__ = __mul__


def Not(x):
    if isinstance(x, SBool):
        return ~x
    return not x


def And(*xs):
    xs = [x for x in _flatten(xs)]
    if any(isinstance(x, SBool) for x in xs):
        return SBool(z3.And(*[SBool.lift(x).t for x in xs])) if xs else True
    return all(bool(x) for x in xs)


def Or(*xs):
    xs = [x for x in _flatten(xs)]
    if any(isinstance(x, SBool) for x in xs):
        return SBool(z3.Or(*[SBool.lift(x).t for x in xs])) if xs else False
    return any(bool(x) for x in xs)


def Implies(a, b):
    if isinstance(a, SBool) or isinstance(b, SBool):
        return SBool(z3.Implies(SBool.lift(a).t, SBool.lift(b).t))
    return (not a) or bool(b)


def Iff(a, b):
    if isinstance(a, SBool) or isinstance(b, SBool):
        return SBool(SBool.lift(a).t == SBool.lift(b).t)
    return bool(a) == bool(b)


def Ite(c, a, b):
    """value-level if-then-else without forking"""
    if isinstance(c, SBool):
        cc = _const_of(z3.simplify(c.t))
        if cc is None:
            if isinstance(a, (SBool, bool)) and isinstance(b, (SBool, bool)):
                return SBool(z3.If(c.t, SBool.lift(a).t, SBool.lift(b).t))
            a, b = SNum.lift(a), SNum.lift(b)
            ta, tb = _unify(a.t, b.t)
            return SNum(z3.If(c.t, ta, tb))
        c = cc
    return a if c else b


def _flatten(xs):
    for x in xs:
        if isinstance(x, (list, tuple)) or hasattr(x, '__next__'):
            yield from _flatten(x)
        else:
            yield x


# ------------------------------------------------------------------------------------------------ SNum
def _unify(a, b):
    """make two arithmetic z3 terms have the same sort (Int -> Real when mixed)"""
    if a.sort() == b.sort():
        return a, b
    if z3.is_int(a):
        a = z3.ToReal(a)
    if z3.is_int(b):
        b = z3.ToReal(b)
    return a, b


_POW = z3.Function('pow', z3.RealSort(), z3.RealSort(), z3.RealSort())
_SQRT = z3.Function('sqrt', z3.RealSort(), z3.RealSort())
_EXP = z3.Function('exp', z3.RealSort(), z3.RealSort())
_LOG = z3.Function('log', z3.RealSort(), z3.RealSort())


class SNum:
    """symbolic int or real"""

    __slots__ = ('t',)
    __array_ufunc__ = None  # numpy binary operators defer to our reflected methods
    __array_priority__ = 1000

    def __init__(self, t):
        self.t = t

    @property
    def is_int(self):
        return z3.is_int(self.t)

    @staticmethod
    def lift(x):
        if isinstance(x, SNum):
            return x
        if isinstance(x, SBool):
            return x.as_int()
        if isinstance(x, (bool, np.bool_)):
            return SNum(z3.IntVal(int(x)))
        if isinstance(x, (int, np.integer)):
            return SNum(z3.IntVal(int(x)))
        if isinstance(x, (float, np.floating, Fraction)):
            return SNum(real_val(x))
        if isinstance(x, np.ndarray) and x.shape == ():
            return SNum.lift(x.item())
        raise Unsupported(f'cannot lift {type(x)} to SNum')

    def const(self):
        c = _const_of(self.t)
        if c is None:
            c = _const_of(z3.simplify(self.t))
        return c

    # ---- arithmetic
    def _bin(self, o, f, reflected=False):
        if isinstance(o, np.ndarray) and o.shape != ():
            flat = [self._bin(x, f, reflected) for x in o.flat]
            out = np.empty(len(flat), dtype=object)
            for i, v in enumerate(flat):
                out[i] = v
            return out.reshape(o.shape)
        try:
            o = SNum.lift(o)
        except Unsupported:
            return NotImplemented
        a, b = _unify(self.t, o.t)
        if reflected:
            a, b = b, a
        return SNum(f(a, b))

    def __add__(self, o):
        return self._bin(o, lambda a, b: a + b)

    def __radd__(self, o):
        return self._bin(o, lambda a, b: a + b, True)

    def __sub__(self, o):
        return self._bin(o, lambda a, b: a - b)

    def __rsub__(self, o):
        return self._bin(o, lambda a, b: a - b, True)

    def __mul__(self, o):
        return self._bin(o, lambda a, b: a * b)

    def __rmul__(self, o):
        return self._bin(o, lambda a, b: a * b, True)

    @staticmethod
    def _truediv(a, b):
        if z3.is_int(a):
            a = z3.ToReal(a)
        if z3.is_int(b):
            b = z3.ToReal(b)
        return a / b

    def __truediv__(self, o):
        return self._bin(o, SNum._truediv)

    def __rtruediv__(self, o):
        return self._bin(o, SNum._truediv, True)

    @staticmethod
    def _floordiv(a, b):
        if z3.is_int(a) and z3.is_int(b):
            q = a / b  # z3 integer division: a = b*q + r, 0 <= r < |b|
            r = a % b
            return z3.If(b > 0, q, z3.If(r == 0, q, q - 1))
        raise Unsupported('floor division of reals')

    @staticmethod
    def _mod(a, b):
        if z3.is_int(a) and z3.is_int(b):
            r = a % b
            return z3.If(b > 0, r, z3.If(r == 0, r, r + b))
        raise Unsupported('modulo of reals')

    def __floordiv__(self, o):
        return self._bin(o, SNum._floordiv)

    def __rfloordiv__(self, o):
        return self._bin(o, SNum._floordiv, True)

    def __mod__(self, o):
        return self._bin(o, SNum._mod)

    def __rmod__(self, o):
        return self._bin(o, SNum._mod, True)

    def __divmod__(self, o):
        return self // o, self % o

    def __neg__(self):
        return SNum(-self.t)

    def __pos__(self):
        return self

    def __abs__(self):
        return SNum(z3.If(self.t >= 0, self.t, -self.t))

    def __pow__(self, o):
        if isinstance(o, (int, np.integer)) or (isinstance(o, float) and float(o).is_integer()):
            n = int(o)
            if n >= 0:
                r = SNum.lift(1)
                for _ in range(n):
                    r = r * self
                return r
            return 1 / (self ** (-n))
        o = SNum.lift(o)
        c = o.const()
        if c is not None and c.denominator == 1:
            return self ** int(c)
        a, b = self.t, o.t
        if z3.is_int(a):
            a = z3.ToReal(a)
        if z3.is_int(b):
            b = z3.ToReal(b)
        return SNum(_POW(a, b))

    def __rpow__(self, o):
        o = SNum.lift(o)
        return o ** self

    def sqrt(self):
        a = self.t
        if z3.is_int(a):
            a = z3.ToReal(a)
        return SNum(_SQRT(a))

    # ---- comparisons
    def _cmp(self, o, f):
        if isinstance(o, (float, np.floating)) and o in (float('inf'), float('-inf')):
            # a real is strictly between -inf and +inf
            big = o > 0
            return SBool(z3.BoolVal(bool(f(0, 1) if big else f(1, 0)))) if f(0, 0) in (True, False) else NotImplemented
        try:
            o = SNum.lift(o)
        except Unsupported:
            return NotImplemented
        a, b = _unify(self.t, o.t)
        return SBool(f(a, b))

    def __lt__(self, o):
        return self._cmp(o, lambda a, b: a < b)

    def __le__(self, o):
        return self._cmp(o, lambda a, b: a <= b)

    def __gt__(self, o):
        return self._cmp(o, lambda a, b: a > b)

    def __ge__(self, o):
        return self._cmp(o, lambda a, b: a >= b)

    def __eq__(self, o):
        if o is None:
            return False
        return self._cmp(o, lambda a, b: a == b)

    def __ne__(self, o):
        if o is None:
            return True
        return self._cmp(o, lambda a, b: a != b)

    def __hash__(self):
        return hash(self.t)

    def __bool__(self):
        return bool(self != 0)

    # ---- conversions
    def __index__(self):
        c = self.const()
        if c is not None and c.denominator == 1:
            return int(c)
        p = _State.path
        if p is not None and self.is_int:
            return p.concretize_int(self)
        raise Unsupported(f'symbolic integer {self.t} used as an index')

    def __int__(self):
        c = self.const()
        if c is not None:
            return int(c)
        if self.is_int:
            return self.__index__()
        raise Unsupported(f'int() of symbolic real {self.t}')

    def __float__(self):
        c = self.const()
        if c is not None:
            return float(c)
        raise Unsupported(f'float() of symbolic value {self.t}')

    def __repr__(self):
        return f'SNum({self.t})'

    def __format__(self, spec):
        return str(self.t)

    def __round__(self, n=None):
        raise Unsupported('round() of symbolic value')

    # numpy calls these on object arrays
    def conjugate(self):
        return self

    conj = conjugate

    @property
    def real(self):
        return self

    @property
    def imag(self):
        return 0


def is_sym(x):
    return isinstance(x, (SNum, SBool))


def smax(*xs):
    xs = list(_flatten(xs))
    r = xs[0]
    for x in xs[1:]:
        if is_sym(r) or is_sym(x):
            r = Ite(SNum.lift(x) > r, x, r)
        else:
            r = max(r, x)
    return r


def smin(*xs):
    xs = list(_flatten(xs))
    r = xs[0]
    for x in xs[1:]:
        if is_sym(r) or is_sym(x):
            r = Ite(SNum.lift(x) < r, x, r)
        else:
            r = min(r, x)
    return r


def sabs(x):
    return abs(x)


def Int(name):
    return SNum(z3.Int(name))


def Real(name):
    return SNum(z3.Real(name))


def Bool(name):
    return SBool(z3.Bool(name))


def eq(a, b):
    """polymorphic equality: symbolic -> SBool, concrete numbers -> tolerance-free =="""
    if is_sym(a) or is_sym(b):
        r = a == b if is_sym(a) else b == a
        return r
    return a == b


def term(x):
    """z3 term of a (possibly concrete) scalar"""
    if isinstance(x, SBool):
        return x.t
    if isinstance(x, (bool, np.bool_)):
        return z3.BoolVal(bool(x))
    return SNum.lift(x).t
