"""
Native twin of the symbolic harness: the SAME contract evaluated as a run-time assertion on the real code with real
floats and real `mesh` data. Used for (a) replaying solver counterexamples, (b) searching a concrete failing input when
the model does not replay, (c) the CPython cross-check of every passing contract (a disagreement voids the run).
"""

import random
import numpy as np
from fractions import Fraction

from vc.ghost.problem import Rec


def _val(v):
    if isinstance(v, list):
        return v[0] / v[1]
    return v


class ConcreteLinearProblem:
    """F(u,t) = A u + b*cos(t), split A = A_I + A_E for IMEX / comp2; exact direct solve. Real mesh data types.
    Records the same ghost lists as AbstractProblem; look-ups are by object identity, then by value."""

    N = 3

    def __init__(self, kind='full', name='P', seed=0, **kw):
        from pySDC.implementations.datatype_classes.mesh import mesh, imex_mesh, comp2_mesh

        self.kind, self.name = kind, name
        self.init = (self.N, None, np.dtype('float64'))
        self.dtype_u = mesh
        self.dtype_f = {'full': mesh, 'imex': imex_mesh, 'comp2': comp2_mesh}[kind]
        rng = np.random.RandomState(seed + 17)
        self.AI = -np.diag(rng.rand(self.N) + 0.5) + 0.1 * rng.randn(self.N, self.N)
        self.AE = 0.3 * rng.randn(self.N, self.N)
        self.b = rng.randn(self.N)
        self.evals, self.solves, self.mass = [], [], []
        self.work_counters = {}
        self.trace = None

    @property
    def u_init(self):
        return self.dtype_u(self.init)

    @property
    def f_init(self):
        return self.dtype_f(self.init)

    def eval_f(self, u, t, *a, **k):
        f = self.dtype_f(self.init)
        uu = np.asarray(u)
        if self.kind == 'full':
            f[:] = (self.AI + self.AE) @ uu + self.b * np.cos(float(t))
        elif self.kind == 'imex':
            f.impl[:] = self.AI @ uu
            f.expl[:] = self.AE @ uu + self.b * np.cos(float(t))
        else:
            f.comp1[:] = self.AI @ uu
            f.comp2[:] = self.AE @ uu + self.b * np.cos(float(t))
        r = Rec(f=f, fcopy=self.dtype_f(f), u=self.dtype_u(u), t=t, k=len(self.evals))
        self.evals.append(r)
        if self.trace is not None:
            self.trace.append(('eval_f', self.name, r))
        return f

    def _impl(self, which=None):
        if self.kind == 'full':
            return self.AI + self.AE
        if which == 2:
            return self.AE
        return self.AI

    def solve_system(self, rhs, factor, u0, t, which=None):
        s = self.dtype_u(self.init)
        rr = np.asarray(rhs)
        if self.kind == 'comp2' and which == 2:
            rr = rr + float(factor) * self.b * np.cos(float(t))
        s[:] = np.linalg.solve(np.eye(self.N) - float(factor) * self._impl(which), rr)
        r = Rec(s=s, scopy=self.dtype_u(s), rhs=self.dtype_u(rhs), factor=factor,
                u0=(self.dtype_u(u0) if u0 is not None else None), t=t, k=len(self.solves), which=which)
        self.solves.append(r)
        if self.trace is not None:
            self.trace.append(('solve_system', self.name, r))
        return s

    def solve_system_1(self, rhs, factor, u0, t):
        return self.solve_system(rhs, factor, u0, t, which=1)

    def solve_system_2(self, rhs, factor, u0, t):
        return self.solve_system(rhs, factor, u0, t, which=2)

    def apply_mass_matrix(self, u):
        out = self.dtype_u(self.init)
        out[:] = 2.0 * np.asarray(u) + np.roll(np.asarray(u), 1)
        self.mass.append(Rec(out=self.dtype_u(out), u=self.dtype_u(u)))
        return out

    def find_eval(self, f):
        for r in self.evals:
            if r.f is f:
                return r
        for r in self.evals:
            if type(f) is type(r.fcopy) and np.shape(f) == np.shape(r.fcopy) and np.allclose(f, r.fcopy, rtol=1e-13, atol=0):
                return r
        return None

    def find_solve(self, u):
        for r in self.solves:
            if r.s is u:
                return r
        for r in self.solves:
            if np.shape(u) == np.shape(r.scopy) and np.allclose(u, r.scopy, rtol=1e-13, atol=0):
                return r
        return None


class ConcreteMaker:
    mode = 'native'

    def __init__(self, model=None, seed=0, special=False):
        self.special = special
        self.model = model or {}
        self.rng = random.Random(seed)
        self.nrng = np.random.RandomState(seed)
        self.seed = seed
        self.names = []
        self.pre_ok = True
        self.used = {}

    def _get(self, name, default):
        if name in self.model:
            v = _val(self.model[name])
        else:
            v = default()
        self.used[name] = v
        return v

    def real(self, name):
        if self.special and name not in self.model:
            # IEEE special values (bounded side check: the symbolic proofs treat floats as reals)
            v = self.rng.choice([float('nan'), float('inf'), float('-inf'), 0.0, -0.0, self.rng.uniform(0.2, 1.5), self.rng.uniform(-1.5, 1.5)])
            self.used[name] = v
            return v
        return float(self._get(name, lambda: self.rng.uniform(0.2, 1.5)))

    def int(self, name):
        return int(self._get(name, lambda: self.rng.randint(0, 3)))

    def bool(self, name):
        return bool(self._get(name, lambda: self.rng.random() < 0.5))

    def vec(self, name, kind='u'):
        from pySDC.implementations.datatype_classes.mesh import mesh

        v = mesh((ConcreteLinearProblem.N, None, np.dtype('float64')))
        v[:] = self.nrng.randn(ConcreteLinearProblem.N)
        return v

    def matrix(self, name, n, m, pattern=None, dtype='real'):
        A = np.zeros((n, m))
        for i in range(n):
            for j in range(m):
                if pattern is None or pattern(i, j):
                    A[i, j] = self.real(f'{name}_{i}_{j}')
        return A

    def vector(self, name, n):
        return np.array([self.real(f'{name}_{i}') for i in range(n)])

    def assume(self, cond, what='requires'):
        if not bool(cond):
            self.pre_ok = False


def run_native(contract, inst, model=None, seed=0, special=False):
    """evaluate the contract natively once; returns dict(pre_ok, failed=[clause names], exc, used inputs)"""
    mk = ConcreteMaker(model, seed, special=special)
    st = contract.build(inst, mk)
    pre = [bool(c) for c in contract.pre(st)]
    if not all(pre) or not mk.pre_ok:
        return dict(pre_ok=False, failed=[], used=mk.used, exc=None)
    old = contract.snapshot(st)
    exc = None
    result = None
    try:
        result = contract.call(st)
    except Exception as e:
        exc = e
    failed = []
    for nm, c in contract.post(st, old, result, exc):
        if not bool(c):
            failed.append(nm)
    if exc is not None and not isinstance(exc, tuple(contract.expected_exceptions)):
        failed.append(f'no_unexpected_exception[{type(exc).__name__}]')
    return dict(pre_ok=True, failed=failed, used=mk.used, exc=repr(exc) if exc is not None else None)
