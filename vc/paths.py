"""
Exhaustive path enumeration by deterministic re-execution.

explore(run) calls `run(path)` once per feasible decision sequence. Each truth test on a symbolic condition
(SBool.__bool__) consults Path.decide: if only one outcome is satisfiable together with the path condition it is
taken (and recorded, so that the replay of a prefix never depends on a solver answer); otherwise the path forks
and the alternative prefix is put on the work list. A proof instance is complete only if the work list was emptied;
hitting the path cap raises PathCap -> verdict 'undecided'.
"""

import z3
from vc import sym


class PathCap(Exception):
    pass


class Infeasible(Exception):
    """raised when `assume` makes the path condition unsatisfiable: the path is vacuous and dropped"""


class Path:
    def __init__(self, prefix=(), timeout_ms=4000):
        self.prefix = list(prefix)
        self.decisions = []  # list of (bool value, forked?)
        self.pc = []  # z3 terms: assumptions (requires, stub posts) and branch decisions
        self.assumptions = []  # subset of pc that came from assume() (for reporting)
        self.solver = z3.Solver()
        self.solver.set('timeout', timeout_ms)
        self.alternatives = []
        self.prunes = 0
        self.unknown_feasibility = 0
        self.ghost = {}
        self.obligations = []

    # -- context manager installs the path for the symbolic domains
    def __enter__(self):
        self._old = sym._State.path
        sym._State.path = self
        sym.reset_names()
        return self

    def __exit__(self, *a):
        sym._State.path = self._old
        return False

    def _check(self, t):
        self.solver.push()
        self.solver.add(t)
        r = self.solver.check()
        self.solver.pop()
        return r

    def decide(self, t):
        i = len(self.decisions)
        if i < len(self.prefix):
            v = self.prefix[i]
            self.decisions.append((v, False))
            self._add(t if v else z3.Not(t))
            return v
        rt = self._check(t)
        rf = self._check(z3.Not(t))
        if rt == z3.unknown or rf == z3.unknown:
            self.unknown_feasibility += 1
        can_t = rt != z3.unsat
        can_f = rf != z3.unsat
        if can_t and can_f:
            self.alternatives.append([d for d, _ in self.decisions] + [False])
            self.decisions.append((True, True))
            self._add(t)
            return True
        if not can_t and not can_f:
            raise Infeasible()
        v = can_t
        self.prunes += 1
        self.decisions.append((v, False))
        self._add(t if v else z3.Not(t))
        return v

    def _add(self, t):
        self.pc.append(t)
        self.solver.add(t)

    def assume(self, cond, what=''):
        """add a precondition / stub postcondition to the path condition"""
        if isinstance(cond, (list, tuple)):
            for c in cond:
                self.assume(c, what)
            return
        if isinstance(cond, sym.SBool):
            t = z3.simplify(cond.t)
            if z3.is_true(t):
                return
            self._add(t)
            self.assumptions.append((what, t))
            if z3.is_false(t):
                raise Infeasible()
        elif not cond:
            raise Infeasible()

    def oblige(self, name, cond, kind='callee-pre', info=None):
        """record an obligation at this program point (e.g. the precondition of a stubbed callee)"""
        from vc.discharge import Obligation

        t = cond.t if isinstance(cond, sym.SBool) else z3.BoolVal(bool(cond))
        self.obligations.append(Obligation(name, list(self.pc), t, kind, info))

    def feasible(self):
        return self.solver.check() != z3.unsat

    def concretize_int(self, n, lo=-64, hi=4096, depth=0):
        """fork over the values of a symbolic integer that is used as an index (bounded enumeration; the bound is
        an obligation elsewhere, so exceeding it is reported as Unsupported rather than silently dropped)"""
        if depth > 40:
            raise sym.Unsupported(f'symbolic integer {n.t} used as a concrete value has too many possible values')
        # binary-free simple search: ask the solver for a model, fork on (n == value)
        r = self.solver.check()
        if r != z3.sat:
            raise sym.Unsupported('cannot concretize index: path condition not sat')
        m = self.solver.model()
        val = m.eval(n.t, model_completion=True).as_long()
        if sym.SBool(n.t == val).__bool__():
            return val
        # the other branch: recurse (a different value)
        return self.concretize_int(n, lo, hi, depth + 1)


def explore(run, max_paths=20000):
    """run(path) -> result ; returns list of (path, result)"""
    work = [[]]
    out = []
    stats = dict(paths=0, infeasible=0, prunes=0, unknown_feasibility=0)
    while work:
        prefix = work.pop()
        p = Path(prefix)
        try:
            with p:
                res = run(p)
        except Infeasible:
            stats['infeasible'] += 1
            work.extend(p.alternatives)
            continue
        work.extend(p.alternatives)
        stats['paths'] += 1
        stats['prunes'] += p.prunes
        stats['unknown_feasibility'] += p.unknown_feasibility
        out.append((p, res))
        if stats['paths'] > max_paths:
            raise PathCap(f'more than {max_paths} paths')
    return out, stats
