"""
Contracts on real pySDC functions and the runner that turns (real function, contract, instance) into obligations.

A contract is a class with
    prop      : property id the contract serves ('C02')
    name      : 'generic_implicit.update_nodes'
    target    : ('pySDC/implementations/sweeper_classes/generic_implicit.py', 'generic_implicit.update_nodes')
    label     : 'proved' | 'instance-proved' (see DESIGN 5)
    instances(tier) -> list of dict (the enumerated container structures)
    build(inst, mk) -> state object `st` built from REAL pySDC objects with leaves created by the maker `mk`
    pre(st)         -> list of requires-clauses (assumed)
    call(st)        -> invokes the real function (default: st.call())
    post(st, old, result, exc) -> iterable of (clause name, bool/SBool)   [ensures, raises, frame]
    canary(st, old, result, exc) -> iterable of deliberately WRONG clauses; each must be refuted
    stubs / assumptions : names of callee contracts used / assumed (reported in the evidence)

The same contract can be evaluated natively (ConcreteMaker): that is the run-time cross-check and the replay.
"""

import time
import traceback
import numpy as np
import z3

from vc import sym
from vc.sym import SNum, SBool
from vc.vec import Vec, vec_eq_clauses
from vc.paths import Path, explore, Infeasible, PathCap
from vc.discharge import Obligation, discharge


class State:
    """plain attribute bag for the pre/post state of one proof instance"""

    def __init__(self, **kw):
        self.__dict__.update(kw)


# ------------------------------------------------------------------------------------------------ makers
class SymMaker:
    mode = 'sym'

    def __init__(self, path):
        self.path = path
        self.names = []

    def real(self, name):
        self.names.append(('real', name))
        return sym.Real(name)

    def int(self, name):
        self.names.append(('int', name))
        return sym.Int(name)

    def bool(self, name):
        self.names.append(('bool', name))
        return sym.Bool(name)

    def vec(self, name, kind='u'):
        self.names.append(('vec', name))
        return Vec.atom(name, kind)

    def matrix(self, name, n, m, pattern=None, dtype='real'):
        A = np.empty((n, m), dtype=object)
        for i in range(n):
            for j in range(m):
                if pattern is None or pattern(i, j):
                    A[i, j] = self.real(f'{name}_{i}_{j}') if dtype == 'real' else self.int(f'{name}_{i}_{j}')
                else:
                    A[i, j] = 0
        return A

    def vector(self, name, n):
        A = np.empty(n, dtype=object)
        for i in range(n):
            A[i] = self.real(f'{name}_{i}')
        return A

    def assume(self, cond, what='requires'):
        self.path.assume(cond, what)


# ------------------------------------------------------------------------------------------------ clause helpers
def veq(a, b):
    """equality of two data values as ONE clause (conjunction over atoms); works for Vec, VecMulti, None"""
    if a is None or b is None:
        return a is None and b is None
    if hasattr(a, 'components') and hasattr(b, 'components'):
        return sym.And(*[veq(getattr(a, c), getattr(b, c)) for c in a.components])
    if isinstance(a, Vec) or isinstance(b, Vec):
        if isinstance(a, (int, float)) and a == 0:
            a = Vec()
        if isinstance(b, (int, float)) and b == 0:
            b = Vec()
        if not (isinstance(a, Vec) and isinstance(b, Vec)):
            return False
        return sym.And(*[c for _, c in vec_eq_clauses(a, b)]) if (a.c or b.c) else True
    if isinstance(a, np.ndarray) or isinstance(b, np.ndarray):
        if isinstance(b, (int, float)):
            b = np.zeros(np.shape(a)) + b
        if isinstance(a, (int, float)):
            a = np.zeros(np.shape(b)) + a
        a, b = np.asarray(a, dtype=complex if np.iscomplexobj(a) or np.iscomplexobj(b) else float), np.asarray(b)
        scale = max(1.0, float(np.max(np.abs(a))) if a.size else 1.0, float(np.max(np.abs(b))) if b.size else 1.0)
        return a.shape == b.shape and bool(np.all(np.abs(a - b) <= 1e-9 * scale))
    return sym.eq(a, b)


def seq(a, b, tol=1e-9):
    """scalar equality: symbolic -> term, native floats -> relative tolerance"""
    if sym.is_sym(a) or sym.is_sym(b):
        return sym.eq(a, b)
    if isinstance(a, (float, np.floating)) or isinstance(b, (float, np.floating)):
        return abs(a - b) <= tol * max(1.0, abs(a), abs(b))
    return a == b


def vsum(items):
    """sum of data values; 0 for the empty sum (veq treats the scalar 0 as the zero vector)"""
    r = None
    for x in items:
        r = (x * 1) if r is None else r + x
    return 0 if r is None else r


# ------------------------------------------------------------------------------------------------ snapshots / frames
_ATOMIC = (int, float, str, bool, type(None), SNum, SBool, np.integer, np.floating, complex)


_MANGLED = __import__('re').compile(r'_[A-Za-z0-9]+__\w')


def snapshot(roots, max_depth=8):
    """walk the object graph below `roots` (dict name -> object); returns {location: record}.
    record = ('val', value) | ('vec', id, copy) | ('obj', id) | ('ref', id) | ('arr', id, copy)"""
    out = {}
    seen = {}

    def walk(loc, x, depth):
        if isinstance(x, _ATOMIC):
            out[loc] = ('val', x)
            return
        if isinstance(x, Vec):
            out[loc] = ('vec', id(x), Vec(x))
            return
        if isinstance(x, type):
            out[loc] = ('obj', id(x))
            return
        if hasattr(x, 'components') and hasattr(x, 'total'):
            for c in x.components:
                walk(f'{loc}.{c}', getattr(x, c), depth + 1)
            out[loc] = ('obj', id(x))
            return
        if id(x) in seen:
            out[loc] = ('ref', id(x))
            return
        if isinstance(x, (list, tuple)):
            seen[id(x)] = loc
            out[loc] = ('len', len(x))
            if depth < max_depth:
                for i, y in enumerate(x):
                    walk(f'{loc}[{i}]', y, depth + 1)
            return
        if isinstance(x, dict):
            seen[id(x)] = loc
            out[loc] = ('len', len(x))
            if depth < max_depth:
                for k, y in x.items():
                    walk(f'{loc}[{k!r}]', y, depth + 1)
            return
        if isinstance(x, np.ndarray):
            if x.dtype == object and x.size <= 64:
                seen[id(x)] = loc
                out[loc] = ('obj', id(x))
                for idx in np.ndindex(x.shape):
                    walk(f'{loc}[{",".join(map(str, idx))}]', x[idx], depth + 1)
            else:
                out[loc] = ('arr', id(x), x.copy())
            return
        mod = type(x).__module__ or ''
        if (mod.startswith('pySDC') or mod.startswith('vc.')) and hasattr(x, '__dict__') and depth < max_depth:
            seen[id(x)] = loc
            out[loc] = ('obj', id(x))
            for k, y in vars(x).items():
                if k in ('logger', '_FrozenClass__isfrozen', 'evals', 'solves', 'trace', 'mass'):
                    continue
                if k.startswith('_') and not _MANGLED.match(k):
                    # private bookkeeping of an object (counters, caches): not part of any property's state. What such a cache DOES is judged by
                    # the post-conditions (history instances), not by "nothing else changed"
                    continue
                if k in ('_Step__prev', '_Step__next', '_Sweeper__level', 'controller', 'fine', 'coarse', 'fine_prob', 'coarse_prob', '_Step__transfer_dict'):
                    out[f'{loc}.{_demangle(k)}'] = ('obj', id(y))
                    continue
                walk(f'{loc}.{_demangle(k)}', y, depth + 1)
            return
        out[loc] = ('obj', id(x))

    for n, r in roots.items():
        walk(n, r, 0)
    return out


def _demangle(k):
    # _Level__tag -> tag etc.
    if k.startswith('_') and '__' in k[1:]:
        return k.split('__', 1)[1]
    return k


def frame_clauses(old, new, frame=(), prefix='frame'):
    """(name, clause) for every location of `old` not matched by a frame pattern: value unchanged / same object with
    unchanged content. `frame` is a list of location prefixes (or callables loc->bool) that MAY change."""

    def in_frame(loc):
        for f in frame:
            if callable(f):
                if f(loc):
                    return True
            elif loc == f or loc.startswith(f + '.') or loc.startswith(f + '['):
                return True
        return False

    for loc, rec in old.items():
        if in_frame(loc):
            continue
        now = new.get(loc)
        if now is None:
            yield f'{prefix}:{loc}:exists', False
            continue
        if rec[0] != now[0]:
            yield f'{prefix}:{loc}:kind', False
            continue
        if rec[0] == 'val':
            a, b = rec[1], now[1]
            if a is b:
                continue
            if sym.is_sym(a) or sym.is_sym(b):
                if type(a) in (str, type(None)) or type(b) in (str, type(None)):
                    yield f'{prefix}:{loc}', False
                else:
                    yield f'{prefix}:{loc}', sym.eq(a, b)
            else:
                yield f'{prefix}:{loc}', bool(a == b)
        elif rec[0] == 'vec':
            yield f'{prefix}:{loc}:same_object', rec[1] == now[1]
            yield f'{prefix}:{loc}:content', veq(rec[2], now[2])
        elif rec[0] == 'arr':
            yield f'{prefix}:{loc}:same_object', rec[1] == now[1]
            yield f'{prefix}:{loc}:content', bool(np.array_equal(rec[2], now[2]))
        elif rec[0] == 'len':
            yield f'{prefix}:{loc}:len', rec[1] == now[1]
        else:
            yield f'{prefix}:{loc}:same_object', rec[1] == now[1]


# ------------------------------------------------------------------------------------------------ contract base
class Contract:
    prop = None
    name = None
    target = None
    label = 'instance-proved'
    stubs = ()  # callee contracts used as stubs: list of strings
    assumptions = ()  # assumed (unchecked) dependency contracts
    max_paths = 20000

    def instances(self, tier):
        return [dict()]

    def build(self, inst, mk):
        raise NotImplementedError

    def pre(self, st):
        return []

    def call(self, st):
        return st.call()

    def snapshot(self, st):
        return None

    def post(self, st, old, result, exc):
        return []

    def canary(self, st, old, result, exc):
        return []

    # exceptions that are part of the function's specified behaviour are handled in post via `exc`;
    # everything else that escapes is an obligation "no unexpected exception"
    expected_exceptions = ()


def _to_term(c):
    if isinstance(c, SBool):
        return c.t
    return z3.BoolVal(bool(c))


def run_instance(contract, inst, want_models=True):
    """explore all paths of one instance, discharge everything; returns a plain dict (picklable)"""
    t0 = time.time()
    out = dict(
        contract=contract.name,
        prop=contract.prop,
        inst=inst,
        label=contract.label,
        obligations=[],
        canaries=[],
        paths=0,
        prunes=0,
        infeasible=0,
        status='ok',
        error=None,
        names=[],
    )

    def run(path):
        mk = SymMaker(path)
        st = contract.build(inst, mk)
        path.assume(list(contract.pre(st)), 'requires')
        if not path.feasible():
            raise Infeasible()
        old = contract.snapshot(st)
        n_pre = len(path.pc)
        exc = None
        result = None
        try:
            result = contract.call(st)
        except (Infeasible, PathCap, sym.Unsupported):
            raise
        except Exception as e:  # the real code raised: part of the behaviour, judged by post
            exc = e
        obs = list(getattr(path, 'obligations', []))
        pc = list(path.pc)
        # evaluating the post must not fork: clauses are terms. Forks inside post (e.g. max over symbols in a spec
        # function) are legal but handled by the same explorer.
        for nm, c in contract.post(st, old, result, exc):
            obs.append(Obligation(nm, list(path.pc), _to_term(c), 'post'))
        if exc is not None and not isinstance(exc, tuple(contract.expected_exceptions)):
            tb = ''.join(traceback.format_exception_only(type(exc), exc)).strip()
            obs.append(Obligation(f'no_unexpected_exception[{type(exc).__name__}]', list(path.pc), z3.BoolVal(False), 'noraise', info=tb))
        can = []
        for nm, c in contract.canary(st, old, result, exc):
            can.append(Obligation(nm, list(path.pc), _to_term(c), 'canary'))
        return obs, can, mk.names, ('raised ' + type(exc).__name__) if exc is not None else 'returned'

    try:
        paths, stats = explore(run, contract.max_paths)
    except PathCap as e:
        out['status'] = 'undecided'
        out['error'] = f'path cap: {e}'
        out['seconds'] = time.time() - t0
        return out
    except sym.Unsupported as e:
        out['status'] = 'undecided'
        out['error'] = f'unsupported: {e}\n{traceback.format_exc(limit=8)}'
        out['seconds'] = time.time() - t0
        return out
    except Exception as e:
        out['status'] = 'crash'
        out['error'] = traceback.format_exc()
        out['seconds'] = time.time() - t0
        return out

    out.update(paths=stats['paths'], prunes=stats['prunes'], infeasible=stats['infeasible'],
               unknown_feasibility=stats['unknown_feasibility'])
    outcomes = {}
    canary_refuted = {}
    for pi, (p, (obs, can, names, outcome)) in enumerate(paths):
        outcomes[outcome] = outcomes.get(outcome, 0) + 1
        out['names'] = names
        for ob in obs:
            r = discharge(ob)
            d = r.as_dict()
            d['path'] = pi
            d['decisions'] = ''.join('T' if v else 'F' for v, _ in p.decisions)
            if ob.info:
                d['info'] = ob.info
            if r.status != 'proved':
                d['clause'] = str(ob.clause)[:2000]
            out['obligations'].append(d)
        for ob in can:
            # a canary needs to be refuted on at least one path
            if canary_refuted.get(ob.name):
                continue
            r = discharge(ob)
            canary_refuted[ob.name] = canary_refuted.get(ob.name, False) or (r.status == 'refuted')
    out['canaries'] = [dict(name=k, refuted=v) for k, v in canary_refuted.items()]
    out['outcomes'] = outcomes
    out['seconds'] = time.time() - t0
    return out
