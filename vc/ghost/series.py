"""
Exact truncated power series carrier for the Dahlquist law (property C04).

`mesh` / `imex_mesh` here are twins of the pySDC data types (same class NAMES, because RungeKutta.get_full_f dispatches
on the type name) whose value is an element of Q[[zI, zE]] / (total degree > N): a dict {(i, j): Fraction}.
DahlquistSeries implements the problem contract for f(u) = lambda*u with dt*lambda_I = zI, dt*lambda_E = zE and dt = 1:
eval_f multiplies by the variable(s), solve_system(rhs, a, ...) returns rhs / (1 - a*zI) (geometric series, exact).
Concrete floats coming from the real sweeper matrices are lifted to their exact binary rationals.
"""

from fractions import Fraction
import numpy as np

N_MAX = [12]


def _fr(x):
    if isinstance(x, Fraction):
        return x
    if isinstance(x, (int, np.integer)):
        return Fraction(int(x))
    return Fraction(float(x))


class _Ser:
    __array_ufunc__ = None
    __array_priority__ = 3000

    def __init__(self, init=None, val=0.0, **kw):
        if isinstance(init, _Ser):
            self.c = dict(init.c)
        elif isinstance(init, dict):
            self.c = {k: v for k, v in init.items() if v != 0}
        else:
            v = _fr(val)
            self.c = {(0, 0): v} if v != 0 else {}

    def _lin(self, o, s):
        if not isinstance(o, _Ser):
            if o == 0:
                return type(self)(self)
            return NotImplemented
        r = dict(self.c)
        for k, v in o.c.items():
            nv = r.get(k, 0) + s * v
            if nv == 0:
                r.pop(k, None)
            else:
                r[k] = nv
        return type(self)(r)

    def __add__(self, o):
        return self._lin(o, 1)

    __radd__ = __add__

    def __sub__(self, o):
        return self._lin(o, -1)

    # like pySDC's mesh: augmented assignment rebinds (no in-place modification), slicing gives the same buffer
    def __getitem__(self, k):
        return self

    def copy(self):
        return type(self)(self)

    def __neg__(self):
        return type(self)({k: -v for k, v in self.c.items()})

    def __mul__(self, o):
        if isinstance(o, _Ser):
            r = {}
            for (i, j), v in self.c.items():
                for (k, l), w in o.c.items():
                    if i + j + k + l <= N_MAX[0]:
                        r[(i + k, j + l)] = r.get((i + k, j + l), 0) + v * w
            return type(self)(r)
        o = _fr(o)
        return type(self)({k: v * o for k, v in self.c.items()})

    __rmul__ = __mul__

    def __truediv__(self, o):
        o = _fr(o)
        return type(self)({k: v / o for k, v in self.c.items()})

    def shift(self, di, dj):
        return type(self)({(i + di, j + dj): v for (i, j), v in self.c.items() if i + j + di + dj <= N_MAX[0]})

    def coeff(self, i, j=0):
        return self.c.get((i, j), Fraction(0))

    def valuation(self):
        return min((i + j for (i, j) in self.c), default=10**9)

    def __abs__(self):
        return float(sum(abs(v) for v in self.c.values()))

    def __repr__(self):
        return type(self).__name__ + str({k: float(v) for k, v in sorted(self.c.items())})


class mesh(_Ser):
    pass


class imex_mesh:
    __array_ufunc__ = None

    def __init__(self, init=None, val=0.0, **kw):
        if isinstance(init, imex_mesh):
            self.impl, self.expl = mesh(init.impl), mesh(init.expl)
        else:
            self.impl, self.expl = mesh(None, val), mesh(None, val)


class DahlquistSeries:
    """kind: 'full' (f = z*u), 'imex' (f.impl = zI*u, f.expl = zE*u), 'expl' (f = z*u, never solved)"""

    def __init__(self, kind='full', **kw):
        self.kind = kind
        self.init = ('series',)
        self.dtype_u = mesh
        self.dtype_f = imex_mesh if kind == 'imex' else mesh
        self.work_counters = {}
        self.n_solves = 0
        self.n_evals = 0

    @property
    def u_init(self):
        return mesh()

    @property
    def f_init(self):
        return self.dtype_f()

    def eval_f(self, u, t, *a, **k):
        self.n_evals += 1
        if self.kind == 'imex':
            f = imex_mesh()
            f.impl, f.expl = u.shift(1, 0), u.shift(0, 1)
            return f
        return u.shift(1, 0)

    def solve_system(self, rhs, factor, u0, t, *a, **k):
        self.n_solves += 1
        a = _fr(factor)
        out = mesh(rhs)
        term = mesh(rhs)
        for n in range(1, N_MAX[0] + 1):
            term = term.shift(1, 0) * a
            if not term.c:
                break
            out += term
        return out


def exp_coeff(i, j=0):
    from math import factorial

    return Fraction(1, factorial(i) * factorial(j))
