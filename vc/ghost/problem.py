"""
Ghost problems: the *problem contract* (property C12) as an executable stub.

AbstractProblem implements the pySDC `Problem` interface over Vec:
  eval_f(u, t)             -> fresh atom F_k (uninterpreted, possibly nonlinear map of (u, t)); the call is recorded
                              as (result atom, copy of u, t). Syntactically identical arguments return the same atom.
  solve_system(rhs,a,u0,t) -> fresh atom S_k, recorded with copies of (rhs, a, u0, t): the defining equation
                              S_k - a*F_impl(S_k, t) = rhs is part of the *callee's* contract; callers are verified
                              against "which rhs / factor / time was handed to which solve".
Arguments are never modified (that is the callee contract, C12), results are new objects.

ConcreteLinearProblem is the native twin used by replays and by the run-time cross-check: real `mesh` data,
F(u,t) = A u + b cos(t) (split as A_I/A_E for IMEX), exact direct solve. It records the same ghost lists.
"""

import numpy as np
from vc import sym
from vc.vec import Vec, vec_syntactic_equal, vec_provably_equal, scalar_provably_equal


class Rec:
    def __init__(self, **kw):
        self.__dict__.update(kw)

    def __repr__(self):
        return 'Rec(' + ', '.join(f'{k}={v}' for k, v in self.__dict__.items()) + ')'


class VecMulti:
    """multi-component right-hand side (imex_mesh / comp2_mesh twin): named component Vecs"""

    components = ()
    __array_ufunc__ = None

    def __init__(self, init=None, val=None):
        if isinstance(init, VecMulti):
            for c in self.components:
                object.__setattr__(self, c, Vec(getattr(init, c)))
        else:
            for c in self.components:
                object.__setattr__(self, c, Vec(None, val))

    def _map2(self, o, f):
        r = type(self)()
        for c in self.components:
            setattr(r, c, f(getattr(self, c), getattr(o, c) if isinstance(o, VecMulti) else o))
        return r

    def __add__(self, o):
        return self._map2(o, lambda a, b: a + b)

    def __sub__(self, o):
        return self._map2(o, lambda a, b: a - b)

    def __mul__(self, o):
        return self._map2(o, lambda a, b: a * b)

    __rmul__ = __mul__

    def total(self):
        r = Vec()
        for c in self.components:
            r += getattr(self, c)
        return r

    def __repr__(self):
        return type(self).__name__ + '(' + ', '.join(f'{c}={getattr(self, c)}' for c in self.components) + ')'


class VecIMEX(VecMulti):
    components = ('impl', 'expl')


class VecComp2(VecMulti):
    components = ('comp1', 'comp2')


def _same_scalar(a, b):
    if sym.is_sym(a) or sym.is_sym(b):
        from vc.discharge import poly, _padd

        cache = {}
        return _padd(poly(sym.SNum.lift(a).t, cache), poly(sym.SNum.lift(b).t, cache), -1) == {}
    return a == b


class AbstractProblem:
    """kind in {'full', 'imex', 'comp2'}"""

    dtype_u = Vec
    dtype_f = Vec

    def __init__(self, kind='full', name='P', **kwargs):
        self.kind = kind
        self.name = name
        self.init = ('abstract', name)
        self.dtype_u = Vec
        self.dtype_f = {'full': Vec, 'imex': VecIMEX, 'comp2': VecComp2}[kind]
        self.evals = []  # Rec(f, u, t)
        self.solves = []  # Rec(s, rhs, factor, u0, t)
        self.mass = []  # Rec(out, u)
        self.work_counters = {}
        self.params = {}
        self.extra = kwargs
        self.trace = None  # optional shared call trace (list) for order obligations

    # -- problem interface
    @property
    def u_init(self):
        return Vec()

    @property
    def f_init(self):
        return self.dtype_f()

    def eval_f(self, u, t, *args, **kwargs):
        for r in self.evals:
            if vec_syntactic_equal(r.u, u) and _same_scalar(r.t, t):
                if self.trace is not None:
                    self.trace.append(('eval_f', self.name, r))
                return self._copy_f(r.f)
        # congruence under the path condition: F is a function, provably equal arguments give equal values
        for r in self.evals:
            if scalar_provably_equal(r.t, t) and vec_provably_equal(r.u, u):
                if self.trace is not None:
                    self.trace.append(('eval_f', self.name, r))
                return self._copy_f(r.f)
        k = len(self.evals)
        if self.kind == 'full':
            f = Vec.atom(f'{self.name}.F{k}', kind='f')
        elif self.kind == 'imex':
            f = VecIMEX()
            f.impl = Vec.atom(f'{self.name}.FI{k}', kind='f')
            f.expl = Vec.atom(f'{self.name}.FE{k}', kind='f')
        else:
            f = VecComp2()
            f.comp1 = Vec.atom(f'{self.name}.F1_{k}', kind='f')
            f.comp2 = Vec.atom(f'{self.name}.F2_{k}', kind='f')
        r = Rec(f=self._copy_f(f), u=Vec(u), t=t, k=k)
        self.evals.append(r)
        if self.trace is not None:
            self.trace.append(('eval_f', self.name, r))
        return f

    def _copy_f(self, f):
        return Vec(f) if isinstance(f, Vec) else type(f)(f)

    def solve_system(self, rhs, factor, u0, t, *args, **kwargs):
        k = len(self.solves)
        s = Vec.atom(f'{self.name}.S{k}')
        r = Rec(s=Vec(s), rhs=Vec(rhs), factor=factor, u0=(Vec(u0) if isinstance(u0, Vec) else u0), t=t, k=k)
        self.solves.append(r)
        if self.trace is not None:
            self.trace.append(('solve_system', self.name, r))
        return s

    # multi_implicit sweeper interface
    def solve_system_1(self, rhs, factor, u0, t):
        s = self.solve_system(rhs, factor, u0, t)
        self.solves[-1].which = 1
        return s

    def solve_system_2(self, rhs, factor, u0, t):
        s = self.solve_system(rhs, factor, u0, t)
        self.solves[-1].which = 2
        return s

    def apply_mass_matrix(self, u):
        for r in self.mass:
            if vec_syntactic_equal(r.u, u):
                return Vec(r.out)
        # linear map: M(sum c_a a) = sum c_a M(a)
        out = Vec({f'M[{a}]': c for a, c in u.c.items()})
        self.mass.append(Rec(out=Vec(out), u=Vec(u)))
        return out

    def find_eval(self, f):
        """the record whose result is (syntactically) f"""
        for r in self.evals:
            if isinstance(f, Vec) and isinstance(r.f, Vec) and vec_syntactic_equal(r.f, f):
                return r
            if not isinstance(f, Vec) and not isinstance(r.f, Vec) and type(f) is type(r.f):
                if all(vec_syntactic_equal(getattr(f, c), getattr(r.f, c)) for c in f.components):
                    return r
        return None

    def find_solve(self, u):
        for r in self.solves:
            if vec_syntactic_equal(r.s, u):
                return r
        return None


class VecP:
    """ghost particle data (positions/velocities as Vec, masses/charges opaque): twin of datatype_classes.particles"""

    components = ('pos', 'vel')
    __array_ufunc__ = None

    def __init__(self, init=None, val=None, vals=None):
        if isinstance(init, VecP):
            self.pos, self.vel = Vec(init.pos), Vec(init.vel)
            self.m, self.q = init.m, init.q
        else:
            self.pos, self.vel = Vec(None, val), Vec(None, val)
            self.m = self.q = None

    def total(self):
        raise TypeError('particles have no total()')

    def _map2(self, o, f):
        r = VecP(self)
        r.pos = f(self.pos, o.pos if isinstance(o, VecP) else o)
        r.vel = f(self.vel, o.vel if isinstance(o, VecP) else o)
        return r

    def __add__(self, o):
        return self._map2(o, lambda a, b: a + b)

    def __sub__(self, o):
        return self._map2(o, lambda a, b: a - b)

    def __mul__(self, o):
        return self._map2(o, lambda a, b: a * b)

    __rmul__ = __mul__

    def __abs__(self):
        return abs(self.pos) + abs(self.vel)

    def __repr__(self):
        return f'VecP(pos={self.pos}, vel={self.vel})'


def data_syntactic_equal(a, b):
    if isinstance(a, Vec) and isinstance(b, Vec):
        return vec_syntactic_equal(a, b)
    if hasattr(a, 'components') and type(a) is type(b):
        return all(vec_syntactic_equal(getattr(a, c), getattr(b, c)) for c in a.components)
    return False


class ParticleProblem(AbstractProblem):
    """second-order problem contract: eval_f(u, t) is an uninterpreted map of (u.pos, u.vel, t) returning an acceleration"""

    def __init__(self, kind='particles', name='P', **kw):
        super().__init__(kind='full', name=name)
        self.kind = 'particles'
        self.dtype_u = VecP
        self.dtype_f = Vec

    def eval_f(self, u, t, *a, **k):
        for r in self.evals:
            if data_syntactic_equal(r.u, u) and _same_scalar(r.t, t):
                return Vec(r.f)
        kk = len(self.evals)
        f = Vec.atom(f'{self.name}.A{kk}', kind='f')
        self.evals.append(Rec(f=Vec(f), u=VecP(u), t=t, k=kk))
        return f

    def find_eval(self, f):
        for r in self.evals:
            if vec_syntactic_equal(r.f, f):
                return r
        return None


class mesh(Vec):
    """a Vec whose TYPE NAME is 'mesh': RungeKutta.get_full_f dispatches on type(f).__name__"""


class RKAbstractProblem(AbstractProblem):
    def __init__(self, **kw):
        super().__init__(**kw)
        self.dtype_f = mesh

    def eval_f(self, u, t, *a, **k):
        return mesh(super().eval_f(u, t, *a, **k))

    @property
    def f_init(self):
        return mesh()
