"""
./check <Cxx> [--tier quick|thorough] [--only substr] [--jobs N]      run the contracts of one property
./check --replay <path>                                              re-run a recorded counterexample natively

exit 0: every obligation discharged (KNOWN-FINDING lines possible)   exit 1: VIOLATION
exit 2: undecided (solver unknown / path cap / unsupported construct / contract failed to bind)   exit 3: checker crash
"""

import argparse
import glob
import importlib
import json
import multiprocessing as mp
import os
import re
import sys
import time
import traceback

ROOT = os.path.dirname(os.path.dirname(os.path.abspath(__file__)))
REPO = os.environ.get('VERIF_REPO', '/repo')


def _install_mutant_hook():
    """VERIF_MUTANT='{"file": "pySDC/core/x.py", "old": "...", "new": "..."}' : the named module is compiled from its
    source in /repo with exactly one textual replacement, in memory (scratch-mutant self test; nothing is written)."""
    spec = os.environ.get('VERIF_MUTANT')
    if not spec:
        return None
    mut = json.loads(spec)
    import importlib.abc
    import importlib.util

    modname = mut['file'][:-3].replace('/', '.')

    class Loader(importlib.abc.SourceLoader):
        def __init__(self, path):
            self.path = path

        def get_filename(self, fullname):
            # a name that does not exist on disk: inspect/linecache then ask this loader for the (mutated) source
            return self.path + '#mutant'

        def get_data(self, path):
            if path.endswith('#mutant'):
                path = path[: -len('#mutant')]
            src = open(path, 'rb').read()
            if path == self.path:
                text = src.decode()
                if text.count(mut['old']) != 1:
                    raise ImportError(f"mutant: pattern occurs {text.count(mut['old'])} times in {path}")
                return text.replace(mut['old'], mut['new']).encode()
            return src

    class Finder(importlib.abc.MetaPathFinder):
        def find_spec(self, fullname, path, target=None):
            if fullname != modname:
                return None
            fn = os.path.join(REPO, mut['file'])
            return importlib.util.spec_from_loader(fullname, Loader(fn), origin=fn)

    sys.meta_path.insert(0, Finder())
    sys.dont_write_bytecode = True
    return mut


def load_modules(prop):
    mods = []
    for fn in sorted(glob.glob(os.path.join(ROOT, 'contracts', f'{prop}_*.py'))):
        mods.append(importlib.import_module('contracts.' + os.path.basename(fn)[:-3]))
    return mods


class JobTimeout(BaseException):
    """CPU-time watchdog of one job (BaseException: 'except Exception' in the code under check must not swallow it)"""


def _arm_watchdog(tier):
    # ITIMER_PROF (process CPU time): independent of signal.alarm/ITIMER_REAL, which some contract files use themselves
    import signal

    budget = float(os.environ.get('VERIF_JOB_TIMEOUT', '2400' if tier == 'quick' else '28800'))

    def handler(signum, frame):
        raise JobTimeout()

    signal.signal(signal.SIGPROF, handler)
    signal.setitimer(signal.ITIMER_PROF, budget)
    return budget


def _disarm_watchdog():
    import signal

    signal.setitimer(signal.ITIMER_PROF, 0)


def _job(args):
    modname, idx, inst, kind, tier, seed = args
    from contracts.common import silence_logging

    silence_logging()
    mod = importlib.import_module(modname)
    budget = _arm_watchdog(tier)
    try:
        return _job_inner(mod, modname, idx, inst, kind, tier, seed)
    except JobTimeout:
        return dict(contract=f'{modname}[{idx}]', inst=inst, status='undecided', error=f'job exceeded its CPU-time budget of {budget:.0f}s (no verdict)',
                    obligations=[], canaries=[], paths=0, seconds=budget, label='undecided')
    finally:
        _disarm_watchdog()


def _job_inner(mod, modname, idx, inst, kind, tier, seed):
    try:
        if kind == 'contract':
            from vc.contract import run_instance

            c = mod.CONTRACTS[idx]()
            return run_instance(c, inst)
        else:
            f = mod.EXTRAS[idx]
            t0 = time.time()
            r = f(tier, seed)
            r.setdefault('seconds', time.time() - t0)
            return r
    except Exception:
        return dict(contract=f'{modname}[{idx}]', inst=inst, status='crash', error=traceback.format_exc(), obligations=[],
                    canaries=[], paths=0, seconds=0.0, label='crash')


def _native_job(args):
    modname, idx, inst, model, seeds = args
    from contracts.common import silence_logging
    from vc.native import run_native

    silence_logging()
    mod = importlib.import_module(modname)
    c = mod.CONTRACTS[idx]()
    out = []
    seeds = list(seeds)
    if getattr(c, 'special_floats', False):
        seeds += [('special', 7000 + k) for k in range(40)]
    budget = _arm_watchdog('quick')
    try:
        _native_seeds(c, inst, model, seeds, out)
    except JobTimeout:
        out.append(dict(pre_ok=False, failed=[], used={}, exc=f'native run exceeded its CPU-time budget of {budget:.0f}s', harness_error=True, seed=None))
    finally:
        _disarm_watchdog()
    return out


def _native_seeds(c, inst, model, seeds, out):
    from vc.native import run_native

    for s in seeds:
        try:
            if isinstance(s, tuple):
                r = run_native(c, inst, None, seed=s[1], special=True)
                r['seed'] = f'special:{s[1]}'
                out.append(r)
                continue
            r = run_native(c, inst, model if s is None else None, seed=0 if s is None else s)
        except Exception:
            r = dict(pre_ok=False, failed=[], used={}, exc='native harness error: ' + traceback.format_exc(limit=6), harness_error=True)
        r['seed'] = s
        out.append(r)


def load_known():
    fn = os.path.join(ROOT, 'known_findings.json')
    if not os.path.exists(fn):
        return []
    return json.load(open(fn))


def matches(entry, prop, contract, inst, obname):
    if entry.get('kind') != 'finding' or entry.get('property') != prop:
        return False
    m = entry['match']
    if m.get('contract') and m['contract'] != contract:
        return False
    if m.get('obligation_prefix') and not obname.startswith(m['obligation_prefix']):
        return False
    if m.get('obligation_regex') and not re.fullmatch(m['obligation_regex'], obname):
        return False
    if m.get('inst'):
        for k, v in m['inst'].items():
            if inst.get(k) != v:
                return False
    return True


def main(argv=None):
    ap = argparse.ArgumentParser()
    ap.add_argument('prop', nargs='?')
    ap.add_argument('--tier', default=os.environ.get('VERIF_TIER', 'quick'))
    ap.add_argument('--only', default=None)
    ap.add_argument('--jobs', type=int, default=int(os.environ.get('VERIF_JOBS', '14')))
    ap.add_argument('--replay', default=None)
    ap.add_argument('--no-evidence', action='store_true')
    ap.add_argument('--verbose', '-v', action='store_true')
    a = ap.parse_args(argv)
    seed = int(os.environ.get('VERIF_SEED', '0'))
    mutant = _install_mutant_hook()
    sys.path.insert(0, REPO)
    from contracts.common import silence_logging

    silence_logging()

    if a.replay:
        return replay_file(a.replay)

    t0 = time.time()
    prop = a.prop
    mods = load_modules(prop)
    if not mods:
        print(f'no contracts for {prop}')
        return 3
    jobs = []
    for mod in mods:
        for i, C in enumerate(getattr(mod, 'CONTRACTS', [])):
            c = C()
            if a.only and a.only not in c.name:
                continue
            for inst in getattr(c, 'all_instances', c.instances)(a.tier):
                jobs.append((mod.__name__, i, inst, 'contract', a.tier, seed))
        for i, f in enumerate(getattr(mod, 'EXTRAS', [])):
            if a.only and a.only not in f.__name__:
                continue
            jobs.append((mod.__name__, i, {}, 'extra', a.tier, seed))
    if not jobs:
        print('no jobs selected')
        return 3

    ctx = mp.get_context('fork')
    with ctx.Pool(min(a.jobs, len(jobs))) as pool:
        results = pool.map(_job, jobs, chunksize=1)

    # ---- native cross-check of the contracts (run-time assertion on the real code, random inputs)
    nat_jobs = []
    n_seeds = 3 if a.tier == 'quick' else 10
    for (modname, i, inst, kind, _, _), r in zip(jobs, results):
        if kind == 'contract' and r.get('status') == 'ok' and getattr(importlib.import_module(modname).CONTRACTS[i], 'native', True):
            nat_jobs.append((modname, i, inst, None, [seed * 1000 + k + 1 for k in range(n_seeds)]))
    with ctx.Pool(min(a.jobs, max(1, len(nat_jobs)))) as pool:
        nat_results = pool.map(_native_job, nat_jobs, chunksize=4) if nat_jobs else []
    native_by_key = {}
    for j, rr in zip(nat_jobs, nat_results):
        native_by_key[(j[0], j[1], json.dumps(j[2], sort_keys=True))] = rr

    # ---- verdict
    known = load_known()
    n_ob = n_dis = 0
    refuted, unknown, crashes, undecided_inst = [], [], [], []
    backends = {}
    solver_s = 0.0
    functions = {}
    canary_fail = []
    samples = []
    native_runs = native_fail = native_skipped = 0
    native_failures = []
    bounded = []
    for (modname, i, inst, kind, _, _), r in zip(jobs, results):
        name = r.get('contract')
        fkey = functions.setdefault(name, dict(instances=0, obligations=0, paths=0, label=r.get('label'), seconds=0.0,
                                              kind=r.get('kind', 'contract'), target=r.get('target')))
        fkey['instances'] += 1
        fkey['paths'] += r.get('paths', 0)
        fkey['seconds'] += r.get('seconds', 0.0)
        if r.get('bounded'):
            bounded.append(dict(name=name, **r['bounded']))
        if r.get('status') == 'crash':
            crashes.append((name, inst, r.get('error')))
            continue
        if r.get('status') == 'undecided':
            undecided_inst.append((name, inst, r.get('error')))
            continue
        if not r.get('obligations'):
            crashes.append((name, inst, 'zero obligations generated (vacuous)'))
            continue
        for ob in r['obligations']:
            if ob.get('counted', True):
                n_ob += 1
            fkey['obligations'] += 1
            backends[ob['backend']] = backends.get(ob['backend'], 0) + 1
            solver_s += ob['seconds']
            if ob['status'] == 'proved':
                if ob.get('counted', True):
                    n_dis += 1
                if len(samples) < 6 and ob['backend'] in ('z3', 'ring') and all(s['function'] != name for s in samples):
                    samples.append(dict(function=name, instance=inst, clause=ob['name'], backend=ob['backend'],
                                        smt_size=ob.get('size', 0), result='discharged', paths=r.get('paths')))
            elif ob['status'] == 'refuted':
                ob['job_kind'] = kind
                refuted.append((modname, i, name, inst, ob))
            else:
                unknown.append((name, inst, ob))
        for c in r.get('canaries', []):
            if not c['refuted']:
                canary_fail.append((name, inst, c['name']))
        if kind == 'contract':
            for nr in native_by_key.get((modname, i, json.dumps(inst, sort_keys=True)), []):
                if nr.get('harness_error'):
                    crashes.append((name, inst, nr['exc']))
                elif not nr['pre_ok']:
                    native_skipped += 1
                else:
                    native_runs += 1
                    if nr['failed']:
                        native_fail += 1
                        native_failures.append((modname, i, name, inst, nr))

    lines = []
    exit_code = 0
    viol = 0
    os.makedirs(os.path.join(ROOT, 'replays'), exist_ok=True)
    seen_known = set()

    # group refuted obligations per (contract, inst, obligation name): one report each
    groups = {}
    for modname, i, name, inst, ob in refuted:
        groups.setdefault((modname, i, name, json.dumps(inst, sort_keys=True), ob['name']), []).append(ob)
    reported = 0
    known_excluded = 0
    for (modname, i, name, inst_s, obname), obs in sorted(groups.items()):
        inst = json.loads(inst_s)
        ke = next((e for e in known if matches(e, prop, name, inst, obname)), None)
        if ke is not None:
            if ke['id'] not in seen_known:
                seen_known.add(ke['id'])
                lines.append(f"KNOWN-FINDING: property={prop} {ke['text']}")
            # obligations covered by a recorded finding are reported through the KNOWN-FINDING line, not counted as proof obligations
            n_ob -= sum(1 for o in obs if o.get('counted', True))
            known_excluded += sum(1 for o in obs if o.get('counted', True))
            continue
        viol += 1
        if reported >= int(os.environ.get('VERIF_MAXREPORT', '8')):
            continue
        reported += 1
        rp = write_replay(prop, modname, i, name, inst, obs[0], mutant)
        conf = try_replay(modname, i, inst, obs[0], seed)
        with open(rp) as f:
            d = json.load(f)
        d['native_replay'] = conf
        with open(rp, 'w') as f:
            json.dump(d, f, indent=1, default=str)
        tail = '' if conf['confirmed'] else ' no-failing-input-found'
        lines.append(f"VIOLATION property={prop} replay={rp}{tail}")
        lines.append(f"  failed obligation: {prop}.{name}.{obname} instance={inst} native={conf['how']}")
        exit_code = 1
    # native failures whose symbolic proof passed: the engine or the contract is wrong, or the code violates the
    # contract on real floats -> never silent
    for modname, i, name, inst, nr in native_failures:
        fl = [f for f in nr['failed'] if not any(matches(e, prop, name, inst, f) for e in known)]
        if not fl:
            continue
        if any(g[2] == name and g[3] == json.dumps(inst, sort_keys=True) for g in groups):
            continue  # already reported through the symbolic route
        viol += 1
        rp = os.path.join(ROOT, 'replays', f'{prop}_{_safe(name)}_native_{abs(hash(json.dumps(inst, sort_keys=True))) % 10**8}.json')
        with open(rp, 'w') as f:
            json.dump(dict(property=prop, contract=name, module=modname, index=i, inst=inst, obligation=fl[0], model=None,
                           native_seed=nr['seed'], failed_clauses=fl, note='contract evaluated natively (run-time assertion on the real code) fails while the symbolic proof passed'), f, indent=1, default=str)
        lines.append(f"VIOLATION property={prop} replay={rp}")
        lines.append(f"  native contract check failed: {prop}.{name}.{fl[0]} instance={inst} seed={nr['seed']}")
        exit_code = 1

    if exit_code == 0:
        if crashes:
            exit_code = 3
        elif unknown or undecided_inst or canary_fail:
            exit_code = 2
    for e in known:
        if e.get('kind') == 'finding' and e.get('property') == prop and e['id'] not in seen_known and e.get('always_print', False):
            lines.append(f"KNOWN-FINDING: property={prop} {e['text']}")

    wall = time.time() - t0
    for l in lines:
        print(l)
    for name, inst, err in crashes[:5]:
        print(f'CRASH {name} {inst}:\n{err}')
    for name, inst, err in undecided_inst[:5]:
        print(f'UNDECIDED {name} {inst}: {err}')
    for name, inst, ob in unknown[:10]:
        print(f'UNKNOWN {name} {inst}: {ob["name"]} ({ob.get("reason")})')
    for name, inst, c in canary_fail[:10]:
        print(f'CANARY-NOT-REFUTED {name} {inst}: {c}  (run void)')
    print(f'{prop} tier={a.tier}: functions={len(functions)} instances={len(jobs)} obligations={n_ob} discharged={n_dis} '
          f'refuted={len(refuted)} unknown={len(unknown)} undecided_instances={len(undecided_inst)} crashes={len(crashes)} '
          f'native_runs={native_runs} native_fail={native_fail} backends={backends} wall={wall:.1f}s exit={exit_code}')
    if a.verbose:
        for k, v in functions.items():
            print(f'  {k}: {v}')

    if not a.no_evidence and not a.only and not mutant:
        write_evidence(prop, a.tier, seed, mods, functions, n_ob, n_dis, backends, solver_s, samples, wall, viol,
                       unknown, undecided_inst, canary_fail, native_runs, native_skipped, native_fail, bounded, lines,
                       results)
    return exit_code


def _safe(name):
    import re

    return re.sub(r'[^A-Za-z0-9_.\[\]-]+', '_', name)


def write_replay(prop, modname, i, name, inst, ob, mutant):
    h = abs(hash((name, json.dumps(inst, sort_keys=True), ob['name']))) % 10**8
    rp = os.path.join(ROOT, 'replays', f'{prop}_{_safe(name)}_{h}.json')
    with open(rp, 'w') as f:
        json.dump(dict(property=prop, contract=name, module=modname, index=i, inst=inst, obligation=ob['name'], job_kind=ob.get('job_kind'),
                       failed_obligation=f'{prop}.{name}.{ob["name"]}', model=ob.get('model'), backend=ob['backend'],
                       clause=ob.get('clause'), info=ob.get('info'), path_decisions=ob.get('decisions'),
                       solver_output=f"{ob['backend']}: sat (pc /\\ not clause), {ob['seconds']}s", mutant=mutant),
                  f, indent=1, default=str)
    return rp


def try_replay(modname, i, inst, ob, seed):
    """model first, then random inputs: is there a concrete input on which the real code violates the clause?"""
    from vc.native import run_native

    mod = importlib.import_module(modname)
    if ob.get('job_kind') == 'extra':
        if ob.get('kind') == 'bounded':
            return dict(confirmed=True, how='bounded enumeration ran the real code on concrete inputs', inputs=ob.get('model'))
        return dict(confirmed=False, how='lemma over specification functions: no native twin')
    C = mod.CONTRACTS[i] if i < len(getattr(mod, 'CONTRACTS', [])) else None
    if C is None or not getattr(C, 'native', True) or ob.get('kind') == 'lemma':
        return dict(confirmed=False, how='no native twin for this obligation')
    c = C()
    tries = [(ob.get('model'), 0)] + [(None, seed * 1000 + k + 1) for k in range(20)]
    for model, s in tries:
        try:
            r = run_native(c, inst, model, seed=s)
        except Exception as e:
            return dict(confirmed=False, how=f'native harness error {e!r}')
        if r['pre_ok'] and ob['name'] in r['failed']:
            return dict(confirmed=True, how=('model replayed' if model is not None else f'random input seed={s}'),
                        inputs=r['used'], failed=r['failed'], exc=r['exc'])
    return dict(confirmed=False, how='model and 20 random inputs do not fail natively')


def replay_file(path):
    d = json.load(open(path))
    prop, name = d['property'], d['contract']
    mod = importlib.import_module(d['module'])
    if d.get('job_kind') == 'extra' or d['index'] >= len(getattr(mod, 'CONTRACTS', [])):
        f = mod.EXTRAS[d['index']]
        r = f('quick', 0)
        bad = [o for o in r['obligations'] if o['status'] == 'refuted']
        print(f"replay {prop}.{name}: re-ran {f.__name__}: {len(bad)} failing")
        if bad:
            print(f'VIOLATION property={prop} replay={path}')
            return 1
        return 0
    c = mod.CONTRACTS[d['index']]()
    from vc.native import run_native

    seeds = [(d.get('model'), 0)] if d.get('model') is not None else []
    if d.get('native_seed') is not None:
        seeds.append((None, d['native_seed']))
    nr = d.get('native_replay') or {}
    if nr.get('how', '').startswith('random input seed='):
        seeds.append((None, int(nr['how'].split('=')[1])))
    for model, s in seeds:
        if isinstance(s, str) and s.startswith('special:'):
            r = run_native(c, d['inst'], None, seed=int(s.split(':')[1]), special=True)
        else:
            r = run_native(c, d['inst'], model, seed=s)
        print(f"replay {prop}.{name}.{d['obligation']} inst={d['inst']} seed={s}: pre_ok={r['pre_ok']} failed={r['failed']} exc={r['exc']}")
        if r['pre_ok'] and d['obligation'] in r['failed']:
            print(f'VIOLATION property={prop} replay={path}')
            return 1
    print('replay: clause holds natively on the recorded input')
    return 0


def write_evidence(prop, tier, seed, mods, functions, n_ob, n_dis, backends, solver_s, samples, wall, viol, unknown,
                   undecided_inst, canary_fail, native_runs, native_skipped, native_fail, bounded, lines, results):
    trusted = []
    assumptions = []
    undecided_clauses = []
    for mod in mods:
        for C in getattr(mod, 'CONTRACTS', []):
            for s in getattr(C, 'stubs', ()):
                t = f'stub (callee contract, assumed here): {s}'
                if t not in trusted:
                    trusted.append(t)
            for s in getattr(C, 'assumptions', ()):
                if s not in assumptions:
                    assumptions.append(s)
        for s in getattr(mod, 'ASSUMPTIONS', ()):
            if s not in assumptions:
                assumptions.append(s)
        for s in getattr(mod, 'UNDECIDED', ()):
            undecided_clauses.append(s)
    trusted += [
        'CPython executing the real pySDC functions on symbolic leaves (vc/sym.py, vc/vec.py), cross-checked natively each run',
        'path explorer vc/paths.py (exhaustive re-execution; fails closed on cap)',
        'z3 5.1 / cvc5 1.0.3 / polynomial normal form (vc/discharge.py)',
        'logging.Logger methods replaced by no-ops in the check process',
    ]
    assumptions = ['floats treated as mathematical reals (exact rationals for concrete floats) unless stated otherwise',
                   'data types obey the vector-space laws (Vec = free module over atoms)'] + assumptions
    level = 'proof'
    for mod in mods:
        level = getattr(mod, 'LEVEL', level)
    total_cases = sum(b.get('cases', 0) for b in bounded)
    ev = dict(
        property_id=prop,
        tier=tier,
        seed=seed,
        level=level,
        coverage=dict(
            obligations=n_ob,
            discharged=n_dis,
            checker_cmd=f'./check {prop} --tier {tier}',
            trusted_base=trusted,
            samples=samples or [dict(note='no solver-discharged sample in this run')],
            functions_under_contract=functions,
            backends=backends,
            solver_seconds=round(solver_s, 2),
            canaries_not_refuted=[list(map(str, c)) for c in canary_fail],
            native_cross_check=dict(runs=native_runs, skipped_pre=native_skipped, failures=native_fail,
                                    what='same contracts evaluated as run-time assertions on the real code with real floats and real mesh data'),
            bounded_stand_ins=bounded,
            undecided_clauses=undecided_clauses,
            unknown_obligations=[f'{n}:{o["name"]}' for n, _, o in unknown][:50],
            undecided_instances=[f'{n}:{i}' for n, i, _ in undecided_inst][:50],
            report_lines=lines,
            exhaustive=False,
            evaluations=max(1, total_cases + native_runs),
            distinct_nontrivial=max(2, sum(len(b.get('covered', [])) or 1 for b in bounded)) if bounded else max(2, len(functions)),
            rule='bounded stand-ins: every enumerated configuration / class is one case (distinct by construction); contracts: one native run per (instance, seed)',
        ),
        assumptions=assumptions,
        wall_s=round(wall, 2),
        violations=viol,
    )
    os.makedirs(os.path.join(ROOT, 'evidence'), exist_ok=True)
    with open(os.path.join(ROOT, 'evidence', f'{prop}.json'), 'w') as f:
        json.dump(ev, f, indent=1, default=str)


if __name__ == '__main__':
    sys.exit(main())
