"""
Vec: element of the free real module over named atoms, coefficients are scalars (Fraction / float / SNum).

Used for dtype_u / dtype_f values. Mirrors the aliasing behaviour of pySDC's `mesh`: because mesh.__array_ufunc__ drops
`out=`, augmented assignment (`+=`, `-=`, `*=`) REBINDS the name to a new object and never modifies the operand (checked
natively: `b = a; b += 2` leaves `a` unchanged); only slice assignment `u[:] = v` is in place. All operators return new objects. An identity proved coefficient-wise over independent atoms holds in every vector
space; the vector-space laws of the real data types are C13's business and are assumed here.
"""

import numpy as np
import z3
from fractions import Fraction
from vc import sym
from vc.sym import SNum, SBool


def _is_scalar(x):
    return isinstance(x, (int, float, Fraction, SNum, np.integer, np.floating)) and not isinstance(x, bool)


def _is_zero(c):
    if isinstance(c, SNum):
        k = c.const()
        return k is not None and k == 0
    return c == 0


def _exact(c):
    if isinstance(c, (float, np.floating)):
        return Fraction(float(c))
    if isinstance(c, (np.integer,)):
        return int(c)
    return c


class Vec:
    __array_ufunc__ = None
    __array_priority__ = 2000
    _ids = 0

    def __init__(self, init=None, val=None, kind='u'):
        """copy-constructor (Vec) or 'allocate' (anything else, filled with val which must be 0/0.0/None)"""
        self.kind = kind
        if isinstance(init, Vec):
            self.c = dict(init.c)
            self.kind = init.kind
        elif isinstance(init, dict):
            self.c = {a: _exact(v) for a, v in init.items() if not _is_zero(v)}
        else:
            if val is not None and not _is_zero(val):
                # a constant non-zero fill: represented as val * ONE
                self.c = {'ONE': _exact(val)}
            else:
                self.c = {}
        Vec._ids += 1
        self.uid = Vec._ids

    @staticmethod
    def atom(name, kind='u'):
        return Vec({name: 1}, kind=kind)

    def copy(self):
        return Vec(self)

    # ---- linear structure
    def _iadd(self, o, s):
        if not isinstance(o, Vec):
            if _is_scalar(o) and _is_zero(o):
                return self
            return NotImplemented
        for a, v in o.c.items():
            nv = self.c.get(a, 0) + (v if s == 1 else -v)
            if _is_zero(nv):
                self.c.pop(a, None)
            else:
                self.c[a] = nv
        return self

    def __iadd__(self, o):
        r = Vec(self)
        return r._iadd(o, 1)

    def __isub__(self, o):
        r = Vec(self)
        return r._iadd(o, -1)

    def __add__(self, o):
        r = Vec(self)
        return r._iadd(o, 1)

    def __radd__(self, o):
        if _is_scalar(o) and _is_zero(o):  # sum([...]) starts with 0
            return Vec(self)
        return NotImplemented

    def __sub__(self, o):
        r = Vec(self)
        return r._iadd(o, -1)

    def __rsub__(self, o):
        if _is_scalar(o) and _is_zero(o):
            return -self
        return NotImplemented

    def __neg__(self):
        return Vec({a: -v for a, v in self.c.items()}, kind=self.kind)

    def __pos__(self):
        return Vec(self)

    def __mul__(self, o):
        if isinstance(o, np.ndarray) and o.shape == ():
            o = o.item()
        if not _is_scalar(o):
            return NotImplemented
        o = _exact(o)
        return Vec({a: v * o for a, v in self.c.items()}, kind=self.kind)

    __rmul__ = __mul__

    def __imul__(self, o):
        return self.__mul__(o)

    def __truediv__(self, o):
        if not _is_scalar(o):
            return NotImplemented
        o = _exact(o)
        return Vec({a: v / o for a, v in self.c.items()}, kind=self.kind)

    def __abs__(self):
        return norm_of(self)

    def __repr__(self):
        return 'Vec(' + ' + '.join(f'{v}*{a}' for a, v in self.c.items()) + ')'

    def atoms(self):
        return set(self.c)

    def coeff(self, a):
        return self.c.get(a, 0)

    def is_symbolic(self):
        return True

    # meshes support u[:] = v and u[...] = v ; pySDC uses this in a few places
    def __setitem__(self, k, v):
        if k == slice(None) or k is Ellipsis:
            if isinstance(v, Vec):
                self.c = dict(v.c)
                return
            if _is_scalar(v) and _is_zero(v):
                self.c = {}
                return
        raise sym.Unsupported(f'Vec.__setitem__[{k}]')

    def __getitem__(self, k):
        if k == slice(None) or k is Ellipsis:
            return self  # a view of the whole buffer aliases it
        raise sym.Unsupported(f'Vec.__getitem__[{k}]')


# ------------------------------------------------------------------------------------------------ norms (ghost)
class NormBook:
    """abs(Vec) is an uninterpreted non-negative real per call; the argument is recorded so that post-conditions can
    state *which* vector a norm symbol is the norm of. Functional consistency (equal vectors -> equal norms) is
    added for syntactically identical arguments only, which is all the contracts need."""

    def __init__(self):
        self.records = []  # (symbol SNum, Vec copy)

    def norm(self, v):
        for s, w in self.records:
            if vec_syntactic_equal(v, w):
                return s
        s = sym.Real(sym.fresh_name('norm'))
        self.records.append((s, Vec(v)))
        p = sym.current_path()
        if p is not None:
            p.assume(s >= 0, 'norm>=0')
        return s

    def arg_of(self, s):
        for t, w in self.records:
            if t is s or (isinstance(s, SNum) and z3.eq(t.t, s.t)):
                return w
        return None


def norm_of(v):
    p = sym.current_path()
    if p is None:
        raise sym.Unsupported('abs(Vec) outside a path')
    book = p.ghost.setdefault('norms', NormBook())
    return book.norm(v)


def vec_syntactic_equal(a, b):
    if set(a.c) != set(b.c):
        return False
    for k in a.c:
        x, y = a.c[k], b.c[k]
        if isinstance(x, SNum) or isinstance(y, SNum):
            from vc.discharge import poly, _padd

            cache = {}
            if _padd(poly(SNum.lift(x).t, cache), poly(SNum.lift(y).t, cache), -1) != {}:
                return False
        elif x != y:
            return False
    return True


def vec_eq_clauses(a, b):
    """list of (atom, SBool/bool) -- one equality per atom coefficient"""
    out = []
    za = a.c if isinstance(a, Vec) else {}
    zb = b.c if isinstance(b, Vec) else {}
    for k in sorted(set(za) | set(zb), key=str):
        x, y = za.get(k, 0), zb.get(k, 0)
        out.append((k, sym.eq(x, y) if (sym.is_sym(x) or sym.is_sym(y)) else (x == y)))
    return out


def vec_provably_equal(a, b):
    """equal under the current path condition (syntactic first, then a validity query to the path's solver)"""
    if vec_syntactic_equal(a, b):
        return True
    p = sym.current_path()
    if p is None:
        return False
    cl = [c for _, c in vec_eq_clauses(a, b)]
    terms = [c.t for c in cl if isinstance(c, SBool)]
    if any((not isinstance(c, SBool)) and (not c) for c in cl):
        return False
    if not terms:
        return True
    p.solver.push()
    p.solver.add(z3.Not(z3.And(*terms)))
    r = p.solver.check()
    p.solver.pop()
    return r == z3.unsat


def scalar_provably_equal(a, b):
    if not (sym.is_sym(a) or sym.is_sym(b)):
        return a == b
    from vc.discharge import poly, _padd

    cache = {}
    if _padd(poly(SNum.lift(a).t, cache), poly(SNum.lift(b).t, cache), -1) == {}:
        return True
    p = sym.current_path()
    if p is None:
        return False
    p.solver.push()
    p.solver.add(SNum.lift(a).t != SNum.lift(b).t)
    r = p.solver.check()
    p.solver.pop()
    return r == z3.unsat
