"""
AST loop cutter for loops whose trip count is symbolic.

cut(func, ordinal) re-reads the function's source from its file (every run), finds the `ordinal`-th loop among the
top-level statements of the function body and compiles three pieces out of the UNCHANGED statement nodes:

    pre(*args)        statements before the loop           -> dict of locals at the loop head
    guard(locals)     the loop test (While) evaluated on a locals dict
    body(locals)      one execution of the loop body       -> dict of locals at the next loop head
    post(locals)      statements after the loop            -> ('return', value)

Nothing is dropped or rewritten. What the harness adds around the pieces (havoc of the loop-carried locals, assumption
of invariant and guard) is the standard loop rule and is listed in the evidence. Loops with break/continue/return at the
cut level are not supported (Unsupported -> undecided). For-loops are supported for `for x in range(<expr>)` only.
"""

import ast
import inspect
import textwrap

from vc.sym import Unsupported

_MISSING = object()


class _HasJump(ast.NodeVisitor):
    def __init__(self):
        self.found = False

    def visit_Return(self, n):
        self.found = True

    def visit_Break(self, n):
        self.found = True

    def visit_Continue(self, n):
        self.found = True

    def visit_For(self, n):  # break/continue inside nested loops belong to them; returns still count
        for s in n.body + n.orelse:
            r = _OnlyReturn()
            r.visit(s)
            self.found = self.found or r.found

    visit_While = visit_For

    def visit_FunctionDef(self, n):
        pass

    visit_Lambda = visit_FunctionDef


class _OnlyReturn(ast.NodeVisitor):
    def __init__(self):
        self.found = False

    def visit_Return(self, n):
        self.found = True

    def visit_FunctionDef(self, n):
        pass

    visit_Lambda = visit_FunctionDef


def _stored_names(nodes):
    names = []
    for n in nodes:
        for x in ast.walk(n):
            if isinstance(x, ast.Name) and isinstance(x.ctx, (ast.Store, ast.Del)) and x.id not in names:
                names.append(x.id)
            elif isinstance(x, ast.arg) and x.arg not in names:
                pass
    return names


def _comprehension_targets(nodes):
    out = set()
    for n in nodes:
        for x in ast.walk(n):
            if isinstance(x, ast.comprehension):
                for y in ast.walk(x.target):
                    if isinstance(y, ast.Name):
                        out.add(y.id)
    return out


class Cut:
    def __init__(self, func, ordinal=0, kind=None):
        f = inspect.unwrap(func)
        f = getattr(f, '__func__', f)
        src = textwrap.dedent(inspect.getsource(f))
        tree = ast.parse(src)
        fd = tree.body[0]
        assert isinstance(fd, ast.FunctionDef)
        kinds = {None: (ast.While, ast.For), 'while': (ast.While,), 'for': (ast.For,)}[kind]
        loops = [i for i, s in enumerate(fd.body) if isinstance(s, kinds)]
        if ordinal >= len(loops):
            raise Unsupported(f'{f.__qualname__}: no top-level loop #{ordinal} (contract failed to bind)')
        li = loops[ordinal]
        loop = fd.body[li]
        j = _HasJump()
        for s in loop.body:
            j.visit(s)
        if j.found or loop.orelse:
            raise Unsupported(f'{f.__qualname__}: loop #{ordinal} has break/continue/return/else at the cut level')
        self.func = f
        self.loop = loop
        self.is_while = isinstance(loop, ast.While)
        self.args = [a.arg for a in fd.args.args]
        before, after = fd.body[:li], fd.body[li + 1:]
        comp = _comprehension_targets(fd.body)
        names = list(self.args)
        for n in _stored_names(fd.body):
            if n not in names and n not in comp:
                names.append(n)
        self.names = names
        self.loop_source = ast.unparse(loop).split('\n')[0]
        g = f.__globals__
        self._pre = self._compile('pre', self.args, before, g, ret_locals=True)
        self._body = self._compile('body', names, loop.body, g, ret_locals=True)
        self._post = self._compile('post', names, after, g, ret_locals=False)
        if self.is_while:
            self._guard = self._compile('guard', names, [ast.Return(value=loop.test)], g, ret_locals=False)
        else:
            self._guard = None
        self.n_before, self.n_body, self.n_after = len(before), len(loop.body), len(after)

    def _compile(self, tag, params, stmts, g, ret_locals):
        body = list(stmts)
        if ret_locals:
            # return {name: name for the names that are bound}
            body = body + [ast.parse('return {k: v for k, v in locals().items() if v is not __MISSING}').body[0]]
        if not body:
            body = [ast.Pass()]
        fd = ast.FunctionDef(
            name=f'__cut_{tag}',
            args=ast.arguments(posonlyargs=[], args=[ast.arg(arg=p) for p in params], kwonlyargs=[], kw_defaults=[],
                               defaults=[ast.Name(id='__MISSING', ctx=ast.Load())] * len(params)),
            body=body, decorator_list=[], type_params=[])
        mod = ast.Module(body=[fd], type_ignores=[])
        ast.fix_missing_locations(mod)
        ns = dict(g)
        ns['__MISSING'] = _MISSING
        exec(compile(mod, f'<cut:{self.func.__qualname__}:{tag}>', 'exec'), ns)
        return ns[f'__cut_{tag}']

    def pre(self, *args):
        return self._pre(*args)

    def guard(self, L):
        return self._guard(**{k: v for k, v in L.items() if k in self.names})

    def body(self, L):
        out = self._body(**{k: v for k, v in L.items() if k in self.names})
        out.pop('__MISSING', None)
        return out

    def post(self, L):
        return self._post(**{k: v for k, v in L.items() if k in self.names})

    def describe(self):
        return (f'{self.func.__qualname__}: cut at `{self.loop_source}` ({self.n_before} statements before, '
                f'{self.n_body} in the body, {self.n_after} after; locals {self.names})')
