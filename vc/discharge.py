r"""
Discharge of obligations  pc => clause.

Order of back ends (first that decides wins):
  1. 'simplify'  : z3.simplify(clause) is literally true
  2. 'ring'      : clause is an (in)equality-free conjunction of equalities a == b whose difference expands to the zero
                   polynomial over Q[symbols] (opaque sub-terms such as ite/div/uninterpreted applications are treated
                   as indeterminates) -- a decision procedure for polynomial identities, independent of the SMT solvers
  3. 'z3'        : z3 (Python API, timeout) on pc /\ not clause  -> unsat
  4. 'cvc5'      : cvc5 on the SMT-LIB dump of the same query when z3 says unknown
A 'sat' answer yields a model (the counterexample). 'unknown' on every back end -> undecided (never a violation).
"""

import time
import subprocess
import tempfile
import os
from fractions import Fraction
import z3

Z3_TIMEOUT_MS = int(os.environ.get('VERIF_Z3_TIMEOUT_MS', '10000'))
CVC5_TIMEOUT_S = int(os.environ.get('VERIF_CVC5_TIMEOUT_S', '20'))


class Obligation:
    __slots__ = ('name', 'pc', 'clause', 'kind', 'info')

    def __init__(self, name, pc, clause, kind='post', info=None):
        self.name = name
        self.pc = list(pc)
        self.clause = clause
        self.kind = kind
        self.info = info


class Result:
    __slots__ = ('name', 'status', 'backend', 'seconds', 'model', 'kind', 'size', 'reason')

    def __init__(self, name, status, backend, seconds, model=None, kind='post', size=0, reason=''):
        self.name, self.status, self.backend, self.seconds = name, status, backend, seconds
        self.model, self.kind, self.size, self.reason = model, kind, size, reason

    def as_dict(self):
        return dict(
            name=self.name,
            status=self.status,
            backend=self.backend,
            seconds=round(self.seconds, 4),
            kind=self.kind,
            size=self.size,
            model=self.model,
            reason=self.reason,
        )


# ------------------------------------------------------------------------------------------------ ring normal form
class _NotPoly(Exception):
    pass


def _padd(p, q, s=1):
    r = dict(p)
    for m, c in q.items():
        v = r.get(m, 0) + s * c
        if v == 0:
            r.pop(m, None)
        else:
            r[m] = v
    return r


def _pmul(p, q):
    r = {}
    for m1, c1 in p.items():
        for m2, c2 in q.items():
            d = dict(m1)
            for v, e in m2:
                d[v] = d.get(v, 0) + e
            m = tuple(sorted(d.items()))
            v = r.get(m, 0) + c1 * c2
            if v == 0:
                r.pop(m, None)
            else:
                r[m] = v
    if len(r) > 200000:
        raise _NotPoly('too large')
    return r


def poly(t, cache=None):
    """expand an arithmetic z3 term into {monomial: Fraction}; opaque sub-terms become indeterminates"""
    if cache is None:
        cache = {}
    key = t.get_id()
    if key in cache:
        return cache[key]
    k = t.decl().kind() if z3.is_app(t) else None
    if z3.is_int_value(t):
        r = {(): Fraction(t.as_long())} if t.as_long() != 0 else {}
    elif z3.is_rational_value(t):
        q = Fraction(t.numerator_as_long(), t.denominator_as_long())
        r = {(): q} if q != 0 else {}
    elif k == z3.Z3_OP_ADD:
        r = {}
        for c in t.children():
            r = _padd(r, poly(c, cache))
    elif k == z3.Z3_OP_SUB:
        ch = t.children()
        r = poly(ch[0], cache)
        for c in ch[1:]:
            r = _padd(r, poly(c, cache), -1)
    elif k == z3.Z3_OP_UMINUS:
        r = _padd({}, poly(t.children()[0], cache), -1)
    elif k == z3.Z3_OP_MUL:
        r = {(): Fraction(1)}
        for c in t.children():
            r = _pmul(r, poly(c, cache))
    elif k == z3.Z3_OP_TO_REAL:
        r = poly(t.children()[0], cache)
    elif k == z3.Z3_OP_DIV and (z3.is_rational_value(t.children()[1]) or z3.is_int_value(t.children()[1])):
        d = poly(t.children()[1], cache)[()]
        r = {m: c / d for m, c in poly(t.children()[0], cache).items()}
    else:
        # opaque indeterminate (uninterpreted constant, ite, div by symbol, function application ...)
        r = {((('#%d' % key, 1)),): Fraction(1)}
        r = {(('#%d' % key, 1),): Fraction(1)}
    cache[key] = r
    return r


def ring_true(clause):
    """True if clause is a conjunction of arithmetic equalities that are polynomial identities"""
    try:
        if z3.is_and(clause):
            return all(ring_true(c) for c in clause.children())
        if z3.is_eq(clause):
            a, b = clause.children()
            if z3.is_arith(a):
                cache = {}
                return _padd(poly(a, cache), poly(b, cache), -1) == {}
        return False
    except _NotPoly:
        return False


# ------------------------------------------------------------------------------------------------ models
def _model_dict(m):
    out = {}
    for d in m.decls():
        if d.arity() != 0:
            continue
        v = m[d]
        if z3.is_int_value(v):
            out[d.name()] = v.as_long()
        elif z3.is_rational_value(v):
            out[d.name()] = [v.numerator_as_long(), v.denominator_as_long()]
        elif z3.is_true(v):
            out[d.name()] = True
        elif z3.is_false(v):
            out[d.name()] = False
        elif z3.is_algebraic_value(v):
            a = v.approx(20)
            out[d.name()] = [a.numerator_as_long(), a.denominator_as_long()]
        else:
            out[d.name()] = str(v)
    return out


def _cvc5(smt2):
    with tempfile.NamedTemporaryFile('w', suffix='.smt2', delete=False, dir=os.environ.get('VERIF_SCRATCH', None)) as f:
        f.write('(set-logic ALL)\n' + smt2 + '\n')
        fn = f.name
    try:
        out = subprocess.run(
            ['/usr/bin/cvc5', f'--tlimit={CVC5_TIMEOUT_S * 1000}', '--nl-ext-tplanes', fn],
            capture_output=True,
            text=True,
            timeout=CVC5_TIMEOUT_S + 5,
        ).stdout.strip()
    except Exception as e:  # timeout etc.
        out = 'unknown'
    finally:
        os.unlink(fn)
    return out.split('\n')[0] if out else 'unknown'


def discharge(ob, want_model=True):
    t0 = time.time()
    size = 0
    try:
        c = z3.simplify(ob.clause)
    except Exception:
        c = ob.clause
    if z3.is_true(c):
        return Result(ob.name, 'proved', 'simplify', time.time() - t0, kind=ob.kind)
    if ring_true(c):
        return Result(ob.name, 'proved', 'ring', time.time() - t0, kind=ob.kind)
    s = z3.Solver()
    s.set('timeout', Z3_TIMEOUT_MS)
    for p in ob.pc:
        s.add(p)
    s.add(z3.Not(c))
    size = len(ob.pc) + 1  # number of asserted formulas (s-expression printing is exponential on shared DAGs)
    r = s.check()
    if r == z3.unsat:
        return Result(ob.name, 'proved', 'z3', time.time() - t0, kind=ob.kind, size=size)
    if r == z3.sat:
        return Result(ob.name, 'refuted', 'z3', time.time() - t0, model=_model_dict(s.model()), kind=ob.kind, size=size)
    reason = s.reason_unknown()
    r2 = _cvc5(s.to_smt2())
    if r2 == 'unsat':
        return Result(ob.name, 'proved', 'cvc5', time.time() - t0, kind=ob.kind, size=size)
    if r2 == 'sat':
        # cvc5 gives no model through this route; re-ask z3 with a longer budget for a model, else report without
        s.set('timeout', 4 * Z3_TIMEOUT_MS)
        if s.check() == z3.sat:
            return Result(ob.name, 'refuted', 'cvc5+z3', time.time() - t0, model=_model_dict(s.model()), kind=ob.kind, size=size)
        return Result(ob.name, 'refuted', 'cvc5', time.time() - t0, model=None, kind=ob.kind, size=size)
    return Result(ob.name, 'unknown', 'z3+cvc5', time.time() - t0, kind=ob.kind, size=size, reason=str(reason))
