r"""
C19 -- runs are reproducible, re-entrant and composable at step boundaries.

Deductive part (non-interference form): everything that survives a block / a run on the Step, Level and status objects is
POISONED with fresh symbols before the real restart_block / Level.reset_level / Hooks.reset_stats run; obligation: no
poison symbol is reachable from the block-entry state afterwards (the entry state is a function of (u0, time, immutable
configuration) only). This is C07's restart_block contract with every status field -- including the ones registered later
through add_attr -- poisoned, plus reset_level / reset_stats / reset_buffers contracts.

Bounded stand-in (native, labelled bounded): differential runs of the real controller on a grid of configurations --
fresh controller twice, same controller twice, two differently configured controllers interleaved in one process, a run
split at a block boundary -- compared BIT FOR BIT (solutions and statistics, timings excluded).
"""

import copy
import numpy as np
import z3

from vc import sym
from vc.vec import Vec
from vc.contract import Contract, State, veq, seq, snapshot
from contracts.C07_block import setup_block, CTRL
from contracts.common import cp


def _terms_of(x, out):
    if isinstance(x, (sym.SNum, sym.SBool)):
        out.append(x.t)
    elif isinstance(x, Vec):
        for a, c in x.c.items():
            out.append(a)
            if isinstance(c, sym.SNum):
                out.append(c.t)
    elif isinstance(x, (list, tuple)):
        for y in x:
            _terms_of(y, out)


def poison_free(snap, allowed=()):
    """no location of the snapshot mentions a poison symbol / poison atom"""
    bad = []
    for loc, rec in snap.items():
        if any(loc.startswith(a) for a in allowed):
            continue
        vals = []
        if rec[0] == 'val':
            _terms_of(rec[1], vals)
        elif rec[0] == 'vec':
            _terms_of(rec[2], vals)
        for t in vals:
            s = t if isinstance(t, str) else str(t)
            if 'poison' in s:
                bad.append(loc)
                break
    return bad


class RestartBlockPoison(Contract):
    prop = 'C19'
    name = 'controller_nonMPI.restart_block [non-interference]'
    target = (CTRL, 'controller_nonMPI.restart_block')
    label = 'instance-proved'
    native = False
    stubs = ('ConvergenceController.reset_status_variables [real BasicRestarting/… are exercised in the bounded runs; here: trace stub]',)

    def instances(self, tier):
        return [dict(n=n, d=0, nlevels=nl, active=a) for n in ((1, 2) if tier == 'quick' else (1, 2, 3)) for nl in (1, 2) for a in range(1, n + 1)]

    def build(self, inst, mk):
        st = setup_block(mk, inst, 'IT_UP', stub_comm=False)
        k = 0
        for S in st.MS:
            type(S.status).add_attr('extra_status_variable')  # what a convergence controller may register later
            for name in list(vars(S.status)) + ['extra_status_variable']:
                if name.startswith('_'):
                    continue
                k += 1
                setattr(S.status, name, mk.int(f'poison{k}') if name in ('iter', 'slot', 'time_size', 'pred_cnt') else (mk.bool(f'poison{k}') if name in ('done', 'prev_done', 'force_done', 'force_continue', 'first', 'last', 'restart') else mk.real(f'poison{k}')))
            S.status.stage = 'poison_stage'
            for l, L in enumerate(S.levels):
                type(L.status).add_attr('extra_level_variable')
                for name in list(vars(L.status)) + ['extra_level_variable']:
                    if name.startswith('_'):
                        continue
                    k += 1
                    setattr(L.status, name, mk.real(f'poison{k}'))
                L.tag = (l, mk.int(f'poison_tag{k}'), 7)
                L.uend = mk.vec(f'poison_uend{k}')
                for m in range(len(L.u)):
                    L.u[m] = mk.vec(f'poison_u{k}_{m}')
                    L.f[m] = mk.vec(f'poison_f{k}_{m}', 'f')
                    L.uold[m] = mk.vec(f'poison_uold{k}_{m}')
                    L.fold[m] = mk.vec(f'poison_fold{k}_{m}', 'f')
                for m in range(len(L.tau)):
                    L.tau[m] = mk.vec(f'poison_tau{k}_{m}')
        st.time = [mk.real(f'time{p}') for p in range(inst['n'])]
        st.u0 = mk.vec('u0')
        st.active = list(range(inst['active']))
        st.call = lambda: st.c.restart_block(st.active, st.time, st.u0)
        return st

    def post(self, st, old, result, exc):
        yield 'returns_normally', exc is None
        if exc is not None:
            return
        for p in st.active:
            S = st.MS[p]
            snap = snapshot({'S': S})
            # restarts_in_a_row / restart are owned by BasicRestarting (reset_status_variables, contract under C09): stubbed here
            # not part of the obligation (the property is about observable results, not about every field):
            #   diff_old_loc, diff_first_loc, pred_cnt  are never read by the serial controller or its convergence controllers
            #   force_continue  is False after every it_check (C03.check_iteration_status.force_continue_consumed), so it cannot carry
            #                   information across a block boundary
            #   restart / restarts_in_a_row  are owned by BasicRestarting (contracts under C09), stubbed here
            bad = poison_free(snap, allowed=('S.status.restarts_in_a_row', 'S.status.restart', 'S.status.extra_status_variable', 'S.params',
                                             'S.status.diff_old_loc', 'S.status.diff_first_loc', 'S.status.pred_cnt', 'S.status.force_continue'))
            bad = [b for b in bad if '.params.' not in b and '.sweep.' not in b and '.prob' not in b]
            yield f'nothing_from_the_previous_block_survives[{p}]', not bad
            if bad:
                yield f'survivors[{p}]:' + ','.join(sorted(bad))[:200], False
            yield f'extra_level_status_variables_are_reset_too[{p}]', all(L.status.get('extra_level_variable') is None for L in S.levels)

    def canary(self, st, old, result, exc):
        S = st.MS[st.inst['n'] - 1]
        if st.inst['active'] < st.inst['n']:
            yield 'canary:inactive_steps_are_reset_too', not poison_free(snapshot({'S': S}), allowed=('S.params',))
        else:
            yield 'canary:extra_step_status_variable_is_reset', S.status.get('extra_status_variable') is None


class ResetStats(Contract):
    prop = 'C19'
    name = 'Hooks.reset_stats / Level.reset_level'
    target = ('pySDC/core/hooks.py', 'Hooks.reset_stats')
    label = 'proved'
    native = False

    def build(self, inst, mk):
        from pySDC.core.hooks import Hooks
        from contracts.common import make_step

        h = Hooks()
        h.add_to_stats(value=mk.real('poison_value'), process=0, type='x')
        S = make_step(mk, M=2, symbolic_level=False)
        L = S.levels[0]
        for m in range(3):
            L.u[m] = mk.vec(f'poison_u{m}')
            L.f[m] = mk.vec(f'poison_f{m}', 'f')
        L.uend = mk.vec('poison_uend')
        L.status.residual = mk.real('poison_res')
        L.status.unlocked = True
        st = State(h=h, L=L)

        def call():
            h.reset_stats()
            L.reset_level()

        st.call = call
        return st

    def post(self, st, old, result, exc):
        yield 'returns_normally', exc is None
        yield 'stats_empty', st.h.return_stats() == {}
        bad = [b for b in poison_free(snapshot({'L': st.L})) if '.params.' not in b and '.sweep.' not in b and '.prob' not in b]
        yield 'level_data_and_status_reset', not bad and st.L.status.unlocked is False and st.L.status.residual is None

    def canary(self, st, old, result, exc):
        yield 'canary:stats_kept', len(st.h.return_stats()) == 1


class ReturnStats(Contract):
    """results handed to the user are the user's: a later reset / run on the same controller neither changes them nor is changed through them"""

    prop = 'C19'
    name = 'Controller.return_stats [returned results are not aliased with controller state]'
    target = ('pySDC/core/controller.py', 'Controller.return_stats')
    label = 'instance-proved'
    native = False

    def instances(self, tier):
        return [dict(n=1, d=0, nlevels=1, active=1, nhooks=k) for k in (1, 2)]

    def build(self, inst, mk):
        from pySDC.core.hooks import Hooks

        st = setup_block(mk, inst, 'IT_UP', stub_comm=False)
        c = st.c
        while len(c.hooks) < inst['nhooks']:
            c.hooks.append(Hooks())
        st.vals = {}
        for i, h in enumerate(c.hooks):
            h.reset_stats()
            for j in range(2):
                v = mk.real(f'v{i}_{j}')
                h.add_to_stats(value=v, process=i, time=j, type=f'x{i}')
                st.vals[(i, j)] = v
        st.owned = lambda: {id(o) for o in _reachable(c)}
        st.owned_before = st.owned()

        def call():
            r1 = c.return_stats()
            st.r1_items = list(r1.items())
            st.r1 = r1
            # what the next run() does first: reset the statistics, then log again
            for i, h in enumerate(c.hooks):
                h.reset_stats()
                h.add_to_stats(value=mk.real(f'w{i}'), process=i, time=9, type=f'y{i}')
            st.r2 = c.return_stats()
            return r1

        st.call = call
        return st

    def post(self, st, old, result, exc):
        yield 'returns_normally', exc is None
        if exc is not None:
            return
        yield 'merged_content', len(st.r1_items) == 2 * st.inst['nhooks'] and all(any(k.process == i and k.time == j and v is st.vals[(i, j)] for k, v in st.r1_items) for (i, j) in st.vals)
        yield 'earlier_result_unchanged_by_reset_and_later_return', list(st.r1.items()) == st.r1_items
        yield 'results_of_two_calls_are_distinct_objects', st.r1 is not st.r2
        yield 'later_result_holds_only_the_later_statistics', len(st.r2) == st.inst['nhooks'] and all(k.time == 9 for k in st.r2)
        yield 'returned_dict_is_not_controller_state', id(st.r1) not in st.owned() and id(st.r2) not in st.owned()

    def canary(self, st, old, result, exc):
        yield 'canary:second_result_equals_first', list(st.r2.items()) == st.r1_items


def _reachable(root, depth=6):
    """objects reachable from the controller through attributes / containers (identity walk)"""
    seen, out, todo = set(), [], [(root, 0)]
    while todo:
        o, d = todo.pop()
        if id(o) in seen or d > depth or isinstance(o, (type, str, int, float, complex, bool, type(None))):
            continue
        seen.add(id(o))
        out.append(o)
        if isinstance(o, dict):
            todo.extend((v, d + 1) for v in o.values())
        elif isinstance(o, (list, tuple, set)):
            todo.extend((v, d + 1) for v in o)
        elif hasattr(o, '__dict__') and not callable(o):
            todo.extend((v, d + 1) for v in vars(o).values())
    return out


# ------------------------------------------------------------------------------------------------ bounded differential runs
def _configs(tier):
    from pySDC.implementations.sweeper_classes.generic_implicit import generic_implicit
    from pySDC.implementations.sweeper_classes.imex_1st_order import imex_1st_order

    out = []
    for nprocs in (1, 2, 3):
        for nlev in (1, 2):
            for qi in ('IE', 'LU', 'MIN-SR-FLEX'):
                for guess in ('spread', 'zero', 'random'):
                    if tier == 'quick' and (nprocs, nlev) not in ((1, 1), (2, 2), (3, 1)):
                        continue
                    out.append(dict(nprocs=nprocs, nlev=nlev, QI=qi, guess=guess, sweeper='implicit'))
    out.append(dict(nprocs=2, nlev=1, QI='IE', guess='spread', sweeper='imex'))
    # sweep-dependent preconditioner with several sweeps per iteration on several steps: every clone has to follow the sweep index
    out.append(dict(nprocs=2, nlev=1, QI='MIN-SR-FLEX', guess='spread', sweeper='implicit', nsweeps=2))
    out.append(dict(nprocs=3, nlev=1, QI='MIN-SR-FLEX', guess='zero', sweeper='implicit', nsweeps=3))
    # level parameters the user may pass although the library derives them (dt_initial is always the configured dt): a fixed-step run stays fixed-step,
    # so nothing about the step size survives a run
    out.append(dict(nprocs=1, nlev=1, QI='IE', guess='spread', sweeper='implicit', dt_initial=0.0625))
    out.append(dict(nprocs=2, nlev=2, QI='LU', guess='spread', sweeper='implicit', dt_initial=0.03125))
    return out


def _make(cf, extra_hooks=(), shared=None, adaptive=False):
    from pySDC.implementations.controller_classes.controller_nonMPI import controller_nonMPI
    from pySDC.implementations.problem_classes.TestEquation_0D import testequation0d, test_equation_IMEX
    from pySDC.implementations.sweeper_classes.generic_implicit import generic_implicit
    from pySDC.implementations.sweeper_classes.imex_1st_order import imex_1st_order
    from pySDC.implementations.transfer_classes.TransferMesh import mesh_to_mesh
    from pySDC.implementations.hooks.log_solution import LogSolution

    lam = np.array([-1.0 + 0.5j, -0.2 - 2.0j, -5.0 + 0j])
    sp = dict(num_nodes=[3, 2] if cf['nlev'] == 2 else 3, quad_type='RADAU-RIGHT', QI=cf['QI'], initial_guess=cf['guess'])
    if cf['sweeper'] == 'imex':
        d = dict(problem_class=test_equation_IMEX, problem_params=dict(lambdas_implicit=lam * 0.6, lambdas_explicit=lam * 0.4, u0=1.0), sweeper_class=imex_1st_order)
    else:
        d = dict(problem_class=testequation0d, problem_params=dict(lambdas=lam, u0=1.0), sweeper_class=generic_implicit)
    d.update(sweeper_params=sp, level_params=dict(dt=0.125, restol=1e-9, **({'nsweeps': cf['nsweeps']} if cf.get('nsweeps') else {}), **({'dt_initial': cf['dt_initial']} if cf.get('dt_initial') else {})), step_params=dict(maxiter=25 if cf.get('nsweeps') else 6))
    if cf['nlev'] == 2:
        d['space_transfer_class'] = mesh_to_mesh
    cp = dict(logger_level=40, hook_class=[LogSolution] + list(extra_hooks), dump_setup=False, mssdc_jac=False)
    if shared is not None:
        # the user keeps ONE controller-parameter dictionary and one set of parameter dictionaries for several controllers
        cp = shared.setdefault('controller_params', cp)
        for k in ('problem_params', 'sweeper_params', 'level_params', 'step_params'):
            d[k] = shared.setdefault(k, d[k])
    if adaptive:
        from pySDC.implementations.convergence_controller_classes.adaptivity import Adaptivity

        d['convergence_controllers'] = {Adaptivity: dict(e_tol=1e-6)}
        d['level_params'] = dict(d['level_params'], restol=-1.0)  # Adaptivity insists on a fixed number of sweeps (own copy: the shared one keeps its tolerance)
    return controller_nonMPI(num_procs=cf['nprocs'], controller_params=cp, description=d)


def _observe(res):
    uend, stats = res
    out = [('uend', np.asarray(uend).tobytes())]
    for k, v in sorted(stats.items(), key=lambda kv: tuple(str(x) for x in kv[0])):
        if 'timing' in str(k.type):
            continue
        out.append((tuple(k), np.asarray(v).tobytes() if isinstance(v, np.ndarray) else repr(v)))
    return out


def bounded_runs(tier, seed):
    obs = []
    cases = 0
    groups = {}

    def rec(scenario, cf, ok, detail=None):
        nonlocal cases
        cases += 1
        key = f'{scenario}[initial_guess={cf["guess"]},QI={cf["QI"]}]'
        g = groups.setdefault(key, [])
        if not ok:
            g.append(dict(config=str(cf), detail=detail))

    for cf in _configs(tier):
        nblocks = 3
        dt, n = 0.125, cf['nprocs']
        Tend = dt * n * nblocks
        c1 = _make(cf)
        u0 = c1.MS[0].levels[0].prob.u_exact(0.0)
        r1 = _observe(c1.run(u0=u0, t0=0.0, Tend=Tend))
        # (a) fresh controller, same description
        r2 = _observe(_make(cf).run(u0=u0, t0=0.0, Tend=Tend))
        rec('fresh_controller_repeats_bit_identically', cf, r1 == r2)
        # (b) the same controller again
        r3 = _observe(c1.run(u0=u0, t0=0.0, Tend=Tend))
        rec('same_controller_repeats_bit_identically', cf, r1 == r3, 'second run on the same controller differs')
        rec('fixed_step_run_leaves_the_configured_step_size', cf, all(L.params.dt == dt for S in c1.MS for L in S.levels), 'level step sizes after the run: ' + str(sorted({L.params.dt for S in c1.MS for L in S.levels})))
        # (b') the same controller after a DIFFERENT (longer) run: nothing of the earlier run may show up
        c4 = _make(cf)
        c4.run(u0=u0 * 0.5, t0=0.25, Tend=0.25 + Tend + dt * n)
        r4 = _observe(c4.run(u0=u0, t0=0.0, Tend=Tend))
        rec('same_controller_after_a_different_run_is_bit_identical_to_a_fresh_one', cf, r1 == r4, 'a run after a different run on the same controller differs from a fresh run')
        # (b'') results handed out earlier stay what they were when later runs happen on the same controller
        c5 = _make(cf)
        raw = c5.run(u0=u0, t0=0.0, Tend=Tend)
        c5.run(u0=u0 * 0.5, t0=0.25, Tend=0.25 + dt * n)
        rec('results_of_an_earlier_run_are_not_altered_by_a_later_run_on_the_same_controller', cf, _observe(raw) == r1, 'uend / stats returned by the first run changed during the second run')
        # (c) another, differently configured controller lives and runs in between
        other = dict(cf, QI='LU' if cf['QI'] != 'LU' else 'IE', nprocs=1 if cf['nprocs'] > 1 else 2, guess='zero')
        ca, cb = _make(cf), _make(other)
        cb.run(u0=u0, t0=0.0, Tend=dt * 2)
        ra = _observe(ca.run(u0=u0, t0=0.0, Tend=Tend))
        rec('other_controller_in_the_process_has_no_influence', cf, ra == r1)
        # (c') ... also one with the SAME kind of initial guess (random guesses: every sweeper owns its generator), constructed and run between
        #      construction and run of the observed controller
        ca = _make(cf)
        cb = _make(dict(other, guess=cf['guess']))
        cb.run(u0=u0, t0=0.0, Tend=dt * 2)
        ra = _observe(ca.run(u0=u0, t0=0.0, Tend=Tend))
        rec('other_controller_with_the_same_kind_of_initial_guess_has_no_influence', cf, ra == r1)
        # (c'') the user's dictionaries are shared: an ADAPTIVE controller (registers hooks and status variables) is built and run from them first,
        #       then the observed controller is built from the very same dictionaries
        shared = {}
        cadapt = _make(dict(cf, nprocs=1, nlev=1), shared=shared, adaptive=True)
        cadapt.run(u0=u0, t0=0.0, Tend=dt * 2)
        if cf['nlev'] == 1:
            ra = _observe(_make(cf, shared=shared).run(u0=u0, t0=0.0, Tend=Tend))
            rec('controller_built_from_dictionaries_an_adaptive_controller_used_before_is_unaffected', cf, ra == r1,
                'statistics keys only here: ' + str(sorted({k[0][5] if isinstance(k[0], tuple) and len(k[0]) > 5 else k[0] for k in set(ra) ^ set(r1)})[:200]))
        # (c''') the user's parameter dictionaries are shared with a controller whose sweeper REWRITES its parameters at construction (Runge-Kutta
        #        sweepers set collocation class, node count, initial guess ...): the dictionaries stay what the user wrote, the observed controller is unaffected
        if cf['nlev'] == 1 and cf['sweeper'] == 'implicit' and not cf.get('nsweeps') and not cf.get('dt_initial'):
            import copy
            from pySDC.implementations.controller_classes.controller_nonMPI import controller_nonMPI as _C
            from pySDC.implementations.problem_classes.TestEquation_0D import testequation0d as _T
            from pySDC.implementations.sweeper_classes.Runge_Kutta import BackwardEuler
            from pySDC.implementations.sweeper_classes.generic_implicit import generic_implicit as _GI
            from pySDC.implementations.hooks.log_solution import LogSolution as _LS

            lam_ = np.array([-1.0 + 0.5j, -0.2 - 2.0j, -5.0 + 0j])
            user = dict(problem_params=dict(lambdas=lam_, u0=1.0), sweeper_params=dict(num_nodes=3, quad_type='RADAU-RIGHT', QI=cf['QI'], initial_guess=cf['guess']),
                        level_params=dict(dt=0.125, restol=1e-9), step_params=dict(maxiter=6))
            before = copy.deepcopy({k: v for k, v in user.items() if k != 'problem_params'})
            try:
                _C(num_procs=1, controller_params=dict(logger_level=40, dump_setup=False), description=dict(problem_class=_T, sweeper_class=BackwardEuler, **user))
                cu = _C(num_procs=cf['nprocs'], controller_params=dict(logger_level=40, hook_class=[_LS], dump_setup=False, mssdc_jac=False), description=dict(problem_class=_T, sweeper_class=_GI, **user))
                ru = _observe(cu.run(u0=u0, t0=0.0, Tend=Tend))
                ok_u, det = ru == r1, 'results differ'
            except Exception as e:
                ok_u, det = False, 'construction from the shared dictionaries failed: ' + repr(e)[:120]
            same_dicts = all(user[k] == before[k] for k in before)
            rec('controller_built_from_dictionaries_a_Runge_Kutta_controller_used_before_is_unaffected', cf, ok_u and same_dicts, det if not ok_u else 'the user dictionaries were rewritten: ' + str({k: user[k] for k in before if user[k] != before[k]})[:200])
        # (f) a run that ends in an exception half way (a hook raises after two steps) leaves nothing behind: the next run on the same controller
        #     is bit-identical to a fresh one (statistics included)
        from pySDC.core.hooks import Hooks as _H

        class Bomb(_H):
            armed = [False]
            seen = [0]

            def post_step(self, step, level_number):
                super().post_step(step, level_number)
                Bomb.seen[0] += 1
                if Bomb.armed[0] and Bomb.seen[0] >= 2:
                    raise RuntimeError('stop here')

        if cf['guess'] != 'random':  # the random initial guess keeps its generator state across runs anyway (recorded finding of scenarios (b), (b'), (d))
            cb_ = _make(cf, extra_hooks=[Bomb])
            Bomb.armed[0], Bomb.seen[0] = True, 0
            try:
                cb_.run(u0=u0 * 0.5, t0=0.25, Tend=0.25 + Tend + dt * n)
                raised = False
            except RuntimeError:
                raised = True
            Bomb.armed[0] = False
            rb = _observe(cb_.run(u0=u0, t0=0.0, Tend=Tend))
            rec('run_after_an_aborted_run_on_the_same_controller_is_bit_identical_to_a_fresh_one', cf, raised and rb == r1, f'aborted={raised}; entries {len(rb)} vs {len(r1)}')
        # (d) split at a block boundary
        cs = _make(cf)
        Tmid = dt * n
        um, s1 = cs.run(u0=u0, t0=0.0, Tend=Tmid)
        cs2 = _make(cf)
        ue, s2 = cs2.run(u0=um, t0=Tmid, Tend=Tend)
        full_u = {k.time: np.asarray(v).tobytes() for k, v in c1.return_stats().items() if k.type == 'u'} if False else None
        ref = _make(cf)
        uref, sref = ref.run(u0=u0, t0=0.0, Tend=Tend)
        us_ref = sorted(((k.time, np.asarray(v).tobytes()) for k, v in sref.items() if k.type == 'u'))
        us_split = sorted(((k.time, np.asarray(v).tobytes()) for k, v in {**s1, **s2}.items() if k.type == 'u'))
        same_times = [abs(a[0] - b[0]) < 1e-12 for a, b in zip(us_ref, us_split)]
        ok = len(us_ref) == len(us_split) and all(same_times) and all(a[1] == b[1] for a, b in zip(us_ref, us_split)) and np.asarray(ue).tobytes() == np.asarray(uref).tobytes()
        rec('split_at_block_boundary_is_bit_identical', cf, ok)
        # (d') the same, continuing on the SAME controller; both parts inspected after the second part ran
        cc = _make(cf)
        um, s1 = cc.run(u0=u0, t0=0.0, Tend=Tmid)
        ue, s2 = cc.run(u0=um, t0=Tmid, Tend=Tend)
        us_split = sorted(((k.time, np.asarray(v).tobytes()) for k, v in {**s1, **s2}.items() if k.type == 'u'))
        ok = len(us_ref) == len(us_split) and all(abs(a[0] - b[0]) < 1e-12 and a[1] == b[1] for a, b in zip(us_ref, us_split)) and np.asarray(ue).tobytes() == np.asarray(uref).tobytes()
        rec('split_at_block_boundary_continued_on_the_same_controller_is_bit_identical', cf, ok)
    for key, bad in sorted(groups.items()):
        obs.append(dict(name=f'bounded:{key}', status='proved' if not bad else 'refuted', backend='native-run', seconds=0.0, kind='bounded', size=0,
                        model=dict(first=bad[:3]) if bad else None, reason='', path=0, counted=False))
    return dict(contract='bounded:differential_runs', prop='C19', inst={}, label='bounded', kind='bounded', obligations=obs, canaries=[], paths=1, status='ok',
                bounded=dict(what='bit-for-bit comparison of solutions and statistics (timings excluded): fresh controller twice, same controller twice, interleaved controllers, split at a block boundary',
                             bound=f'{len(_configs(tier))} configurations (1-3 steps per block, 1-2 levels, IE/LU/MIN-SR-FLEX, spread/zero/random initial guess, implicit and IMEX)', cases=cases,
                             failures=sum(1 for o in obs if o['status'] != 'proved')))


def check_random_generator_ownership(tier, seed):
    """frame clause on the process-global random stream: constructing sweepers with initial_guess='random', cloning their steps and predicting leaves
    numpy's global generator state untouched, and every sweeper (every clone) draws from a generator object of its own"""
    import copy
    from pySDC.core.level import Level
    from pySDC.implementations.problem_classes.TestEquation_0D import testequation0d
    from pySDC.implementations.sweeper_classes.generic_implicit import generic_implicit
    from pySDC.implementations.sweeper_classes.imex_1st_order import imex_1st_order
    from pySDC.implementations.problem_classes.TestEquation_0D import test_equation_IMEX

    np.random.seed(seed + 12345)
    fails = dict(global_random_state_untouched=[], each_sweeper_owns_its_generator=[], same_seed_same_guess=[])
    cases = 0
    for sw, pc, pp in ((generic_implicit, testequation0d, dict(lambdas=np.array([-1.0, -2.0]), u0=1.0)),
                       (imex_1st_order, test_equation_IMEX, dict(lambdas_implicit=np.array([-1.0, -2.0]), lambdas_explicit=np.array([0.1, 0.2]), u0=1.0))):
        for rs in (None, 7):
            cases += 1
            before = np.random.get_state()
            sp = dict(num_nodes=3, quad_type='RADAU-RIGHT', initial_guess='random')
            if rs is not None:
                sp['random_seed'] = rs
            Ls = [Level(problem_class=pc, problem_params=dict(pp), sweeper_class=sw, sweeper_params=dict(sp), level_params=dict(dt=0.1), level_index=0) for _ in range(2)]
            guesses = []
            for L in Ls:
                L.status.time = 0.0
                L.u[0] = L.prob.u_exact(0.0)
                L.status.unlocked = True
                L.sweep.predict()
                guesses.append(np.array([np.asarray(u) for u in L.u[1:]]))
            after = np.random.get_state()
            same_state = before[0] == after[0] and np.array_equal(before[1], after[1]) and before[2:] == after[2:]
            if not same_state:
                fails['global_random_state_untouched'].append(dict(sweeper=sw.__name__, random_seed=rs))
            rngs = [L.sweep.rng for L in Ls]
            if rngs[0] is rngs[1] or any(r is np.random or r is getattr(np.random.mtrand, '_rand', None) for r in rngs):
                fails['each_sweeper_owns_its_generator'].append(dict(sweeper=sw.__name__, random_seed=rs))
            if not np.array_equal(guesses[0], guesses[1]):
                fails['same_seed_same_guess'].append(dict(sweeper=sw.__name__, random_seed=rs))
    obs = [dict(name=f'frame:{k}', status='proved' if not bad else 'refuted', backend='native-run', seconds=0.0, kind='bounded', size=0, model=dict(first=bad[:4]) if bad else None,
                reason='', path=0, counted=False) for k, bad in fails.items()]
    return dict(contract='Sweeper.__init__/predict [random initial guess: generator ownership]', prop='C19', inst={}, label='bounded', kind='bounded', obligations=obs, canaries=[], paths=1, status='ok',
                bounded=dict(what='numpy global generator state before/after construction and predict of two sweepers; generator objects compared', bound='generic_implicit and imex_1st_order, default and explicit random_seed', cases=cases,
                             failures=sum(1 for o in obs if o['status'] != 'proved')))


def check_sweep_dependent_coefficients_of_two_sweepers(tier, seed):
    """two sweepers in one process (two controllers, or two levels) with sweep-dependent preconditioners: what one of them asked for must not decide what
    the other one gets.  Sweepers with EQUAL node counts but other node sets / other preconditioners refresh their coefficients alternately; each result
    must be bit-identical to what the same sweeper computes when it is the only one in a fresh interpreter state of these tables (its own generator)."""
    import numpy as np
    from pySDC.implementations.sweeper_classes.generic_implicit import generic_implicit
    from pySDC.implementations.sweeper_classes.imex_1st_order import imex_1st_order

    cfgs = [dict(quad_type='LOBATTO', node_type='LEGENDRE'), dict(quad_type='RADAU-RIGHT', node_type='LEGENDRE'), dict(quad_type='RADAU-RIGHT', node_type='EQUID'), dict(quad_type='GAUSS', node_type='CHEBY-1')]
    fails, cases = {}, 0
    for cls in (generic_implicit, imex_1st_order):
        for M in (2, 3):
            sws = [cls(dict(num_nodes=M, QI='MIN-SR-FLEX', **c), None) for c in cfgs]
            for k in (1, 2, 3, 1):
                for sw, c in zip(sws, cfgs):
                    cases += 1
                    sw.updateVariableCoeffs(k)
                    want = sw.get_Qdelta_implicit('MIN-SR-FLEX', k=k)  # the sweeper's own generator, asked directly
                    own = np.zeros((M + 1, M + 1))
                    own[1:, 1:] = np.diag(np.asarray(sw.coll.nodes) / k)  # MIN-SR-FLEX: diag(tau) / k on the sweeper's OWN nodes
                    if not (np.array_equal(sw.QI, want) and (k > M or np.allclose(sw.QI, own, rtol=1e-13, atol=0))):  # closed form known for k <= M only
                        fails.setdefault(f'{cls.__name__}:QI_of_sweep_k_belongs_to_the_sweepers_own_nodes_whatever_other_sweepers_asked_before', []).append(dict(M=M, k=k, **c))
    names = list(fails) or ['generic_implicit:QI_of_sweep_k_belongs_to_the_sweepers_own_nodes_whatever_other_sweepers_asked_before']
    obs = [dict(name=f'bounded:{n}', status='refuted' if fails.get(n) else 'proved', backend='native-run', seconds=0.0, kind='bounded', size=0, model=dict(first=fails[n][:4]) if fails.get(n) else None,
                reason='', path=0, counted=False) for n in names]
    return dict(contract='Sweeper.updateVariableCoeffs [two sweepers in one process]', prop='C19', inst={}, label='bounded', kind='bounded', obligations=obs, canaries=[], paths=1, status='ok',
                bounded=dict(what='alternating updateVariableCoeffs(k) of sweepers with equal node counts and different node sets', bound='generic_implicit / imex_1st_order, M=2,3, four node sets, k=1,2,3,1', cases=cases,
                             failures=sum(1 for o in obs if o['status'] != 'proved')))


def _history_free_callees():
    # two mechanisms whose failure shows only in SEQUENCES of runs / records and that are under contract elsewhere:
    #   Hooks.add_to_stats builds every key from its own arguments (C14: a field the caller omits is None, whatever was recorded before)
    #   it_fine refreshes the sweep-dependent preconditioner of EVERY running step (C07: the steps are separate clones; a step whose
    #   coefficients were left at another sweep's values would carry them into the next block or run)
    #   Controller.add_hook leaves the parameter object alone (C14: it holds the user's own hook list, which later controllers are built from)
    from contracts.C14_stats import HooksBase, AddHook
    from contracts.C07_block import ItFine

    return [type(b.__name__ + '_C19', (b,), dict(prop='C19')) for b in (HooksBase, ItFine, AddHook)]


CONTRACTS = [RestartBlockPoison, ResetStats, ReturnStats] + _history_free_callees()
EXTRAS = [bounded_runs, check_random_generator_ownership, check_sweep_dependent_coefficients_of_two_sweepers]
ASSUMPTIONS = ['determinism of numpy / float operations for identical inputs', 'bit identity is decided only by the bounded differential runs']
UNDECIDED = ['class-level state of FrozenClass.attrs (status variable names registered by one controller are accepted by all): reported, not an obligation',
             'timing hooks, logging handlers, external library caches']
