r"""
C18 -- finite-difference stencils and matrices are exact to their stated order.

The real helpers call numpy.linalg.solve and scipy.sparse; their outputs are floats. Each obligation here is a
contract clause on the REAL function for one configuration, decided by exact rational arithmetic on the returned floats
(Fraction(float) is exact) with a stated rounding allowance -- "proof by exact evaluation per configuration":

  get_steps                         n and the offset set for every (derivative 1..4, order 1..8, type)        [exhaustive over the stated grid]
  get_finite_difference_stencil     moment conditions sum_j c_j s_j^k = k! [k = d] for all k < n (=> exact on every
                                    polynomial of degree < n by linearity), offsets returned sorted with weights permuted
                                    consistently; standard layouts AND every integer offset subset of [-3..3]
  get_finite_difference_matrix      periodic: row i carries weight c_j at column (i + s_j) mod size for EVERY offset set;
                                    Dirichlet / Neumann: A p + b = p^(d) at every grid point for all monomials within the
                                    closure degree, arbitrary boundary values; 2-D / 3-D = Kronecker sums
  get_1d_grid                       dx and nodes for the three boundary families (symbolic interval, proved)
Grid sizes are enumerated from the stencil width upwards (bounded in the size: quick +3, thorough +8).
"""

import itertools
from fractions import Fraction as Fr
from math import factorial
import numpy as np

from vc import sym
from vc.contract import Contract, State, seq

PH = 'pySDC/helpers/problem_helper.py'
TOL = Fr(1, 10**8)


def _ob(name, ok, info=None, backend='exact-rational'):
    return dict(name=name, status='proved' if ok else 'refuted', backend=backend, seconds=0.0, kind='bounded', size=0,
                model=info if not ok else None, reason='', path=0)


def _pack(name, obs, what, bound):
    fails = [o for o in obs if o['status'] != 'proved']
    return dict(contract=name, prop='C18', inst={}, label='exhaustive over the stated grid', kind='exact', obligations=obs, canaries=[], paths=1, status='ok',
                bounded=dict(what=what, bound=bound, cases=len(obs), failures=len(fails)))


def std_configs(tier):
    out = []
    for d in (1, 2, 3, 4):
        for o in range(1, 9):
            for t in ('center', 'forward', 'backward', 'upwind'):
                if t == 'center' and not (o % 2 == 0 or d % 2 == 1):
                    continue  # centred layout: even orders, and odd orders for odd derivatives
                out.append((d, o, t))
    return out


def moments_ok(coeff, steps, d):
    """sum_j c_j s_j^k == k! [k == d] for k < n, exactly in rationals with a relative rounding allowance"""
    n = len(steps)
    c = [Fr(float(x)) for x in coeff]
    s = [Fr(int(x)) for x in steps]
    for k in range(n):
        lhs = sum(cj * sj**k for cj, sj in zip(c, s))
        scale = sum(abs(cj) * abs(sj) ** k for cj, sj in zip(c, s)) + 1
        want = Fr(factorial(k)) if k == d else Fr(0)
        if abs(lhs - want) > TOL * scale:
            return False, dict(k=k, lhs=float(lhs), want=float(want))
    return True, None


def check_get_steps(tier, seed):
    from pySDC.helpers.problem_helper import get_steps

    obs = []
    for d, o, t in std_configs(tier):
        n, steps = get_steps(d, o, t)
        steps = [int(x) for x in steps]
        if t == 'center':
            want_n = o + d - (d + 1) % 2
            want = list(range(-(want_n // 2), want_n - want_n // 2))
        elif t == 'forward':
            want_n, want = o + d, list(range(o + d))
        elif t == 'backward':
            want_n, want = o + d, [-k for k in range(o + d)]
        else:
            want_n = o + d
            want = [-k for k in range(want_n)] if want_n <= 3 else sorted([-k for k in range(want_n - 1)] + [1])
        obs.append(_ob(f'get_steps[{d},{o},{t}]:count_and_offsets', n == want_n and sorted(steps) == sorted(want) and len(set(steps)) == n,
                       dict(n=n, steps=steps)))
    try:
        get_steps(1, 2, 'diagonal')
        obs.append(_ob('get_steps:unknown_layout_rejected', False))
    except ValueError:
        obs.append(_ob('get_steps:unknown_layout_rejected', True))
    return _pack('problem_helper.get_steps', obs, 'offset sets', 'derivative 1..4 x order 1..8 x 4 layouts (the stated grid)')


def custom_sets(tier):
    rng = range(-3, 4)
    out = []
    for n in (2, 3, 4, 5):
        out += [list(c) for c in itertools.combinations(rng, n)]
    if tier != 'quick':
        out += [list(c) for c in itertools.combinations(range(-5, 6), 6)][::7]
    return out


def check_stencil(tier, seed):
    from pySDC.helpers.problem_helper import get_finite_difference_stencil

    obs = []
    for d, o, t in std_configs(tier):
        c, s = get_finite_difference_stencil(derivative=d, order=o, stencil_type=t)
        ok, info = moments_ok(c, s, d)
        obs.append(_ob(f'stencil[{d},{o},{t}]:moments', ok and len(c) == len(s) and list(s) == sorted(s), info))
    rng = np.random.RandomState(seed)
    for st in custom_sets(tier):
        for d in range(1, min(4, len(st) - 1) + 1):
            perm = list(rng.permutation(st))  # user-supplied offsets come in any order
            c, s = get_finite_difference_stencil(derivative=d, steps=np.array(perm))
            ok, info = moments_ok(c, s, d)
            obs.append(_ob(f'stencil[d={d},steps={perm}]:moments_and_sorted', ok and [int(x) for x in s] == sorted(st), info))
    # the container / integer width the user's offsets arrive in must not matter (powers of offsets overflow narrow integer types)
    wide = [[-2, -1, 0, 1, 2, 3], [0, 1, 2, 3, 4, 5, 6, 7, 8], [-8, -3, -1, 0, 2, 5], list(range(0, 12)), [-6, -5, -3, -1, 0, 1, 2, 4, 7]]
    for st in wide:
        for d in (1, 2):
            ref_c, ref_s = get_finite_difference_stencil(derivative=d, steps=np.array(st, dtype=np.int64))
            ok_ref, info = moments_ok(ref_c, ref_s, d)
            obs.append(_ob(f'stencil[d={d},steps={st},int64]:moments', ok_ref, info))
            for form, val in (('list', list(st)), ('tuple', tuple(st)), ('int8', np.array(st, dtype=np.int8)), ('int16', np.array(st, dtype=np.int16)), ('int32', np.array(st, dtype=np.int32)),
                              ('uint8', np.array(st, dtype=np.uint8) if min(st) >= 0 else None), ('float64', np.array(st, dtype=float))):
                if val is None:
                    continue
                try:
                    c, s = get_finite_difference_stencil(derivative=d, steps=val)
                    ok, info = moments_ok(c, s, d)
                except Exception as e:
                    ok, info = False, dict(error=repr(e)[:120])
                obs.append(_ob(f'stencil[d={d},steps={st},{form}]:moments_whatever_the_container_or_integer_width', ok, info))
    # canary: a deliberately wrong claim must be refuted by the same oracle
    c, s = get_finite_difference_stencil(derivative=1, order=2, stencil_type='center')
    ok, _ = moments_ok(c, s, 2)
    obs.append(_ob('canary:first_derivative_stencil_is_not_a_second_derivative', not ok))
    return _pack('problem_helper.get_finite_difference_stencil', obs, 'moment conditions (exactness on all polynomials below degree n)',
                 'stated grid + every integer offset subset of [-3..3] with 2..5 points, all admissible derivatives, shuffled order')


def dense(A):
    return np.asarray(A.todense()) if hasattr(A, 'todense') else np.asarray(A)


def check_periodic_matrix(tier, seed):
    from pySDC.helpers.problem_helper import get_finite_difference_matrix, get_finite_difference_stencil

    obs = []
    extra = 3 if tier == 'quick' else 8
    cfgs = [dict(derivative=d, order=o, stencil_type=t) for d, o, t in std_configs(tier) if o <= (4 if tier == 'quick' else 8)]
    cfgs += [dict(derivative=d, order=None, steps=np.array(st)) for st in custom_sets('quick') if len(st) <= 4 for d in (1, 2) if d < len(st)]
    for cf in cfgs:
        c, s = get_finite_difference_stencil(**{k: v for k, v in cf.items() if k != 'order' or v is not None})
        width = int(max(max(s), 0) - min(min(s), 0)) + 1  # extent of the stencil including its centre point
        for size in range(max(width, 2), max(width, 2) + extra):
            dx = 0.37
            tag = cf.get('stencil_type') or [int(x) for x in cf['steps']]
            try:
                A, b = get_finite_difference_matrix(dx=dx, size=size, dim=1, bc='periodic', **cf)
            except Exception as e:
                obs.append(_ob(f'periodic[d={cf["derivative"]},o={cf["order"]},{tag},size={size}]:wrapped_stencil_in_every_row', False, dict(error=repr(e))))
                continue
            A = dense(A)
            want = np.zeros((size, size))
            for cj, sj in zip(c, s):
                for i in range(size):
                    want[i, (i + int(sj)) % size] += cj
            want /= dx ** cf['derivative']
            ok = A.shape == (size, size) and np.allclose(A, want, rtol=1e-12, atol=1e-12 * np.abs(want).max()) and not b.any()
            tag = cf.get('stencil_type') or [int(x) for x in cf['steps']]
            obs.append(_ob(f'periodic[d={cf["derivative"]},o={cf["order"]},{tag},size={size}]:wrapped_stencil_in_every_row', ok,
                           dict(row0=A[0].tolist(), want_row0=want[0].tolist()) if not ok else None))
    return _pack('problem_helper.get_finite_difference_matrix[periodic]', obs, 'every row carries the stencil at columns (i+s_j) mod size',
                 f'stated layouts (order<=4 quick / <=8 thorough) + custom offset sets, sizes width..width+{extra - 1}')


def check_boundary_matrix(tier, seed):
    """Dirichlet: A p + b = p^(d) for monomials of degree < derivative+order given boundary VALUES; Neumann: degree <=
    order of the one-sided closure given boundary DERIVATIVES; both sides independently, both treatments"""
    from pySDC.helpers.problem_helper import get_finite_difference_matrix, get_1d_grid

    obs = []
    extra = 2 if tier == 'quick' else 5
    orders = (1, 2, 3, 4) if tier == 'quick' else (1, 2, 3, 4, 6)
    for d in (1, 2):
        for o in orders:
          for layout in ('center', 'forward', 'backward', 'upwind'):
              for bc in (('dirichlet', 'dirichlet'), ('neumann', 'neumann'), ('dirichlet', 'neumann'), ('neumann', 'dirichlet')):
                  for reduce, nbo in ((False, None), (True, None)) + ((((False, o + 1), (False, o + 2)) + (((False, o - 1),) if o > 1 else ())) if 'neumann' in bc else ()):
                      if reduce and 'neumann' in bc:
                          continue  # reduced closure (centred stencils of growing order reaching up to the boundary point): Dirichlet sides
                      if layout != 'center' and o > 3:
                          continue
                      if layout == 'center' and not (o % 2 == 0 or d % 2 == 1):
                          continue  # centred layout: even orders, and odd orders for odd derivatives
                      n = o + d - (d + 1) % 2 if layout == 'center' else o + d
                      first = n + 1 if not reduce else max(n + 1, 2 * (o + d) + 2)  # the reduced closure of row i is 2(i+1)+1 points wide: the grid has to hold it
                      for size in range(first, first + extra):
                          xl, xr = -0.3, 1.1
                          dx = (xr - xl) / (size + 1)
                          x = np.array([xl + dx * (i + 1) for i in range(size)])
                          # reduced closure: lowest closure order is 2 (degrees up to derivative + 1), never more than the interior stencil delivers
                          maxdeg = (d + o - 1) if not reduce else min(1 + d, d + o - 1)
                          if 'neumann' in bc:
                              maxdeg = min(maxdeg, o if nbo is None else nbo)  # order of the one-sided closure of the boundary derivative
                          for deg in range(0, maxdeg + 1):
                              p = lambda t: t**deg
                              dp = lambda t: deg * t ** (deg - 1) if deg >= 1 else 0.0 * t
                              ddp = lambda t: deg * (deg - 1) * t ** (deg - 2) if deg >= 2 else 0.0 * t
                              target = dp(x) if d == 1 else ddp(x)
                              pars = []
                              for side, xb in zip(bc, (xl, xr)):
                                  val = p(xb) if side == 'dirichlet' else dp(xb)
                                  pars.append(dict(val=float(val), reduce=reduce, **({} if nbo is None else dict(neumann_bc_order=nbo))))
                              try:
                                  A, b = get_finite_difference_matrix(derivative=d, order=o, stencil_type=layout, dx=dx, size=size, dim=1, bc=bc, bc_params=pars)
                              except Exception as e:
                                  obs.append(_ob(f'boundary[d={d},o={o},{layout},{bc},reduce={reduce},neumann_bc_order={nbo},size={size}]:builds', False, dict(error=repr(e)), backend='numeric'))
                                  break
                              res = dense(A) @ p(x) + b - target
                              scale = max(1.0, np.abs(dense(A)).max() * np.abs(p(x)).max())
                              ok = np.abs(res).max() <= 1e-9 * scale
                              obs.append(_ob(f'boundary[d={d},o={o},{layout},{bc[0]}/{bc[1]},reduce={reduce},neumann_bc_order={nbo},size={size},deg={deg}]:derivative_reproduced_up_to_the_boundary', ok,
                                             dict(max_residual=float(np.abs(res).max()), where=int(np.abs(res).argmax())) if not ok else None))
    return _pack('problem_helper.get_finite_difference_matrix[dirichlet/neumann]', obs, 'A p + b = p^(d) on all grid points for monomials within the closure degree',
                 f'derivative 1..2, orders {orders}, all four side combinations, both treatments, sizes n+1..n+{extra}')


def check_boundary_parameter_forms(tier, seed):
    """the boundary parameters of each side are the defaults overridden by THAT side's entries only; None, one dict for both sides,
    and a list of two dicts with different key sets all mean the same as the fully spelled-out list (bit-identical matrix and vector);
    the caller's dictionaries are not modified"""
    import copy
    from pySDC.helpers.problem_helper import get_finite_difference_matrix

    rng = np.random.RandomState(seed + 3)
    obs = []
    for d, o, layout in ((1, 2, 'center'), (2, 2, 'center'), (2, 4, 'center'), (1, 3, 'upwind'), (1, 2, 'forward'), (2, 2, 'backward')):
        for bc in (('dirichlet', 'dirichlet'), ('neumann', 'neumann'), ('dirichlet', 'neumann'), ('neumann', 'dirichlet')):
            size = 12
            dx = 0.1
            va, vb = float(rng.randn()), float(rng.randn())
            red = d == 2 and layout == 'center' and 'neumann' not in bc
            full = lambda l, r: [dict(dict(val=0.0, reduce=False, neumann_bc_order=o), **l), dict(dict(val=0.0, reduce=False, neumann_bc_order=o), **r)]
            forms = {
                'None': (None, full({}, {})),
                'one_dict_for_both_sides': (dict(val=va), full(dict(val=va), dict(val=va))),
                'left_value_only': ([dict(val=va), {}], full(dict(val=va), {})),
                'right_value_only': ([{}, dict(val=vb)], full({}, dict(val=vb))),
                'neumann_order_left_only': ([dict(val=va, neumann_bc_order=1), dict(val=vb)], full(dict(val=va, neumann_bc_order=1), dict(val=vb))),
                'neumann_order_right_only': ([dict(val=va), dict(val=vb, neumann_bc_order=1)], full(dict(val=va), dict(val=vb, neumann_bc_order=1))),
            }
            if red:
                forms['reduce_left_only'] = ([dict(val=va, reduce=True), dict(val=vb)], full(dict(val=va, reduce=True), dict(val=vb)))
                forms['reduce_right_only'] = ([dict(val=va), dict(val=vb, reduce=True)], full(dict(val=va), dict(val=vb, reduce=True)))
            for nm, (short, spelled) in forms.items():
                tag = f'bc_params[d={d},o={o},{layout},{bc[0]}/{bc[1]},{nm}]'
                kw = dict(derivative=d, order=o, stencil_type=layout, dx=dx, size=size, dim=1, bc=bc)
                given = copy.deepcopy(short)
                inner_before = copy.deepcopy(short) if isinstance(short, list) else None
                try:
                    A1, b1 = get_finite_difference_matrix(bc_params=given, **kw)
                    A2, b2 = get_finite_difference_matrix(bc_params=copy.deepcopy(spelled), **kw)
                except Exception as e:
                    obs.append(_ob(f'{tag}:builds', False, dict(error=repr(e)[:160]), backend='numeric'))
                    continue
                same = np.array_equal(dense(A1), dense(A2)) and np.array_equal(b1, b2)
                # history: the caller keeps ONE parameter object and uses it again (several grid levels from one definition)
                try:
                    A3, b3 = get_finite_difference_matrix(bc_params=given, **kw)
                    A4, b4 = get_finite_difference_matrix(bc_params=given, **dict(kw, size=size + 5))
                    A5, b5 = get_finite_difference_matrix(bc_params=copy.deepcopy(spelled), **dict(kw, size=size + 5))
                    again = np.array_equal(dense(A3), dense(A2)) and np.array_equal(b3, b2) and np.array_equal(dense(A4), dense(A5)) and np.array_equal(b4, b5)
                except Exception as e:
                    again = False
                obs.append(_ob(f'{tag}:same_parameter_object_used_again_gives_the_same_operator', again, backend='numeric'))
                obs.append(_ob(f'{tag}:same_as_spelled_out_per_side_parameters', same, dict(max_diff_A=float(np.abs(dense(A1) - dense(A2)).max()), max_diff_b=float(np.abs(b1 - b2).max())) if not same else None, backend='numeric'))
                if isinstance(short, dict):
                    obs.append(_ob(f'{tag}:callers_dictionary_unchanged', given == short, backend='numeric'))
    return _pack('problem_helper.get_finite_difference_matrix[boundary parameter forms]', obs, 'None / one dict / two dicts with different key sets equal the spelled-out per-side parameters',
                 '6 (derivative, order, layout) choices x 4 side combinations x 6-8 parameter forms, random boundary values')


def check_boundary_user_offsets(tier, seed):
    """user-supplied integer offsets (contiguous or with gaps) with non-periodic boundaries: every interior line carries exactly the interior stencil,
    the -min(offsets) / max(offsets) lines next to a boundary carry ONLY the one-sided closure of derivative+order points (nothing of the interior
    stencil survives), and A p + b = p^(d) on all grid points for monomials below min(len(offsets), derivative+order)"""
    from pySDC.helpers.problem_helper import get_finite_difference_matrix, get_finite_difference_stencil

    sets = [[-1, 0, 1], [-2, -1, 0, 1, 2], [-3, -1, 0, 1, 3], [-4, -2, 0, 2, 4], [-2, 0, 1, 4], [-1, 0, 2], [-3, 0, 1], [0, 1, 3], [-3, -2, 0]]
    if tier != 'quick':
        sets += [[-5, -1, 0, 2], [-1, 0, 1, 5], [-4, -3, 1, 2, 6]]
    obs = []
    for steps in sets:
        for d in (1, 2):
            if d >= len(steps):
                continue
            for o in (1, 2, 3) if tier == 'quick' else (1, 2, 3, 4):
                for bc in (('dirichlet', 'dirichlet'), ('neumann', 'dirichlet'), ('dirichlet', 'neumann')):
                    size = max(steps) - min(steps) + o + d + 6
                    xl, xr = -0.3, 1.1
                    dx = (xr - xl) / (size + 1)
                    x = np.array([xl + dx * (i + 1) for i in range(size)])
                    tag = f'user_offsets[{steps},d={d},o={o},{bc[0]}/{bc[1]}]'
                    coeff, offs = get_finite_difference_stencil(derivative=d, steps=np.array(steps))
                    left, right = max(0, -min(offs)), max(0, max(offs))
                    try:
                        A0, _ = get_finite_difference_matrix(derivative=d, order=o, steps=np.array(steps), dx=dx, size=size, dim=1, bc=bc, bc_params=[dict(val=0.0), dict(val=0.0)])
                    except Exception as e:
                        obs.append(_ob(f'{tag}:builds', False, dict(error=repr(e)[:160]), backend='numeric'))
                        continue
                    A0 = dense(A0)
                    ok_int = True
                    for i in range(left, size - right):
                        row = np.zeros(size)
                        row[i + np.asarray(offs)] = np.asarray(coeff) / dx**d
                        ok_int = ok_int and np.allclose(A0[i], row, rtol=1e-12, atol=1e-12 / dx**d)
                    obs.append(_ob(f'{tag}:interior_lines_are_the_interior_stencil', ok_int, backend='numeric'))
                    width = d + o - 1
                    ok_cl = all(not np.any(A0[i, width:] != 0) for i in range(left)) and all(not np.any(A0[size - 1 - i, : size - width] != 0) for i in range(right))
                    obs.append(_ob(f'{tag}:boundary_lines_hold_only_the_closure', ok_cl, backend='numeric'))
                    maxdeg = min(len(steps) - 1, d + o - 1)
                    if 'neumann' in bc:
                        maxdeg = min(maxdeg, o)
                    bad = []
                    for deg in range(0, maxdeg + 1):
                        p = lambda t: t**deg
                        dp = lambda t: deg * t ** (deg - 1) if deg >= 1 else 0.0 * t
                        ddp = lambda t: deg * (deg - 1) * t ** (deg - 2) if deg >= 2 else 0.0 * t
                        target = dp(x) if d == 1 else ddp(x)
                        pars = [dict(val=float(p(xb) if side == 'dirichlet' else dp(xb))) for side, xb in zip(bc, (xl, xr))]
                        A, b = get_finite_difference_matrix(derivative=d, order=o, steps=np.array(steps), dx=dx, size=size, dim=1, bc=bc, bc_params=pars)
                        res = dense(A) @ p(x) + b - target
                        if not np.abs(res).max() <= 1e-8 * max(1.0, np.abs(dense(A)).max() * np.abs(p(x)).max()):
                            bad.append((deg, float(np.abs(res).max()), int(np.abs(res).argmax())))
                    obs.append(_ob(f'{tag}:derivative_reproduced_up_to_the_boundary', not bad, dict(first=bad[:3]) if bad else None, backend='numeric'))
    return _pack('problem_helper.get_finite_difference_matrix[user offsets, dirichlet/neumann]', obs, 'interior stencil in interior lines, pure closure in boundary lines, polynomial exactness up to the boundary',
                 f'{len(sets)} offset sets (contiguous, gapped, one-sided), derivative 1..2, closure orders 1..3 (thorough: 4), three side combinations')


def check_kron(tier, seed):
    from pySDC.helpers.problem_helper import get_finite_difference_matrix

    obs = []
    for bc in ('periodic', 'dirichlet-zero'):
        for size in (4, 5):
            kw = dict(derivative=2, order=2, stencil_type='center', dx=0.25, size=size, bc=bc)
            A1 = dense(get_finite_difference_matrix(dim=1, **kw)[0])
            I = np.eye(size)
            A2 = dense(get_finite_difference_matrix(dim=2, **kw)[0])
            A3 = dense(get_finite_difference_matrix(dim=3, **kw)[0])
            obs.append(_ob(f'kron[{bc},size={size}]:2d_is_kronecker_sum', np.allclose(A2, np.kron(A1, I) + np.kron(I, A1), atol=1e-12)))
            obs.append(_ob(f'kron[{bc},size={size}]:3d_is_kronecker_sum', np.allclose(A3, np.kron(A1, np.kron(I, I)) + np.kron(I, np.kron(A1, I)) + np.kron(I, np.kron(I, A1)), atol=1e-12)))
    for bad in (dict(dim=4, bc='periodic'),):
        try:
            get_finite_difference_matrix(derivative=2, order=2, stencil_type='center', dx=0.1, size=4, **bad)
            obs.append(_ob(f'unsupported[{bad}]:rejected', False))
        except NotImplementedError:
            obs.append(_ob(f'unsupported[{bad}]:rejected', True))
    try:
        get_finite_difference_matrix(derivative=2, order=2, stencil_type='center', dx=0.1, size=4, dim=1, bc='robin')
        obs.append(_ob('unknown_bc:rejected', False))
    except AssertionError:
        obs.append(_ob('unknown_bc:rejected', True))
    return _pack('problem_helper.get_finite_difference_matrix[n-D]', obs, 'Kronecker sums; unknown dimension / boundary type rejected', 'sizes 4,5; periodic and Dirichlet')


class Grid1D(Contract):
    prop = 'C18'
    name = 'problem_helper.get_1d_grid'
    target = (PH, 'get_1d_grid')
    label = 'instance-proved'
    native = True
    expected_exceptions = (NotImplementedError,)

    def instances(self, tier):
        return [dict(bc=b, size=s) for b in ('periodic', 'dirichlet-zero', 'neumann-zero', 'bogus') for s in ((1, 2, 5) if tier == 'quick' else (1, 2, 3, 5, 8))]

    def build(self, inst, mk):
        from pySDC.helpers.problem_helper import get_1d_grid

        st = State(a=mk.real('left'), b=mk.real('right'), inst=inst)
        st.call = lambda: get_1d_grid(inst['size'], inst['bc'], st.a, st.b)
        return st

    def post(self, st, old, result, exc):
        bc, n = st.inst['bc'], st.inst['size']
        if bc == 'bogus':
            yield 'unknown_bc_rejected', isinstance(exc, NotImplementedError)
            return
        yield 'returns_normally', exc is None
        if exc is not None:
            return
        dx, x = result
        L = st.b - st.a
        if bc == 'periodic':
            yield 'dx', seq(dx, L / n)
            for i in range(n):
                yield f'node{i}', seq(x[i], st.a + i * L / n)
        else:
            yield 'dx', seq(dx, L / (n + 1))
            for i in range(n):
                yield f'node{i}', seq(x[i], st.a + (i + 1) * L / (n + 1))

    def canary(self, st, old, result, exc):
        if st.inst['bc'] != 'bogus':
            yield 'canary:first_node_is_left_boundary_for_all_bcs', sym.And(seq(result[1][0], st.a), st.inst['bc'] != 'periodic')
        else:
            yield 'canary:accepted', exc is None


# ------------------------------------------------------------------------------------------------ lemma: monomials -> polynomials
def lemma_moment_closure(tier, seed):
    r"""What the evaluation checks decide per configuration are the MOMENT conditions sum_j c_j s_j^k = k! [k == d], k < n.  The
    property speaks of all polynomials below the degree.  The step between the two, for n symbolic weights c_j, n symbolic
    offsets s_j and n symbolic polynomial coefficients a_k (nothing concrete but n):
      (ring)  sum_j c_j p(s_j)  ==  sum_k a_k M_k          with p(x) = sum_k a_k x^k,  M_k = sum_j c_j s_j^k     (polynomial identity)
      (z3)    M_k == k! [k == d] for all k < n   ==>   sum_k a_k M_k == d! a_d  ( = p^(d)(0) )
      (ring)  sum_k a_k M_k - d! a_d == sum_k a_k (M_k - k![k == d])                                              (the error, term by term)
      (z3)    |a| <= B, |M - want| <= e ==> |a (M - want)| <= B e   (one product)   and   |r_k| <= t_k ==> |sum r_k| <= sum t_k   (linear)
              together: moment residuals e_k bound the error on every polynomial with |a_k| <= B_k by sum_k B_k e_k  -- the float allowance
    The matrix clauses (A p + b = p^(d) at every grid point) are row-wise instances with offsets measured from the row's point."""
    import z3
    from math import factorial as fac
    from vc.discharge import Obligation, discharge

    obs = []
    nmax = 9 if tier == 'quick' else 13
    for n in range(2, nmax + 1):
        c = [z3.Real(f'c{j}') for j in range(n)]
        s = [z3.Real(f's{j}') for j in range(n)]
        a = [z3.Real(f'a{k}') for k in range(n)]

        def pw(x, k):
            r = z3.RealVal(1)
            for _ in range(k):
                r = r * x
            return r

        lhs = z3.Sum([c[j] * z3.Sum([a[k] * pw(s[j], k) for k in range(n)]) for j in range(n)])
        rhs = z3.Sum([a[k] * z3.Sum([c[j] * pw(s[j], k) for j in range(n)]) for k in range(n)])
        obs.append(Obligation(f'closure[n={n}]:stencil_applied_to_polynomial_is_sum_of_coefficient_times_moment', [], lhs == rhs, 'lemma'))
        m = [z3.Real(f'M{k}') for k in range(n)]
        for d in range(1, min(4, n - 1) + 1):
            want = [z3.RealVal(fac(k) if k == d else 0) for k in range(n)]
            comb = z3.Sum([a[k] * m[k] for k in range(n)])
            obs.append(Obligation(f'closure[n={n},d={d}]:moments_imply_exact_derivative_of_every_polynomial_below_degree_n',
                                  [m[k] == want[k] for k in range(n)], comb == fac(d) * a[d], 'lemma'))
            obs.append(Obligation(f'closure[n={n},d={d}]:error_is_sum_of_coefficient_times_moment_residual', [],
                                  comb - fac(d) * a[d] == z3.Sum([a[k] * (m[k] - want[k]) for k in range(n)]), 'lemma'))
        # allowance version, modular: each term a_k (M_k - want_k) is bounded by the one-product lemma below, the sum of n bounded terms is linear
        r = [z3.Real(f'r{k}') for k in range(n)]
        t = [z3.Real(f't{k}') for k in range(n)]
        pc = []
        for k in range(n):
            pc += [r[k] <= t[k], -r[k] <= t[k]]
        obs.append(Obligation(f'closure[n={n}]:sum_of_bounded_terms_is_bounded_by_sum_of_bounds', pc, z3.And(z3.Sum(r) <= z3.Sum(t), -z3.Sum(r) <= z3.Sum(t)), 'lemma'))
    x, y, B, e = z3.Reals('x y B e')
    obs.append(Obligation('closure:one_term:|a|<=B,|M-want|<=e_imply_|a(M-want)|<=B*e', [x <= B, -x <= B, y <= e, -y <= e],
                          z3.And(x * y <= B * e, -(x * y) <= B * e), 'lemma'))
    # canary: the closure does NOT reach degree n (one more coefficient, no moment condition for it)
    n = 3
    a = [z3.Real(f'a{k}') for k in range(n + 1)]
    m = [z3.Real(f'M{k}') for k in range(n + 1)]
    can = discharge(Obligation('canary:closure_reaches_degree_n', [m[0] == 0, m[1] == 1, m[2] == 0], z3.Sum([a[k] * m[k] for k in range(n + 1)]) == a[1], 'lemma')).as_dict()
    res = []
    for ob in obs:
        d = discharge(ob).as_dict()
        d['path'] = 0
        res.append(d)
    can = dict(name=can['name'], refuted=can['status'] == 'refuted')
    return dict(contract='lemma:moment_closure', prop='C18', inst={}, label='proved', kind='lemma', obligations=res, canaries=[can],
                paths=1, status='ok')


CONTRACTS = [Grid1D]
EXTRAS = [check_get_steps, check_stencil, check_periodic_matrix, check_boundary_matrix, check_boundary_parameter_forms, check_boundary_user_offsets, check_kron, lemma_moment_closure]
ASSUMPTIONS = ['numpy.linalg.solve / scipy.sparse internals are outside the repository; their OUTPUT is what is checked (exact rational evaluation, allowance 1e-8 relative)',
               'closure from monomials to all polynomials below the degree: machine-checked for n <= 9 points (quick) / 13 (thorough) by lemma:moment_closure (symbolic weights, offsets and coefficients), including the allowance version']
UNDECIDED = ['grid sizes beyond the enumerated range', 'cupy path']
