"""
C06, value chain inside a block on REAL runs (bounded): every accepted step starts from exactly (bit for bit) the end value its predecessor
finally reports -- observed at post_step over both coupling modes, both end-point modes (last node / quadrature), one and two levels,
converged and fixed-iteration runs.  The loop-cut contract of run() takes this from the block as an ASSUMED callee contract
(contracts/C06_tiling.py, stub `pfasst`); this check is what stands behind that assumption, and it is where the recorded finding
(Jacobi coupling with a quadrature end point) shows.
"""

import numpy as np


def bounded_value_chain(tier, seed):
    from pySDC.core.hooks import Hooks
    from pySDC.implementations.controller_classes.controller_nonMPI import controller_nonMPI
    from pySDC.implementations.problem_classes.TestEquation_0D import testequation0d
    from pySDC.implementations.sweeper_classes.generic_implicit import generic_implicit
    from pySDC.implementations.transfer_classes.TransferMesh import mesh_to_mesh

    rec = []

    class Rec(Hooks):
        def post_step(self, step, level_number):
            L = step.levels[0]
            rec.append((L.time, np.array(L.u[0]).copy(), np.array(L.uend).copy(), step.status.iter))

    groups, cases = {}, 0
    lam = np.array([-1.0 + 0.5j, -3.0, 0.7j])
    for jac in (True, False):
        for quad, cu in (('GAUSS', False), ('RADAU-RIGHT', True), ('RADAU-LEFT', False), ('RADAU-RIGHT', False), ('LOBATTO', False)):
            mode = 'last_node' if (quad in ('RADAU-RIGHT', 'LOBATTO') and not cu) else 'quadrature_end_point'
            for nlev in (1, 2):
                for nprocs in (2, 3) if tier == 'quick' else (2, 3, 4, 5):
                    for restol, maxiter in ((1e-11, 60), (-1.0, 3)):
                        if nlev == 2 and quad in ('GAUSS', 'RADAU-LEFT'):
                            continue  # time-parallel multi-level runs need the right end point as a node (rejected at construction)
                        key = f'{"jacobi" if jac else "gauss_seidel"},{mode},{"one_level" if nlev == 1 else "two_levels"}'
                        bad = groups.setdefault(key, [])
                        cases += 1
                        del rec[:]
                        sp = dict(num_nodes=[3, 2] if nlev == 2 else 3, quad_type=quad, QI='IE', do_coll_update=cu)
                        d = dict(problem_class=testequation0d, problem_params=dict(lambdas=lam, u0=1.0), sweeper_class=generic_implicit, sweeper_params=sp,
                                 level_params=dict(dt=0.2, restol=restol), step_params=dict(maxiter=maxiter))
                        if nlev == 2:
                            d['space_transfer_class'] = mesh_to_mesh
                        try:
                            c = controller_nonMPI(num_procs=nprocs, controller_params=dict(logger_level=40, hook_class=[Rec], mssdc_jac=jac, dump_setup=False), description=d)
                            u0 = c.MS[0].levels[0].prob.u_exact(0.0)
                            uend, _ = c.run(u0=u0, t0=0.0, Tend=0.2 * (nprocs + 1))
                        except Exception as e:
                            bad.append(dict(config=f'{quad}/coll_update={cu}/procs={nprocs}/restol={restol}', error=repr(e)[:120]))
                            continue
                        r = sorted(rec, key=lambda x: x[0])
                        gaps = [float(np.max(np.abs(r[i + 1][1] - r[i][2]))) for i in range(len(r) - 1)]
                        first_ok = np.array_equal(r[0][1], np.asarray(u0)) and np.array_equal(np.asarray(uend), r[-1][2])
                        if any(g != 0.0 for g in gaps) or not first_ok:
                            bad.append(dict(config=f'{quad}/coll_update={cu}/procs={nprocs}/restol={restol}/maxiter={maxiter}', gaps=gaps, first_and_returned_ok=bool(first_ok)))
    obs = [dict(name=f'bounded:accepted_steps_chain_exactly[{k}]', status='proved' if not bad else 'refuted', backend='native-run', seconds=0.0, kind='bounded', size=0,
                model=dict(count=len(bad), first=bad[:3]) if bad else None, reason='', path=0, counted=False) for k, bad in sorted(groups.items())]
    return dict(contract='bounded:controller_nonMPI.run[value chain]', prop='C06', inst={}, label='bounded', kind='bounded', obligations=obs, canaries=[], paths=1, status='ok',
                bounded=dict(what='start value of every accepted step against the final end value of its predecessor, bit for bit, on real runs', bound='Jacobi / Gauss-Seidel coupling x 5 node-set / end-point configurations x 1-2 levels x 2-3 (thorough: 2-5) steps per block x converged / three iterations',
                             cases=cases, failures=sum(1 for o in obs if o['status'] != 'proved')))


CONTRACTS = []
EXTRAS = [bounded_value_chain]
ASSUMPTIONS = []
