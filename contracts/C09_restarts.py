r"""
C09 -- restarts and step-size control keep their promises for every failure sequence.

Contracts on the real convergence-controller functions (serial flavours), all scalars symbolic, arbitrary restart
requests / counters / error estimates as the pre-state ("all sequences of restart requests and error estimates at
arbitrary (step, attempt) positions" = the arbitrary pre-state of these one-step proofs):

  BasicRestartingNonMPI.determine_restart   (run over the block in order, as it_check does)
  BasicRestartingNonMPI.prepare_next_block  (run over all steps, as run() does)      -> retry bookkeeping
  SpreadStepSizesBlockwiseNonMPI.prepare_next_block (run over all steps)            -> one step size per block
  AdaptivityBase.compute_optimal_step_size / determine_restart, Adaptivity(.RK).get_new_step_size
  StepSizeLimiter / StepSizeSlopeLimiter.get_new_step_size
  ConvergenceController.convergence_control (call order), Controller.add_convergence_controller (ordering)
The block consequences (steps before r kept, next block starts at time[r] with u[0] of step r) are C06's RunBody.
"""

import numpy as np
import z3

from vc import sym
from vc.sym import And, Or, Not, Implies, Iff, Ite, smin, smax
from vc.contract import Contract, State, veq, seq, snapshot, frame_clauses
from vc.discharge import Obligation, discharge
from contracts.common import cls_of
from contracts import ctrl

CCD = 'pySDC/implementations/convergence_controller_classes/'


def find_cc(c, name):
    for C in c.convergence_controllers:
        if type(C).__name__ == name:
            return C
    raise KeyError(name)


# number of levels of the harness steps when a contract does not say (set per instance by _Base.build_with_levels)
_LEVELS = [1]
COARSE_NUMERIC_STATUS = ('residual', 'dt_new', 'error_embedded_estimate', 'error_extrapolation_estimate', 'increment', 'error_extrapolation_estimate')


def decorate_coarse_levels(c, mk):
    """step-size control and restarts are decided on the FINEST level: every coarser level carries arbitrary OTHER values (own step size,
    residual, tolerances, error estimates, proposed step size), so that reading the wrong level cannot go unnoticed"""
    for p, S in enumerate(c.MS):
        for l, L in enumerate(S.levels[1:], start=1):
            n = f'S{p}.coarse{l}'
            L.params.dt = mk.real(f'{n}.dt')
            mk.assume(L.params.dt > 0, 'dt>0')
            L.params.restol = mk.real(f'{n}.restol')
            if L.params.get('e_tol') is not None:
                L.params.e_tol = mk.real(f'{n}.e_tol')
            for k in COARSE_NUMERIC_STATUS:
                if k in vars(L.status) or k in type(L.status).attrs:
                    setattr(L.status, k, mk.real(f'{n}.{k}'))
            L.status.sweep = mk.int(f'{n}.sweep')


def make_ctrl(mk, n, nlevels=None, conv=None, cparams=None, level_params=None, sweeper=None, M=1):
    decorate = nlevels is None and _LEVELS[0] > 1
    nlevels = _LEVELS[0] if nlevels is None else nlevels
    lp = dict(restol=-1.0)
    lp.update(level_params or {})
    kw = dict(sweeper=sweeper) if sweeper else {}
    kw['M'] = M
    c, trace = ctrl.make_controller(mk, n, nlevels=nlevels, conv_controllers=conv, cparams=dict(dict(mssdc_jac=False), **(cparams or {})), level_params=lp, **kw)
    for p, S in enumerate(c.MS):
        S.status.slot = p
        S.status.first, S.status.last = p == 0, p == n - 1
        S.status.time_size = n
        S.prev = c.MS[p - 1]
        for L in S.levels:
            L.status.time = 0.0
    if decorate:
        decorate_coarse_levels(c, mk)
    return c, trace


class _Base(Contract):
    prop = 'C09'
    label = 'instance-proved'
    coarse_levels = True  # every instance is also run on two-level steps whose coarse level holds arbitrary other values

    def all_instances(self, tier):
        out = list(self.instances(tier))
        if self.coarse_levels:
            out += [dict(i, nlevels=2) for i in out if 'nlevels' not in i]
        return out

    def __init_subclass__(cls, **kw):
        super().__init_subclass__(**kw)
        if 'build' in cls.__dict__:
            inner = cls.__dict__['build']

            def build(self, inst, mk, _inner=inner):
                _LEVELS[0] = inst.get('nlevels', 1) if self.coarse_levels else 1
                try:
                    return _inner(self, inst, mk)
                finally:
                    _LEVELS[0] = 1

            cls.build = build

    def Ns(self, tier):
        return (1, 2, 3) if tier == 'quick' else (1, 2, 3, 4)


# ------------------------------------------------------------------------------------------- restart propagation
class DetermineRestart(_Base):
    name = 'BasicRestartingNonMPI.determine_restart'
    target = (CCD + 'basic_restarting.py', 'BasicRestartingNonMPI.determine_restart')
    from pySDC.core.errors import ConvergenceError

    expected_exceptions = (ConvergenceError,)

    def instances(self, tier):
        return [dict(n=n, from_first=ff, crash=cr) for n in self.Ns(tier) for ff in (False, True) for cr in (True, False)]

    def build(self, inst, mk):
        c, _ = make_ctrl(mk, inst['n'])
        R = find_cc(c, 'BasicRestartingNonMPI')
        R.params.max_restarts = mk.int('max_restarts')
        R.params.restart_from_first_step = inst['from_first']
        R.params.crash_after_max_restarts = inst['crash']
        R.reset_buffers_nonMPI(c)
        wants = []
        for p, S in enumerate(c.MS):
            S.status.restart = mk.bool(f'wants{p}')
            S.status.restarts_in_a_row = mk.int(f'count{p}')
            wants.append(S.status.restart)
        st = State(c=c, R=R, wants=wants, inst=inst, n=inst['n'])

        def call():
            for S in c.MS:  # the order in which it_check consults the controllers
                R.determine_restart(c, S, MS=c.MS)

        st.call = call
        return st

    def snapshot(self, st):
        return snapshot({f'S{p}': S for p, S in enumerate(st.c.MS)})

    def post(self, st, old, result, exc):
        c, R, w, n = st.c, st.R, st.wants, st.n
        maxed = c.MS[0].status.restarts_in_a_row >= R.params.max_restarts
        must_raise = And(maxed, w[0], st.inst['crash'])
        yield 'budget:raises_iff_first_step_fails_again_with_exhausted_budget', Iff(isinstance(exc, self.ConvergenceError), must_raise)
        if exc is not None:
            return
        for j, S in enumerate(c.MS):
            if st.inst['from_first']:
                exp = And(Or(*w), Not(maxed))
            else:
                exp = And(Or(*w[: j + 1]), Not(maxed))
            yield f'propagation[{j}]', Iff(S.status.restart, exp)
            yield f'no_restart_once_budget_exhausted[{j}]', Implies(maxed, Not(S.status.restart))
        new = snapshot({f'S{p}': S for p, S in enumerate(c.MS)})
        yield from frame_clauses(old, new, frame=[f'S{p}.status.restart' for p in range(n)])

    def canary(self, st, old, result, exc):
        if exc is None and st.n > 1:
            yield 'canary:no_propagation', Iff(st.c.MS[1].status.restart, st.wants[1])
        if exc is None and not st.inst['crash']:
            yield 'canary:ignores_budget', Iff(st.c.MS[0].status.restart, st.wants[0])


class RestartBookkeeping(_Base):
    """after prepare_next_block has been called for every step (as run() does), the step that will sit at new slot k is
    the old step r+k (r = first restarted slot); it carries old counter + 1 if it was restarted, fresh slots carry 0;
    without any restart every counter is 0."""

    name = 'BasicRestartingNonMPI.prepare_next_block'
    target = (CCD + 'basic_restarting.py', 'BasicRestartingNonMPI.prepare_next_block')

    def instances(self, tier):
        out = []
        for n in self.Ns(tier):
            for r in range(n + 1):  # r == n: no restart
                out.append(dict(n=n, r=r))
        return out

    def build(self, inst, mk):
        n, r = inst['n'], inst['r']
        c, _ = make_ctrl(mk, n)
        R = find_cc(c, 'BasicRestartingNonMPI')
        counts = []
        for p, S in enumerate(c.MS):
            # determine_restart's post: restart flags are upward closed from r
            S.status.restart = p >= r
            S.status.restarts_in_a_row = mk.int(f'count{p}')
            counts.append(S.status.restarts_in_a_row)
        st = State(c=c, R=R, counts=counts, inst=inst, n=n)

        def call():
            for S in c.MS:
                R.prepare_next_block(c, S, n, [0.0] * n, 1.0, MS=c.MS)

        st.call = call
        return st

    def snapshot(self, st):
        return snapshot({f'S{p}': S for p, S in enumerate(st.c.MS)})

    def post(self, st, old, result, exc):
        c, n, r, cnt = st.c, st.n, st.inst['r'], st.counts
        yield 'returns_normally', exc is None
        if exc is not None:
            return
        for k, S in enumerate(c.MS):
            if r < n and k + r < n:
                yield f'retried_step_carries_old_count_plus_one[{k}]', seq(S.status.restarts_in_a_row, cnt[k + r] + 1)
            else:
                yield f'fresh_step_starts_at_zero[{k}]', seq(S.status.restarts_in_a_row, 0)
        new = snapshot({f'S{p}': S for p, S in enumerate(c.MS)})
        yield from frame_clauses(old, new, frame=[f'S{p}.status.restarts_in_a_row' for p in range(n)])

    def canary(self, st, old, result, exc):
        yield 'canary:counters_unchanged', seq(st.c.MS[0].status.restarts_in_a_row, st.counts[0])


# ------------------------------------------------------------------------------------------- one step size per block
class SpreadStepSizes(_Base):
    """after prepare_next_block over all steps every active step carries, on level l, the SAME value
         V_l = min(dt_new_or_dt(spread step, l), max(dt_max, dt_initial(spread step, l)))
       computed from the state before the loop, dt_max = (Tend - time[restart_at] - dt_all[restart_at]) / size."""

    name = 'SpreadStepSizesBlockwiseNonMPI.prepare_next_block'
    target = (CCD + 'spread_step_sizes.py', 'SpreadStepSizesBlockwiseNonMPI.prepare_next_block')

    def instances(self, tier):
        out = []
        for n in self.Ns(tier):
            for r in range(n + 1):
                for dn in (True, False):
                    for ow in (True, False):
                        out.append(dict(n=n, r=r, dt_new=dn, overwrite=ow, nlevels=1))
        out.append(dict(n=2, r=1, dt_new=True, overwrite=True, nlevels=2))
        # non-default mode: spread from the restarted step with the SMALLEST proposal on the finest level
        for n in self.Ns(tier):
            for r in range(n):
                for nl in (1, 2):
                    if nl == 2 and n > 2:
                        continue
                    out.append(dict(n=n, r=r, dt_new=True, overwrite=(n + r) % 2 == 0, nlevels=nl, spread_first=False))
                    if nl == 2:  # what adaptivity really leaves behind: a proposal on the finest level only
                        out.append(dict(n=n, r=r, dt_new=True, overwrite=False, nlevels=nl, spread_first=False, coarse_proposal=False))
        return out

    def build(self, inst, mk):
        n, r, nl = inst['n'], inst['r'], inst['nlevels']
        c, _ = make_ctrl(mk, n, nlevels=nl)
        Sp = find_cc(c, 'SpreadStepSizesBlockwiseNonMPI')
        Sp.params.overwrite_to_reach_Tend = inst['overwrite']
        Sp.params.spread_from_first_restarted = inst.get('spread_first', True)
        time = [mk.real(f'time{p}') for p in range(n)]
        Tend = mk.real('Tend')
        for p, S in enumerate(c.MS):
            S.status.restart = p >= r
            for l, L in enumerate(S.levels):
                L.params.dt = mk.real(f'dt[{p},{l}]')
                mk.assume(L.params.dt > 0, 'dt>0')
                L.params.dt_initial = mk.real(f'dt_initial[{l}]')
                L.status.dt_new = mk.real(f'dt_new[{p},{l}]') if inst['dt_new'] and (l == 0 or inst.get('coarse_proposal', True)) else None
                if L.status.dt_new is not None:
                    mk.assume(L.status.dt_new > 0, 'dt_new>0')
        st = State(c=c, Sp=Sp, time=time, Tend=Tend, inst=inst, n=n, nl=nl)
        st.old_dt = [[L.params.dt for L in S.levels] for S in c.MS]
        st.dt_new0 = [S.levels[0].status.dt_new for S in c.MS]
        st.dt_new_all = [[L.status.dt_new for L in S.levels] for S in c.MS]

        def call():
            for S in c.MS:
                Sp.prepare_next_block(c, S, n, time, Tend, MS=c.MS)

        st.call = call
        return st

    def snapshot(self, st):
        return snapshot({f'S{p}': S for p, S in enumerate(st.c.MS)})

    def expected(self, st, l, src_index=None):
        n, r = st.n, st.inst['r']
        ra = r if r < n else n - 1
        src = st.c.MS[ra if src_index is None else src_index]
        L = src.levels[l]
        base = L.status.dt_new if L.status.dt_new is not None else st.old_dt[ra if src_index is None else src_index][l]
        if not st.inst['overwrite']:
            return base
        dt_all = 0.0 if ra == 0 else st.old_dt[ra][0]
        dt_max = (st.Tend - st.time[ra] - dt_all) / n
        return smin(base, smax(dt_max, L.params.dt_initial))

    def post(self, st, old, result, exc):
        c, n, nl = st.c, st.n, st.nl
        yield 'returns_normally', exc is None
        if exc is not None:
            return
        for l in range(nl):
            if not st.inst.get('spread_first', True) and st.inst['r'] < n:
                # source = first among the restarted steps whose FINEST-level proposal is smallest (the time bound still refers to the first restarted step)
                r = st.inst['r']
                dtn = [st.dt_new0[q] for q in range(n)]
                for p, S in enumerate(c.MS):
                    yield f'one_step_size_per_block[{p},{l}]', Or(*[And(*([dtn[q] > dtn[s] for q in range(r, s)] + [dtn[q] >= dtn[s] for q in range(s + 1, n)]),
                                                                       seq(S.levels[l].params.dt, self.expected(st, l, src_index=s))) for s in range(r, n)])
                continue
            V = self.expected(st, l)
            for p, S in enumerate(c.MS):
                yield f'one_step_size_per_block[{p},{l}]', seq(S.levels[l].params.dt, V)
            for p in range(1, n):
                yield f'same_as_first_step[{p},{l}]', seq(c.MS[p].levels[l].params.dt, c.MS[0].levels[l].params.dt)
        new = snapshot({f'S{p}': S for p, S in enumerate(c.MS)})
        yield from frame_clauses(old, new, frame=[f'S{p}.levels[{l}].params.dt' for p in range(n) for l in range(nl)])

    def canary(self, st, old, result, exc):
        if st.inst['dt_new'] or st.inst['overwrite']:
            yield 'canary:dt_unchanged', seq(st.c.MS[st.n - 1].levels[0].params.dt, st.old_dt[st.n - 1][0])


# ------------------------------------------------------------------------------------------- adaptivity
def adaptivity_ctrl(mk, cls_name='Adaptivity', extra=None, n=1, sweeper=None, M=1, level_params=None):
    A = cls_of(CCD + 'adaptivity.py', cls_name)
    params = dict(e_tol=1e-5)
    params.update(extra or {})
    if cls_name == 'AdaptivityRK':
        params['update_order'] = 3
    c, tr = make_ctrl(mk, n, conv={A: params}, sweeper=sweeper, M=M, level_params=level_params)
    return c, find_cc(c, cls_name)


class OptimalStepSize(_Base):
    name = 'AdaptivityBase.compute_optimal_step_size'
    target = (CCD + 'adaptivity.py', 'AdaptivityBase.compute_optimal_step_size')
    label = 'proved'
    assumptions = ('x ** (1/order) for symbolic operands is the uninterpreted function pow(x, 1/order)',)

    def build(self, inst, mk):
        c, A = adaptivity_ctrl(mk)
        st = State(A=A, beta=mk.real('beta'), dt=mk.real('dt'), e_tol=mk.real('e_tol'), e_est=mk.real('e_est'), order=mk.int('order'))
        mk.assume(st.order >= 1, 'order>=1')
        mk.assume(st.e_est > 0, 'e_est>0')
        st.call = lambda: A.compute_optimal_step_size(st.beta, st.dt, st.e_tol, st.e_est, st.order)
        return st

    def post(self, st, old, result, exc):
        yield 'returns_normally', exc is None
        if exc is None:
            yield 'formula', seq(result, st.beta * st.dt * (st.e_tol / st.e_est) ** (1.0 / st.order))

    def canary(self, st, old, result, exc):
        yield 'canary:inverted_ratio', seq(result, st.beta * st.dt * (st.e_est / st.e_tol) ** (1.0 / st.order))
        yield 'canary:order_plus_one', seq(result, st.beta * st.dt * (st.e_tol / st.e_est) ** (1.0 / (st.order + 1)))


class NewStepSize(_Base):
    """dt_new is proposed only when iter == maxiter and then equals beta*dt*(e_tol/e_est)^(1/order) with order = iter
    (Adaptivity) resp. the sweeper's update order (AdaptivityRK)"""

    name = 'Adaptivity.get_new_step_size'
    target = (CCD + 'adaptivity.py', 'Adaptivity.get_new_step_size')
    label = 'proved'
    stubs = ('AdaptivityBase.compute_optimal_step_size [contract above]',)

    def instances(self, tier):
        return [dict(cls='Adaptivity'), dict(cls='AdaptivityRK')]

    def build(self, inst, mk):
        c, A = adaptivity_ctrl(mk, inst['cls'], sweeper=('pySDC/implementations/sweeper_classes/Runge_Kutta.py', 'Cash_Karp') if inst['cls'] == 'AdaptivityRK' else None)
        S = c.MS[0]
        L = S.levels[0]
        S.status.iter = mk.int('iter')
        S.params.maxiter = mk.int('maxiter')
        mk.assume(S.params.maxiter >= 1, 'maxiter>=1')
        A.params.e_tol = mk.real('e_tol')
        A.params.beta = mk.real('beta')
        L.params.dt = mk.real('dt')
        L.status.error_embedded_estimate = mk.real('e_est')
        mk.assume(L.status.error_embedded_estimate > 0, 'e_est>0')
        L.status.dt_new = mk.real('dt_new_old')
        if inst['cls'] == 'AdaptivityRK':
            A.params.update_order = mk.int('update_order')
            mk.assume(A.params.update_order >= 1, 'order>=1')
        st = State(c=c, A=A, S=S, L=L, inst=inst, old_dtnew=L.status.dt_new)
        st.call = lambda: A.get_new_step_size(c, S)
        return st

    def snapshot(self, st):
        return snapshot({'S': st.S})

    def post(self, st, old, result, exc):
        S, L, A = st.S, st.L, st.A
        yield 'returns_normally', exc is None
        if exc is not None:
            return
        order = S.status.iter if st.inst['cls'] == 'Adaptivity' else A.params.update_order
        at_end = S.status.iter == S.params.maxiter
        if bool(at_end):
            formula = A.params.beta * L.params.dt * (A.params.e_tol / L.status.error_embedded_estimate) ** (1.0 / order)
            yield 'proposal_is_the_formula', seq(L.status.dt_new, formula)
        else:
            yield 'no_proposal_before_last_iteration', seq(L.status.dt_new, st.old_dtnew)
        yield from frame_clauses(old, snapshot({'S': S}), frame=['S.levels[0].status.dt_new'])

    def canary(self, st, old, result, exc):
        yield 'canary:always_proposes', Not(seq(st.L.status.dt_new, st.old_dtnew))


class AdaptivityRestart(_Base):
    """plain adaptivity: once iter >= maxiter a step whose estimate is above the tolerance is rejected (restart), one below it is not; an existing
    request is kept; an accepted step has e_est <= e_tol. (At exact equality either decision satisfies the property; the clauses leave it open.)
    With avoid_restarts the rejection may be replaced by ONE forced further iteration when the estimated contraction (max over the levels) is at most one,
    the iterations still needed stay within twice the budget and within the collocation order of the finest level."""

    name = 'AdaptivityBase.determine_restart'
    target = (CCD + 'adaptivity.py', 'AdaptivityBase.determine_restart')
    label = 'proved'

    def instances(self, tier):
        return [dict(avoid=False), dict(avoid=True)]

    def build(self, inst, mk):
        c, A = adaptivity_ctrl(mk, extra=dict(avoid_restarts=True) if inst['avoid'] else None)
        S = c.MS[0]
        L = S.levels[0]
        S.status.iter = mk.int('iter')
        S.params.maxiter = mk.int('maxiter')
        A.params.e_tol = mk.real('e_tol')
        L.status.error_embedded_estimate = mk.real('e_est')
        S.status.restart = mk.bool('restart_old')
        st = State(c=c, A=A, S=S, L=L, old_restart=S.status.restart, inst=inst)
        if inst['avoid']:
            S.status.force_continue = mk.bool('force_continue_old')
            st.old_force = S.status.force_continue
            st.more, st.rho = [], []
            for l, Lv in enumerate(S.levels):
                Lv.status.iter_to_convergence = mk.int(f'more_iterations[{l}]')
                Lv.status.contraction_factor = mk.real(f'contraction[{l}]')
                st.more.append(Lv.status.iter_to_convergence)
                st.rho.append(Lv.status.contraction_factor)
            L.sweep.coll.order = mk.int('collocation_order')
            st.order = L.sweep.coll.order
            for l, Lv in enumerate(S.levels[1:], start=1):
                Lv.sweep.coll.order = mk.int(f'coarse{l}.collocation_order')
        st.call = lambda: A.determine_restart(c, S)
        return st

    def snapshot(self, st):
        return snapshot({'S': st.S})

    def post(self, st, old, result, exc):
        S, L, A = st.S, st.L, st.A
        yield 'returns_normally', exc is None
        if exc is not None:
            return
        at_limit = S.status.iter >= S.params.maxiter
        e, tol = L.status.error_embedded_estimate, A.params.e_tol
        if not st.inst['avoid']:
            yield 'estimate_above_tolerance_at_the_iteration_limit_restarts', Implies(And(at_limit, e > tol), S.status.restart)
            yield 'restart_only_if_requested_before_or_estimate_reaches_tolerance_at_the_limit', Implies(S.status.restart, Or(st.old_restart, And(at_limit, e >= tol)))
            yield 'existing_request_kept', Implies(st.old_restart, S.status.restart)
            yield 'accepted_step_has_error_at_most_the_tolerance', Implies(And(at_limit, Not(S.status.restart)), e <= tol)
            yield from frame_clauses(old, snapshot({'S': S}), frame=['S.status.restart'])
            return
        more, rho = smax(list(st.more)), smax(list(st.rho))
        k_final = S.status.iter + more
        # strictly on the wrong side of one of the three limits: restart; strictly inside all of them: one forced further iteration instead
        must_restart = Or(rho > 1, k_final > 2 * S.params.maxiter, k_final > st.order)
        may_continue = And(rho <= 1, k_final <= 2 * S.params.maxiter, k_final <= st.order)
        strictly_inside = And(rho < 1, k_final < 2 * S.params.maxiter, k_final < st.order)  # exactly on a limit either decision is fine
        yield 'avoid:rejected_and_outside_the_limits_restarts', Implies(And(at_limit, e > tol, must_restart), S.status.restart)
        yield 'avoid:rejected_and_inside_the_limits_continues_instead', Implies(And(at_limit, e > tol, strictly_inside, Not(st.old_restart)), And(S.status.force_continue, Not(S.status.restart)))
        yield 'avoid:restart_only_if_requested_before_or_estimate_reaches_tolerance_at_the_limit', Implies(S.status.restart, Or(st.old_restart, And(at_limit, e >= tol)))
        yield 'avoid:forced_continuation_only_for_a_rejected_step_inside_the_limits', Implies(And(S.status.force_continue, Not(st.old_force)), And(at_limit, e >= tol, may_continue))
        yield 'avoid:existing_request_kept', Implies(st.old_restart, S.status.restart)
        yield 'avoid:accepted_step_has_error_at_most_the_tolerance', Implies(And(at_limit, Not(S.status.restart), Not(S.status.force_continue)), e <= tol)
        yield from frame_clauses(old, snapshot({'S': S}), frame=['S.status.restart', 'S.status.force_continue'])

    def canary(self, st, old, result, exc):
        yield 'canary:never_restarts', Iff(st.S.status.restart, st.old_restart)


# ------------------------------------------------------------------------------------------- limiters
class Limiter(_Base):
    name = 'StepSizeLimiter.get_new_step_size'
    target = (CCD + 'step_size_limiter.py', 'StepSizeLimiter.get_new_step_size')
    label = 'proved'

    def instances(self, tier):
        return [dict(none=False, nlevels=1), dict(none=True, nlevels=1), dict(none=False, nlevels=2)]

    def build(self, inst, mk):
        Lim = cls_of(CCD + 'step_size_limiter.py', 'StepSizeLimiter')
        c, _ = make_ctrl(mk, 1, nlevels=inst['nlevels'], conv={Lim: dict(dt_min=0.1, dt_max=1.0)})
        C = find_cc(c, 'StepSizeLimiter')
        C.params.dt_min, C.params.dt_max = mk.real('dt_min'), mk.real('dt_max')
        mk.assume(C.params.dt_min <= C.params.dt_max, 'dt_min<=dt_max')
        S = c.MS[0]
        old = []
        for l, L in enumerate(S.levels):
            L.status.dt_new = None if inst['none'] else mk.real(f'dt_new{l}')
            old.append(L.status.dt_new)
        st = State(c=c, C=C, S=S, old=old, inst=inst)
        st.call = lambda: C.get_new_step_size(c, S)
        return st

    def snapshot(self, st):
        return snapshot({'S': st.S})

    def post(self, st, old, result, exc):
        yield 'returns_normally', exc is None
        if exc is not None:
            return
        for l, L in enumerate(st.S.levels):
            if st.old[l] is None:
                yield f'none_stays_none[{l}]', L.status.dt_new is None
            else:
                yield f'clip[{l}]', seq(L.status.dt_new, smin(smax(st.old[l], st.C.params.dt_min), st.C.params.dt_max))
        yield from frame_clauses(old, snapshot({'S': st.S}), frame=[f'S.levels[{l}].status.dt_new' for l in range(len(st.S.levels))])

    def canary(self, st, old, result, exc):
        if not st.inst['none']:
            yield 'canary:min_max_swapped', seq(st.S.levels[0].status.dt_new, smax(smin(st.old[0], st.C.params.dt_min), st.C.params.dt_max))


class SlopeLimiter(_Base):
    """dt_new' = dt*clip(dt_new/dt, s_min, s_max); inside the limits a change smaller than dt_rel_min_slope keeps dt,
    except for a step that is being restarted (a rejected step must not be retried with the same step size)"""

    name = 'StepSizeSlopeLimiter.get_new_step_size'
    target = (CCD + 'step_size_limiter.py', 'StepSizeSlopeLimiter.get_new_step_size')
    label = 'proved'

    def instances(self, tier):
        return [dict(none=False), dict(none=True)]

    def build(self, inst, mk):
        Lim = cls_of(CCD + 'step_size_limiter.py', 'StepSizeSlopeLimiter')
        c, _ = make_ctrl(mk, 1, conv={Lim: dict(dt_slope_min=0.5)})
        C = find_cc(c, 'StepSizeSlopeLimiter')
        C.params.dt_slope_min, C.params.dt_slope_max, C.params.dt_rel_min_slope = mk.real('s_min'), mk.real('s_max'), mk.real('rel_min')
        mk.assume(C.params.dt_slope_min <= C.params.dt_slope_max, 's_min<=s_max')
        S = c.MS[0]
        L = S.levels[0]
        L.params.dt = mk.real('dt')
        mk.assume(L.params.dt > 0, 'dt>0')
        L.status.dt_new = None if inst['none'] else mk.real('dt_new')
        S.status.restart = mk.bool('restart')
        st = State(c=c, C=C, S=S, L=L, old=L.status.dt_new, inst=inst, old_coarse=[Lv.status.dt_new for Lv in S.levels[1:]])
        st.call = lambda: C.get_new_step_size(c, S)
        return st

    def snapshot(self, st):
        return snapshot({'S': st.S})

    def post(self, st, old, result, exc):
        S, L, C = st.S, st.L, st.C
        yield 'returns_normally', exc is None
        if exc is not None:
            return
        for l, Lv in enumerate(S.levels):
            tag = '' if l == 0 else f'[level {l}]'
            was = st.old if l == 0 else st.old_coarse[l - 1]
            if was is None:
                yield f'none_stays_none{tag}', Lv.status.dt_new is None
                continue
            # every level's proposal is limited against THAT level's own step size
            dt, q = Lv.params.dt, was / Lv.params.dt
            below, above = q < C.params.dt_slope_min, q > C.params.dt_slope_max
            dead = And(Not(below), Not(above), abs(q - 1) < C.params.dt_rel_min_slope, Not(S.status.restart))
            exp = Ite(below, dt * C.params.dt_slope_min, Ite(above, dt * C.params.dt_slope_max, Ite(dead, dt, was)))
            yield f'slope_clip_with_dead_band{tag}', seq(Lv.status.dt_new, exp)
            yield f'rejected_step_never_keeps_its_step_size_through_the_dead_band{tag}', Implies(And(S.status.restart, Not(below), Not(above)), seq(Lv.status.dt_new, was))
        yield from frame_clauses(old, snapshot({'S': S}), frame=[f'S.levels[{l}].status.dt_new' for l in range(len(S.levels))])

    def canary(self, st, old, result, exc):
        if st.old is not None:
            yield 'canary:multiplies_dt_new', seq(st.L.status.dt_new, Ite(st.old / st.L.params.dt < st.C.params.dt_slope_min, st.old * st.C.params.dt_slope_min, st.old))


# ------------------------------------------------------------------------------------------- order of application
class ConvergenceControlOrder(_Base):
    name = 'ConvergenceController.convergence_control'
    target = ('pySDC/core/convergence_controller.py', 'ConvergenceController.convergence_control')
    label = 'proved'

    def build(self, inst, mk):
        CC = cls_of('pySDC/core/convergence_controller.py', 'ConvergenceController')
        tr = []

        class T(CC):
            def __init__(self):
                pass

            def get_new_step_size(self, controller, S, **kw):
                tr.append('get_new_step_size')

            def determine_restart(self, controller, S, **kw):
                tr.append('determine_restart')

            def check_iteration_status(self, controller, S, **kw):
                tr.append('check_iteration_status')

        t = T()
        st = State(tr=tr)
        st.call = lambda: t.convergence_control(None, None)
        return st

    def post(self, st, old, result, exc):
        yield 'proposal_then_restart_decision_then_iteration_status', exc is None and st.tr == ['get_new_step_size', 'determine_restart', 'check_iteration_status']

    def canary(self, st, old, result, exc):
        yield 'canary:restart_first', st.tr[:1] == ['determine_restart']


class ControllerOrdering(_Base):
    """limits are applied after proposals, spreading after limits: the controllers are consulted in ascending
    control_order: Adaptivity(-50) < slope limiter(91) < limiter(92) < restarting(95) < spreading(100) < CheckConvergence(200)"""

    name = 'Controller.add_convergence_controller'
    target = ('pySDC/core/controller.py', 'Controller.add_convergence_controller')
    assumptions = ('numpy.argsort returns a permutation that sorts its argument ascending',)

    def build(self, inst, mk):
        A = cls_of(CCD + 'adaptivity.py', 'Adaptivity')
        c, _ = make_ctrl(mk, 1, conv={A: dict(e_tol=1e-5, dt_min=1e-3, dt_slope_max=2.0)})
        st = State(c=c)
        st.call = lambda: [type(c.convergence_controllers[i]).__name__ for i in c.convergence_controller_order]
        return st

    def post(self, st, old, result, exc):
        c = st.c
        yield 'returns_normally', exc is None
        if exc is not None:
            return
        orders = [c.convergence_controllers[i].params.control_order for i in c.convergence_controller_order]
        yield 'ascending_control_order', orders == sorted(orders)
        yield 'every_controller_once', sorted(c.convergence_controller_order) == list(range(len(c.convergence_controllers))) and len(set(result)) == len(result)
        want = ['Adaptivity', 'StepSizeSlopeLimiter', 'StepSizeLimiter', 'BasicRestartingNonMPI', 'SpreadStepSizesBlockwiseNonMPI', 'CheckConvergence']
        pos = [result.index(w) if w in result else -1 for w in want]
        yield 'proposal_limits_restart_spread_check', all(p >= 0 for p in pos) and pos == sorted(pos)

    def canary(self, st, old, result, exc):
        yield 'canary:limiter_before_adaptivity', result.index('StepSizeLimiter') < result.index('Adaptivity')

class LimitsFromAdaptivityParams(_Base):
    """limits configured on the adaptivity controller itself reach the limiters: for EVERY non-empty subset of the limiter keys passed to Adaptivity
    a StepSizeLimiter is registered whose limits are the given values (absolute limits on StepSizeLimiter, slope limits on the StepSizeSlopeLimiter it
    loads); without any limiter key none is registered"""

    name = 'AdaptivityBase.dependencies [limits]'
    target = (CCD + 'adaptivity.py', 'AdaptivityBase.dependencies')
    coarse_levels = False
    native = False

    KEYS = ('dt_min', 'dt_max', 'dt_slope_min', 'dt_slope_max', 'dt_rel_min_slope')
    VALS = dict(dt_min=1e-3, dt_max=0.5, dt_slope_min=0.25, dt_slope_max=3.0, dt_rel_min_slope=0.125)

    def instances(self, tier):
        import itertools

        subsets = [()] + [c for r in (1, 2, 3, 5) for c in itertools.combinations(self.KEYS, r)]
        if tier == 'quick':
            subsets = [s_ for s_ in subsets if len(s_) <= 1 or len(s_) == 5] + [('dt_min', 'dt_slope_max')]
        return [dict(keys=list(s_)) for s_ in subsets]

    def build(self, inst, mk):
        A = cls_of(CCD + 'adaptivity.py', 'Adaptivity')
        st = State(inst=inst)

        def call():
            c, _ = make_ctrl(mk, 1, conv={A: dict(e_tol=1e-5, **{k: self.VALS[k] for k in inst['keys']})})
            return c

        st.call = call
        return st

    def post(self, st, old, result, exc):
        yield 'returns_normally', exc is None
        if exc is not None:
            return
        keys = st.inst['keys']
        by = {}
        for C in result.convergence_controllers:
            by.setdefault(type(C).__name__, []).append(C)
        lim, slope = by.get('StepSizeLimiter', []), by.get('StepSizeSlopeLimiter', [])
        if not keys:
            yield 'no_limits_no_limiter', not lim and not slope
            return
        yield 'a_limiter_is_registered_for_any_configured_limit', len(lim) == 1
        if len(lim) != 1:
            return
        for k in keys:
            holder = lim[0] if k in ('dt_min', 'dt_max') else (slope[0] if len(slope) == 1 else None)
            yield f'{k}:reaches_the_limiter', holder is not None and holder.params.get(k) == self.VALS[k]

    def canary(self, st, old, result, exc):
        yield 'canary:never_a_limiter', not any(type(C).__name__ == 'StepSizeLimiter' for C in result.convergence_controllers) and bool(st.inst['keys'])



CONTRACTS = [LimitsFromAdaptivityParams, DetermineRestart, RestartBookkeeping, SpreadStepSizes, OptimalStepSize, NewStepSize, AdaptivityRestart,
             Limiter, SlopeLimiter, ConvergenceControlOrder, ControllerOrdering]


# ------------------------------------------------------------------------------------------- lemmas
def lemma_retry_smaller(tier, seed):
    r"""a rejected step (e_est >= e_tol > 0) gets a proposal strictly smaller than dt when 0 < beta < 1:
    beta*dt*pow(e_tol/e_est, 1/order) < dt, given the monotonicity axiom 0 < x <= 1 /\ p > 0 => 0 < pow(x,p) <= 1 (assumed);
    and the retry counter argument: with the bookkeeping contract a step failing at slot 0 increases its counter by one
    per attempt, so after max_restarts attempts determine_restart raises or moves on (DetermineRestart.budget clause)."""
    beta, dt, tol, est, p = z3.Reals('beta dt tol est p')
    POW = z3.Function('pow', z3.RealSort(), z3.RealSort(), z3.RealSort())
    x = tol / est
    ax = z3.Implies(z3.And(x > 0, x <= 1, p > 0), z3.And(POW(x, p) > 0, POW(x, p) <= 1))
    obs = [Obligation('rejected_step_gets_smaller_proposal', [ax, beta > 0, beta < 1, dt > 0, tol > 0, est >= tol, p > 0], beta * dt * POW(x, p) < dt, 'lemma')]
    cnt, mx, k = z3.Ints('count max_restarts k')
    obs.append(Obligation('budget_reached_after_max_restarts_attempts', [cnt == 0, mx >= 0, k >= mx], cnt + k >= mx, 'lemma'))
    res = []
    for ob in obs:
        d = discharge(ob).as_dict()
        d['path'] = 0
        res.append(d)
    return dict(contract='lemma:retry', prop='C09', inst={}, label='proved', kind='lemma', obligations=res, canaries=[], paths=1, status='ok')


EXTRAS = [lemma_retry_smaller]
ASSUMPTIONS = ['pow monotonicity axiom (0 < x <= 1, p > 0 => 0 < pow(x,p) <= 1) in lemma:retry',
               'truth of the error estimators (embedded / polynomial / extrapolation) is numerical analysis, not a contract: only their bookkeeping is used']
UNDECIDED = ['MPI flavours (BasicRestartingMPI, SpreadStepSizesBlockwiseMPI): not under contract (mpi4py absent); see C08 not_applicable',
             'AdaptivityForConvergedCollocationProblems / AdaptivityCollocation / AdaptivityResidual / avoid_restarts branch: not under contract',
             'StepSizeRounding: not under contract (log10 / floor of reals)']
