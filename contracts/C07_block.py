r"""
C07 -- the block protocol is safe for every convergence pattern of the time-parallel steps
(+ the it_check clauses of C03: residual after receive, iteration counter, niter).

Every stage function of the REAL controller_nonMPI gets the Hoare triple {Inv /\ stage = X} f {Inv /\ stage = next(X)}
from an ARBITRARY state satisfying the block invariant Inv (symbolic iteration number, symbolic convergence decisions
from the ArbitraryCC stub, any number of already finished predecessor steps): one discharged instance covers every
history that leads to such a state. Callees (sweeper methods, send_full/recv_full, hooks, convergence controllers) are
replaced by their contracts (contracts/ctrl.py); send_full / recv_full / pfasst / restart_block have their own contracts.
"""

from vc import sym
from vc.sym import And, Or, Not, Implies, Iff
from vc.vec import Vec
from vc.contract import Contract, State, veq, seq, snapshot, frame_clauses
from contracts.common import cp
from contracts import ctrl

CTRL = 'pySDC/implementations/controller_classes/controller_nonMPI.py'
GRAMMAR = ('pre_step', 'pre_predict', 'post_predict', 'pre_iteration', 'pre_sweep', 'post_sweep', 'post_iteration', 'post_step')


def setup_block(mk, inst, stage, flags=('done',), stub_comm=True, M=1):
    """arbitrary block state satisfying Inv at the entry of `stage`"""
    n, d, nl = inst['n'], inst.get('d', 0), inst.get('nlevels', 1)
    cparams = dict(all_to_done=inst.get('all_to_done', False), mssdc_jac=inst.get('mssdc_jac', True),
                   predict_type=inst.get('predict_type'))
    lp = dict(nsweeps=inst.get('nsweeps', [1] * nl) if nl > 1 else inst.get('nsweeps', [1])[0])
    # `spare`: the controller owns more steps than the block uses (a short final block): the block is the first n steps, its last step is
    # NOT the controller's last one
    spare = inst.get('spare', 0)
    c, trace = ctrl.make_controller(mk, n + spare, nlevels=nl, cparams=cparams, M=M, level_params=lp)
    fresh = ctrl.Fresh(mk)
    cc = ctrl.install_arbitrary_cc(c, trace, fresh, flags)
    if stub_comm:
        ctrl.stub_comm(c, trace, fresh)
    k = mk.int('iter')
    mk.assume(k >= 0, 'iter>=0')
    if stage in ('SPREAD', 'PREDICT'):
        k = 0
    elif stage != 'IT_CHECK':
        mk.assume(k >= 1, 'iter>=1 inside an iteration')
    for q, T in enumerate(c.MS[n:], start=n):  # never-activated steps of the controller: stale, finished, outside the block
        T.status.slot, T.status.first, T.status.last, T.status.done, T.status.stage = q, False, False, True, 'DONE'
        T.prev = c.MS[q - 1]
    MS = c.MS[:n]
    for p, S in enumerate(MS):
        S.status.slot = p
        S.prev = MS[p - 1]
        S.status.first = p == 0
        S.status.last = p == n - 1
        S.status.time_size = n
        S.status.force_done = False
        S.status.restart = False
        S.status.pred_cnt = None
        for l, L in enumerate(S.levels):
            ctrl.stub_sweeper(L, p, l, trace, fresh)
            Ml = L.sweep.coll.num_nodes
            L.status.time = mk.real(f't{p}')
            L.status.sweep = mk.int(f'sweep[{p},{l}]')  # whatever the last stage left behind
            L.tag = None
            has_nodes = not (stage == 'SPREAD' and p >= d) and (l == 0 or stage not in ('SPREAD', 'PREDICT', 'IT_CHECK') or p < d)
            if l == 0 or has_nodes:
                L.u[0] = mk.vec(f'u[{p},{l},0]')
            if has_nodes:
                L.f[0] = mk.vec(f'f[{p},{l},0]', 'f')
                for m in range(1, Ml + 1):
                    L.u[m] = mk.vec(f'u[{p},{l},{m}]')
                    L.f[m] = mk.vec(f'f[{p},{l},{m}]', 'f')
                L.status.unlocked = True
                # `updated` is set by sweeps / predict and cleared by compute_residual: either value occurs at a stage entry
                L.status.updated = mk.bool(f'updated[{p},{l}]')
                L.status.residual = mk.real(f'res[{p},{l}]')
        if p < d:
            S.status.stage = 'DONE'
            S.status.done = True
            S.status.prev_done = (p > 0)
            S.status.iter = mk.int(f'iter_done{p}')
            S.levels[0].uend = mk.vec(f'uend[{p},0]')
            S.levels[0].tag = (0, S.status.iter, p)
        else:
            S.status.stage = stage
            S.status.done = False
            S.status.prev_done = (p == d and d > 0)
            S.status.iter = k
    running = MS[d:]
    trace.clear()
    return State(c=c, MS=MS, running=running, trace=trace, cc=cc, k=k, inst=inst, fresh=fresh, n=n, d=d, nl=nl)


def events_of(trace, p):
    return [e for e in trace if len(e) > 2 and e[0] != 'recv' and ((e[0] in ('hook', 'cc') and e[2] == p) or (e[0] not in ('hook', 'cc') and e[1] == p))]


def hooks_of(trace, p, alphabet=GRAMMAR):
    return [e[1] for e in trace if e[0] == 'hook' and e[2] == p and e[1] in alphabet]


def idx(trace, e):
    return [i for i, x in enumerate(trace) if x == e]


def block_instances(tier, multilevel=False):
    out = []
    nmax = 3 if tier == 'quick' else 4
    for n in range(1, nmax + 1):
        for d in range(0, n):
            out.append(dict(n=n, d=d))
    # short final blocks: the controller owns more steps than the block uses
    out += [dict(n=1, d=0, spare=2), dict(n=2, d=0, spare=1), dict(n=2, d=1, spare=1)]
    return out


class StageContract(Contract):
    prop = 'C07'
    label = 'instance-proved'
    native = True
    stage = None
    stubs = ('sweeper.compute_residual/compute_end_point/update_nodes/predict [C02/C03 contracts as trace+frame stubs]',
             'controller.send_full / recv_full [contracts proved in this file on the real functions]',
             'ConvergenceController.convergence_control [ARBITRARY: sets done to any value]',
             'Hooks callbacks [recording subclass of the real Hooks]')

    def snapshot(self, st):
        st.old_iter = [S.status.iter for S in st.MS]
        return snapshot({f'S{p}': S for p, S in enumerate(st.MS)})

    def done_frame(self, st, old):
        """(iv) a finished step is never changed again"""
        new = snapshot({f'S{p}': S for p, S in enumerate(st.MS)})
        st.new_snap = new
        for p in range(st.d):
            o = {k: v for k, v in old.items() if k.startswith(f'S{p}.')}
            yield from frame_clauses(o, new, frame=[], prefix='finished_step_untouched')

    def running_frame(self, st, old, frame_of):
        new = st.new_snap
        for p in range(st.d, st.n):
            o = {k: v for k, v in old.items() if k.startswith(f'S{p}.')}
            yield from frame_clauses(o, new, frame=[f'S{p}.{x}' for x in frame_of(p)], prefix='frame')

    def same_stage(self, st, expect):
        for S in st.running:
            yield f'stage[{S.status.slot}]', S.status.stage == expect(S)


# ------------------------------------------------------------------------------------------------------ it_check
class ItCheck(StageContract):
    name = 'controller_nonMPI.it_check'
    target = (CTRL, 'controller_nonMPI.it_check')

    def instances(self, tier):
        out = []
        for i in block_instances(tier):
            for nl in (1, 2):
                for jac in (True, False):
                    if nl == 2 and not jac:
                        continue
                    out.append(dict(i, nlevels=nl, mssdc_jac=jac, all_to_done=False))
            if i['d'] == 0:
                out.append(dict(i, nlevels=1, mssdc_jac=True, all_to_done=True))
        return out

    def build(self, inst, mk):
        st = setup_block(mk, inst, 'IT_CHECK', flags=('done', 'force_done', 'restart'))
        st.call = lambda: st.c.it_check(st.running)
        return st

    def expected_done(self, st):
        """done'_j as the property states it"""
        conv = [st.cc.conv.get(('done', S.status.slot)) for S in st.running]
        if any(c is None for c in conv):
            return None
        if st.inst.get('all_to_done'):
            allc = And(*conv)
            return [allc for _ in conv]
        out = []
        for j, S in enumerate(st.running):
            if S.status.first or j == 0:
                out.append(conv[j])  # block-first, or predecessor already finished
            else:
                out.append(And(conv[j], out[j - 1]))
        return out

    def post(self, st, old, result, exc):
        c, tr, run, k = st.c, st.trace, st.running, st.k
        yield 'returns_normally', exc is None
        if exc is not None:
            return
        exp = self.expected_done(st)
        yield 'convergence_control_called_for_every_running_step', exp is not None
        if exp is None:
            return
        last_res = -1
        for j, S in enumerate(run):
            p = S.status.slot
            a, b, r = idx(tr, ('send_full', p, 0)), idx(tr, ('recv_full', p, 0)), idx(tr, ('compute_residual', p, 0, 'IT_CHECK'))
            ok = len(a) == 1 and len(b) == 1 and len(r) == 1
            yield f'C03:residual_after_send_and_receive[{p}]', ok and a[0] < b[0] < r[0]
            if ok:
                last_res = max(last_res, r[0])
        for j, S in enumerate(run):
            p = S.status.slot
            ccs = idx(tr, ('cc', 'convergence_control', p))
            yield f'decision_after_all_residuals[{p}]', len(ccs) == 1 and ccs[0] > last_res
            # nothing touches node values or the residual between its computation and the decision
            d_new = S.status.done
            yield f'done_formula[{p}]', Iff(d_new, exp[j])
            if j > 0:
                yield f'prefix_closed[{p}]', Implies(d_new, run[j - 1].status.done)
                yield f'prev_done_is_predecessors_done[{p}]', Iff(S.status.prev_done, run[j - 1].status.done)
            isdone = bool(d_new) if not isinstance(d_new, bool) else d_new
            kpos = bool(k > 0)
            yield f'C03:iter_increment_iff_not_done[{p}]', seq(S.status.iter, k if isdone else k + 1)
            want_hooks = (['post_iteration'] if kpos else []) + (['post_step'] if isdone else ['pre_iteration'])
            yield f'hooks_grammar[{p}]', hooks_of(tr, p) == want_hooks
            if isdone:
                yield f'stage_done[{p}]', S.status.stage == 'DONE'
                ce = idx(tr, ('compute_end_point', p, 0))
                ps = idx(tr, ('hook', 'post_step', p, 0))
                yield f'end_point_before_post_step[{p}]', len(ps) == 1 and any(ccs[0] < i < ps[0] for i in ce) if ccs else False
            else:
                if st.nl > 1:
                    want = 'IT_DOWN'
                elif len(run) == 1 or st.inst.get('mssdc_jac', True):
                    want = 'IT_FINE'
                else:
                    want = 'IT_COARSE'
                yield f'stage_next[{p}]', S.status.stage == want
                yield f'pre_iteration_processing[{p}]', len(idx(tr, ('cc', 'pre_iteration_processing', p))) == 1
            if kpos:
                pi, cci = idx(tr, ('hook', 'post_iteration', p, 0)), ccs
                yield f'post_iteration_before_decision[{p}]', len(pi) == 1 and cci and pi[0] < cci[0]
        if st.inst.get('all_to_done'):
            for S in run[1:]:
                yield f'all_to_done:same_decision[{S.status.slot}]', Iff(S.status.done, run[0].status.done)
        yield 'buffers_reset_at_end', bool(tr) and tr[-1] == ('cc', 'reset_buffers_nonMPI', None)
        yield from self.done_frame(st, old)
        yield from self.running_frame(st, old, lambda p: ['levels[0].u[0]', 'levels[0].f[0]', 'levels[0].uend', 'levels[0].tag',
                                                          'levels[0].status.residual', 'levels[0].status.updated',
                                                          'status.done', 'status.prev_done', 'status.iter', 'status.stage',
                                                          'status.force_continue', 'status.force_done', 'status.restart'])

    def canary(self, st, old, result, exc):
        run = st.running
        if exc is not None or len(run) < 2 or st.inst.get('all_to_done'):
            if exc is None and len(run) == 1:
                yield 'canary:never_done', Not(run[0].status.done)
            return
        conv = [st.cc.conv.get(('done', S.status.slot)) for S in run]
        yield 'canary:done_ignores_predecessor', Iff(run[1].status.done, conv[1])


def stub_transfer(st):
    """Step.transfer replaced by a trace stub (the real restrict/prolong are verified under C10)"""
    for S in st.MS:
        def tr(source, target, S=S):
            si, ti = S.levels.index(source), S.levels.index(target)
            st.trace.append(('transfer', S.status.slot, si, ti))
            ctrl.oblige(f'pre[transfer]:adjacent_levels[{S.status.slot}]', abs(si - ti) == 1)
            if ti > si:  # restrict: coarse level gets node values, tau, is unlocked
                Mt = target.sweep.coll.num_nodes
                for m in range(Mt + 1):
                    target.u[m] = st.fresh.vec(f'u[{S.status.slot},{ti},{m}]')
                    target.f[m] = st.fresh.vec(f'f[{S.status.slot},{ti},{m}]', 'f')
                    target.uold[m] = cp(target.u[m])
                    target.fold[m] = cp(target.f[m])
                for m in range(Mt):
                    target.tau[m] = st.fresh.vec(f'tau[{S.status.slot},{ti},{m}]')
                target.status.unlocked = True
            else:  # prolong: fine node values 1.. and f change
                Mt = target.sweep.coll.num_nodes
                for m in range(1, Mt + 1):
                    target.u[m] = st.fresh.vec(f'u[{S.status.slot},{ti},{m}]')
                for m in range(0, Mt + 1):
                    target.f[m] = st.fresh.vec(f'f[{S.status.slot},{ti},{m}]', 'f')
        S.transfer = tr


def level_frame(l, extra=()):
    return [f'levels[{l}].u', f'levels[{l}].f', f'levels[{l}].uend', f'levels[{l}].tag', f'levels[{l}].status.residual',
            f'levels[{l}].status.updated'] + list(extra)


def sweep_order(tr, p, l, stage, after=-1):
    """indices of (update_nodes, compute_residual) for step p level l occurring after index `after`"""
    u = [i for i in idx(tr, ('update_nodes', p, l)) if i > after]
    r = [i for i in idx(tr, ('compute_residual', p, l, stage)) if i > after]
    return u, r


# ------------------------------------------------------------------------------------------------------ it_fine
class ItFine(StageContract):
    name = 'controller_nonMPI.it_fine'
    target = (CTRL, 'controller_nonMPI.it_fine')

    def instances(self, tier):
        out = []
        for i in block_instances(tier):
            for ns in (1, 2):
                out.append(dict(i, nlevels=1, nsweeps=[ns]))
        out.append(dict(n=2, d=0, nlevels=2, nsweeps=[2, 1]))
        return out

    def build(self, inst, mk):
        st = setup_block(mk, inst, 'IT_FINE')
        st.call = lambda: st.c.it_fine(st.running)
        return st

    def post(self, st, old, result, exc):
        tr, run = st.trace, st.running
        ns = st.inst['nsweeps'][0]
        yield 'returns_normally', exc is None
        if exc is not None:
            return
        for S in run:
            p = S.status.slot
            a, b = idx(tr, ('send_full', p, 0)), idx(tr, ('recv_full', p, 0))
            u, r = sweep_order(tr, p, 0, 'IT_FINE')
            v = [i for i, e in enumerate(tr) if e[:3] == ('updateVariableCoeffs', p, 0)]
            ok = len(a) == len(b) == len(u) == len(r) == len(v) == ns
            yield f'one_send_recv_sweep_residual_per_sweep[{p}]', ok
            if ok:
                yield f'order_send_recv_coeffs_sweep_residual[{p}]', all(a[k] < b[k] < v[k] < u[k] < r[k] for k in range(ns)) and all(r[k] < a[k + 1] for k in range(ns - 1))
                yield f'variable_coefficients_refreshed_with_sweep_index[{p}]', [tr[i][3] for i in v] == list(range(1, ns + 1))
            yield f'hooks_grammar[{p}]', hooks_of(tr, p) == ['pre_sweep', 'post_sweep'] * ns
            yield f'stage_next[{p}]', S.status.stage == 'IT_CHECK'
            yield f'sweep_counter[{p}]', S.levels[0].status.sweep == ns
        yield from self.done_frame(st, old)
        yield from self.running_frame(st, old, lambda p: level_frame(0, ['levels[0].status.sweep']) + ['status.stage'])

    def canary(self, st, old, result, exc):
        yield 'canary:iter_incremented', seq(st.running[0].status.iter, st.k + 1)


# ------------------------------------------------------------------------------------------------------ it_coarse
class ItCoarse(StageContract):
    name = 'controller_nonMPI.it_coarse'
    target = (CTRL, 'controller_nonMPI.it_coarse')

    def instances(self, tier):
        out = []
        for i in block_instances(tier):
            out.append(dict(i, nlevels=1, mssdc_jac=False))
            out.append(dict(i, nlevels=2))
            # the coarsest level is neither level 0 nor level 1 only from three levels on
            if i['n'] <= 2:
                out.append(dict(i, nlevels=3, nsweeps=[1, 2, 1]))
        out.append(dict(n=2, d=0, nlevels=4, nsweeps=[1, 2, 1, 1]))
        out.append(dict(n=2, d=1, nlevels=5, nsweeps=[1, 1, 2, 3, 1]))
        return out

    def build(self, inst, mk):
        st = setup_block(mk, inst, 'IT_COARSE')
        st.call = lambda: st.c.it_coarse(st.running)
        return st

    def post(self, st, old, result, exc):
        tr, run, lc = st.trace, st.running, st.nl - 1
        yield 'returns_normally', exc is None
        if exc is not None:
            return
        prev_send = -1
        for S in run:
            p = S.status.slot
            a, b = idx(tr, ('send_full', p, lc)), idx(tr, ('recv_full', p, lc))
            u, r = sweep_order(tr, p, lc, 'IT_COARSE')
            ok = len(a) == len(b) == len(u) == len(r) == 1
            yield f'recv_sweep_residual_send_once[{p}]', ok
            if ok:
                yield f'order_recv_sweep_residual_send[{p}]', b[0] < u[0] < r[0] < a[0]
                yield f'gauss_seidel:receive_after_predecessor_sent[{p}]', b[0] > prev_send
                prev_send = a[0]
            yield f'hooks_grammar[{p}]', hooks_of(tr, p) == ['pre_sweep', 'post_sweep']
            yield f'stage_next[{p}]', S.status.stage == ('IT_UP' if st.nl > 1 else 'IT_CHECK')
        yield from self.done_frame(st, old)
        yield from self.running_frame(st, old, lambda p: level_frame(lc) + ['status.stage'])

    def canary(self, st, old, result, exc):
        yield 'canary:stage_unchanged', st.running[0].status.stage == 'IT_COARSE'


# ------------------------------------------------------------------------------------------------------ it_down / it_up
class ItDown(StageContract):
    name = 'controller_nonMPI.it_down'
    target = (CTRL, 'controller_nonMPI.it_down')
    stubs = StageContract.stubs + ('Step.transfer [C10 contracts of restrict/prolong as trace+frame stub]',)

    def instances(self, tier):
        out = []
        for n in (1, 2) if tier == 'quick' else (1, 2, 3):
            for d in range(n):
                out.append(dict(n=n, d=d, nlevels=2, nsweeps=[1, 1]))
                out.append(dict(n=n, d=d, nlevels=3, nsweeps=[1, 2, 1]))
        # two and three middle levels: level indices other than 1 occur only here
        out.append(dict(n=2, d=0, nlevels=4, nsweeps=[1, 2, 1, 1]))
        out.append(dict(n=1, d=0, nlevels=5, nsweeps=[1, 1, 2, 3, 1]))
        return out

    def build(self, inst, mk):
        st = setup_block(mk, inst, 'IT_DOWN')
        stub_transfer(st)
        st.call = lambda: st.c.it_down(st.running)
        return st

    def post(self, st, old, result, exc):
        tr, run, nl = st.trace, st.running, st.nl
        yield 'returns_normally', exc is None
        if exc is not None:
            return
        for S in run:
            p = S.status.slot
            last = -1
            for l in range(nl - 1):
                t = idx(tr, ('transfer', p, l, l + 1))
                yield f'restrict_once[{p},{l}->{l + 1}]', len(t) == 1 and t[0] > last
                if l >= 1:
                    ns = st.inst['nsweeps'][l]
                    u, r = sweep_order(tr, p, l, 'IT_DOWN')
                    a, b = idx(tr, ('send_full', p, l)), idx(tr, ('recv_full', p, l))
                    ok = len(u) == len(r) == len(a) == len(b) == ns
                    yield f'mid_level_sweeps[{p},{l}]', ok
                    if ok and t:
                        tprev = idx(tr, ('transfer', p, l - 1, l))
                        yield f'mid_level_order[{p},{l}]', all(a[k] < b[k] < u[k] < r[k] for k in range(ns)) and tprev[0] < a[0] and r[-1] < t[0]
                if t:
                    last = t[0]
            yield f'no_sweep_on_finest_or_coarsest[{p}]', not idx(tr, ('update_nodes', p, 0)) and not idx(tr, ('update_nodes', p, nl - 1))
            yield f'hooks_grammar[{p}]', hooks_of(tr, p) == ['pre_sweep', 'post_sweep'] * sum(st.inst['nsweeps'][1:nl - 1])
            yield f'stage_next[{p}]', S.status.stage == 'IT_COARSE'
        yield from self.done_frame(st, old)
        yield from self.running_frame(st, old, lambda p: sum([level_frame(l, [f'levels[{l}].uold', f'levels[{l}].fold', f'levels[{l}].tau', f'levels[{l}].status.unlocked']) for l in range(1, nl)], []) + ['status.stage', 'transfer'])

    def canary(self, st, old, result, exc):
        yield 'canary:fine_level_swept', bool(idx(st.trace, ('update_nodes', st.running[0].status.slot, 0)))


class ItUp(StageContract):
    name = 'controller_nonMPI.it_up'
    target = (CTRL, 'controller_nonMPI.it_up')
    stubs = ItDown.stubs

    def instances(self, tier):
        return ItDown.instances(self, tier)

    def build(self, inst, mk):
        st = setup_block(mk, inst, 'IT_UP')
        stub_transfer(st)
        st.call = lambda: st.c.it_up(st.running)
        return st

    def post(self, st, old, result, exc):
        tr, run, nl = st.trace, st.running, st.nl
        yield 'returns_normally', exc is None
        if exc is not None:
            return
        for S in run:
            p = S.status.slot
            last = -1
            for l in range(nl - 1, 0, -1):
                t = idx(tr, ('transfer', p, l, l - 1))
                yield f'prolong_once[{p},{l}->{l - 1}]', len(t) == 1 and t[0] > last
                if t:
                    last = t[0]
                if l - 1 > 0:
                    ns = st.inst['nsweeps'][l - 1]
                    u, r = sweep_order(tr, p, l - 1, 'IT_UP')
                    a, b = idx(tr, ('send_full', p, l - 1)), idx(tr, ('recv_full', p, l - 1))
                    ok = len(u) == len(r) == len(a) == len(b) == ns
                    yield f'mid_level_sweeps[{p},{l - 1}]', ok
                    if ok and t:
                        yield f'mid_level_order[{p},{l - 1}]', all(a[k] < b[k] < u[k] < r[k] for k in range(ns)) and t[0] < a[0]
                        last = max(last, r[-1])
            yield f'no_sweep_on_finest_or_coarsest[{p}]', not idx(tr, ('update_nodes', p, 0)) and not idx(tr, ('update_nodes', p, nl - 1))
            yield f'stage_next[{p}]', S.status.stage == 'IT_FINE'
        yield from self.done_frame(st, old)
        yield from self.running_frame(st, old, lambda p: sum([level_frame(l) for l in range(0, nl - 1)], []) + ['status.stage', 'transfer'])

    def canary(self, st, old, result, exc):
        yield 'canary:stage_check', st.running[0].status.stage == 'IT_CHECK'


# ------------------------------------------------------------------------------------------------------ spread / predict
class Spread(StageContract):
    name = 'controller_nonMPI.spread'
    target = (CTRL, 'controller_nonMPI.spread')

    def instances(self, tier):
        return [dict(n=n, d=0, nlevels=nl) for n in ((1, 2, 3) if tier == 'quick' else (1, 2, 3, 4)) for nl in (1, 2)]

    def build(self, inst, mk):
        st = setup_block(mk, inst, 'SPREAD')
        st.call = lambda: st.c.spread(st.running)
        return st

    def post(self, st, old, result, exc):
        tr, run = st.trace, st.running
        yield 'returns_normally', exc is None
        if exc is not None:
            return
        for S in run:
            p = S.status.slot
            h, pr, ps = idx(tr, ('hook', 'pre_step', p, 0)), idx(tr, ('predict', p, 0)), idx(tr, ('cc', 'post_spread_processing', p))
            yield f'pre_step_then_predict_then_processing[{p}]', len(h) == len(pr) == len(ps) == 1 and h[0] < pr[0] < ps[0]
            yield f'hooks_grammar[{p}]', hooks_of(tr, p) == ['pre_step']
            yield f'stage_next[{p}]', S.status.stage == ('PREDICT' if st.nl > 1 else 'IT_CHECK')
        yield from self.running_frame_spread(st, old)

    def running_frame_spread(self, st, old):
        st.new_snap = snapshot({f'S{p}': S for p, S in enumerate(st.MS)})
        yield from self.running_frame(st, old, lambda p: ['levels[0].u', 'levels[0].f', 'levels[0].status.unlocked', 'levels[0].status.updated', 'status.stage'])

    def canary(self, st, old, result, exc):
        yield 'canary:iter_one', seq(st.running[0].status.iter, 1)


UNKNOWN_PREDICTORS = ('pfasst', 'burnin', 'pfasst_burn', 'fasst_burnin', '', 'fine', 'only', 'fine_onl', 'PFASST_BURNIN', 'Fine_only', 'pfasst_burnin ', 'fine-only', 'libpfasst_style')


class Predict(StageContract):
    name = 'controller_nonMPI.predict'
    target = (CTRL, 'controller_nonMPI.predict')
    stubs = ItDown.stubs
    from pySDC.core.errors import ControllerError

    expected_exceptions = (Exception,)

    def instances(self, tier):
        out = []
        for n in (1, 2, 3) if tier == 'quick' else (1, 2, 3, 4):
            for pt in (None, 'fine_only', 'pfasst_burnin', 'fmg', 'bogus'):
                for nl in (2, 3):
                    if nl == 3 and (n > 2 or pt not in ('pfasst_burnin',)):
                        continue
                    out.append(dict(n=n, d=0, nlevels=nl, predict_type=pt, nsweeps=[1] * nl))
        # unknown predictor names of every shape (fragments, other case, near misses of the valid names) are rejected at first use
        out += [dict(n=1, d=0, nlevels=2, predict_type=pt, nsweeps=[1, 1]) for pt in UNKNOWN_PREDICTORS]
        return out

    def build(self, inst, mk):
        st = setup_block(mk, inst, 'PREDICT')
        stub_transfer(st)
        st.call = lambda: st.c.predict(st.running)
        return st

    def post(self, st, old, result, exc):
        tr, run, nl, pt = st.trace, st.running, st.nl, st.inst['predict_type']
        if pt == 'fmg':
            yield 'fmg_not_implemented', isinstance(exc, NotImplementedError)
            return
        if pt == 'bogus' or pt in UNKNOWN_PREDICTORS:
            yield 'unknown_predictor_rejected', exc is not None  # any error class; silently running some predictor (or none) is the failure
            return
        yield 'returns_normally', exc is None
        if exc is not None:
            return
        n = len(run)
        for q, S in enumerate(run):
            p = S.status.slot
            yield f'hooks_grammar[{p}]', hooks_of(tr, p) == ['pre_predict', 'post_predict']
            yield f'stage_next[{p}]', S.status.stage == 'IT_CHECK'
            uf = idx(tr, ('update_nodes', p, 0))
            uc = idx(tr, ('update_nodes', p, nl - 1))
            if pt is None:
                yield f'no_sweeps[{p}]', not uf and not uc
            elif pt == 'fine_only':
                yield f'one_fine_sweep[{p}]', len(uf) == 1 and not uc
            else:
                # burn-in: step q sweeps q+1 times on the coarsest level, receives q times, then one fine sweep at the end
                rc = idx(tr, ('recv_full', p, nl - 1))
                yield f'burnin:coarse_sweeps[{p}]', len(uc) == q + 1
                yield f'burnin:coarse_receives[{p}]', len(rc) == q
                dn = [idx(tr, ('transfer', p, l, l + 1)) for l in range(nl - 1)]
                up = [idx(tr, ('transfer', p, l, l - 1)) for l in range(nl - 1, 0, -1)]
                ok = all(len(x) == 1 for x in dn + up) and len(uf) == 1
                yield f'burnin:restrict_all_then_prolong_all_then_fine_sweep[{p}]', ok and max(x[0] for x in dn) < uc[0] and uc[-1] < min(x[0] for x in up) and max(x[0] for x in up) < uf[0]
        yield from self.running_frame_all(st, old)

    def running_frame_all(self, st, old):
        st.new_snap = snapshot({f'S{p}': S for p, S in enumerate(st.MS)})
        nl = st.nl
        yield from self.running_frame(st, old, lambda p: sum([level_frame(l, [f'levels[{l}].uold', f'levels[{l}].fold', f'levels[{l}].tau', f'levels[{l}].status.unlocked']) for l in range(nl)], []) + ['status.stage', 'transfer'])

    def canary(self, st, old, result, exc):
        if exc is None:
            yield 'canary:stage_fine', st.running[0].status.stage == 'IT_FINE'
        else:
            yield 'canary:no_exception', False


# ------------------------------------------------------------------------------------------------------ send / recv
class SendFull(StageContract):
    """send_full(S, l): unless S is the last step of the block, the level's end value is recomputed and the level is
    tagged (l, iter, slot); nothing else changes. Comm hooks bracket the operation."""

    name = 'controller_nonMPI.send_full'
    target = (CTRL, 'controller_nonMPI.send_full')
    stubs = ('sweeper.compute_end_point [C02 contract as trace+frame stub]', 'Hooks callbacks [recording subclass]')

    def instances(self, tier):
        out = [dict(n=2, d=0, nlevels=2, who=w, level=l) for w in (0, 1) for l in (0, 1)]
        # short final block: the block's last step is not the controller's last step (and still sends nothing: nobody would receive it)
        out += [dict(n=2, d=0, nlevels=2, who=w, level=l, spare=s) for w in (0, 1) for l in (0, 1) for s in (1, 2)]
        out += [dict(n=1, d=0, nlevels=1, who=0, level=0, spare=2)]
        return out

    def build(self, inst, mk):
        st = setup_block(mk, inst, 'IT_FINE', stub_comm=False)
        S = st.MS[inst['who']]
        S.levels[inst['level']].tag = (7, mk.int('oldtag_iter'), 9)
        st.S = S
        st.call = lambda: st.c.send_full(S, level=inst['level'], add_to_stats=True)
        return st

    def post(self, st, old, result, exc):
        S, l, tr = st.S, st.inst['level'], st.trace
        p = S.status.slot
        yield 'returns_normally', exc is None
        if exc is not None:
            return
        L = S.levels[l]
        if S.status.last:
            yield 'last_step_sends_nothing', not idx(tr, ('compute_end_point', p, l))
            frame = []
        else:
            yield 'end_point_recomputed_once', len(idx(tr, ('compute_end_point', p, l))) == 1
            t = L.tag
            yield 'tag_is_level_iter_slot', isinstance(t, tuple) and len(t) == 3 and t[0] == l and t[2] == p
            if isinstance(t, tuple) and len(t) == 3:
                yield 'tag_iter', seq(t[1], S.status.iter)
            frame = [f'S{p}.levels[{l}].uend', f'S{p}.levels[{l}].tag']
        yield 'comm_hooks_bracket', [e[1] for e in tr if e[0] == 'hook'] == ['pre_comm', 'post_comm']
        new = snapshot({f'S{q}': T for q, T in enumerate(st.MS)})
        yield from frame_clauses(old, new, frame=frame)

    def canary(self, st, old, result, exc):
        if not st.S.status.last:
            yield 'canary:tag_untouched', st.S.levels[st.inst['level']].tag[0] == 7


class RecvFull(StageContract):
    """recv_full(S, l): if the predecessor is not finished and S is not first, the predecessor's tag must equal
    (l, S.iter, prev.slot) -- otherwise CommunicationError -- and then u[0] becomes a COPY of the predecessor's uend and
    f[0] = F(u[0], time). Otherwise nothing is received."""

    name = 'controller_nonMPI.recv_full'
    target = (CTRL, 'controller_nonMPI.recv_full')
    stubs = ('Problem.eval_f [C12 contract]', 'Hooks callbacks [recording subclass]')
    from pySDC.core.errors import CommunicationError

    expected_exceptions = (CommunicationError,)

    def instances(self, tier):
        out = [dict(n=2, d=0, nlevels=2, who=w, level=l, tagslot=ts, taglevel=tl) for w in (0, 1) for l in (0, 1)
               for ts in (0, 1) for tl in (0, 1)]
        # single level, both coupling modes; the receive never depends on the sweep counter (it is also what it_check uses after the last of several sweeps)
        out += [dict(n=2, d=0, nlevels=1, who=w, level=0, tagslot=ts, taglevel=0, mssdc_jac=jac) for w in (0, 1) for ts in (0, 1) for jac in (True, False)]
        return out

    def build(self, inst, mk):
        st = setup_block(mk, inst, 'IT_FINE', stub_comm=False)
        S = st.MS[inst['who']]
        l = inst['level']
        for T in st.MS:
            for Lv in T.levels:
                Lv.status.sweep = mk.int(f'sweep[{T.status.slot},{Lv.level_index}]')
        S.status.prev_done = mk.bool('prev_done')
        st.tag_iter = mk.int('tag_iter')
        S.prev.levels[l].tag = (inst['taglevel'], st.tag_iter, inst['tagslot'])
        S.prev.levels[l].uend = mk.vec('prev_uend')
        S.levels[l].u[0] = mk.vec('old_u0')
        S.levels[l].f[0] = mk.vec('old_f0', 'f')
        st.S = S
        st.call = lambda: st.c.recv_full(S, level=l, add_to_stats=False)
        return st

    def post(self, st, old, result, exc):
        S, l, tr, inst = st.S, st.inst['level'], st.trace, st.inst
        p = S.status.slot
        L, P = S.levels[l], S.levels[l].prob
        src = S.prev.levels[l]
        receives = And(Not(S.status.prev_done), not S.status.first)
        tag_ok = And(inst['taglevel'] == l, inst['tagslot'] == S.prev.status.slot, st.tag_iter == S.status.iter)
        yield 'mismatching_tag_raises', Iff(isinstance(exc, self.CommunicationError), And(receives, Not(tag_ok)))
        if exc is not None:
            return
        new = snapshot({f'S{q}': T for q, T in enumerate(st.MS)})
        got = L.u[0] is not old[f'S{p}.levels[{l}].u[0]'] and (old[f'S{p}.levels[{l}].u[0]'][1] != id(L.u[0]))
        yield 'receives_iff_predecessor_running_and_not_first', Iff(got, receives)
        if got:
            yield 'u0_equals_predecessors_uend', veq(L.u[0], src.uend)
            yield 'u0_is_a_copy', L.u[0] is not src.uend
            er = P.find_eval(L.f[0])
            yield 'f0_reevaluated', er is not None and bool(veq(er.u, L.u[0])) is True
            if er is not None:
                yield 'f0_at_step_start_time', seq(er.t, L.status.time)
            frame = [f'S{p}.levels[{l}].u[0]', f'S{p}.levels[{l}].f[0]', f'S{p}.levels[{l}].prob']
        else:
            frame = []
        yield 'comm_hooks_bracket', [e[1] for e in tr if e[0] == 'hook'] == ['pre_comm', 'post_comm']
        yield from frame_clauses(old, new, frame=frame)

    def canary(self, st, old, result, exc):
        if not st.S.status.first and not (st.inst['taglevel'] == st.inst['level'] and st.inst['tagslot'] == 0):
            yield 'canary:never_raises', exc is None


# ------------------------------------------------------------------------------------------------------ pfasst dispatch
STAGES = ('SPREAD', 'PREDICT', 'IT_CHECK', 'IT_FINE', 'IT_DOWN', 'IT_COARSE', 'IT_UP')


class Pfasst(StageContract):
    name = 'controller_nonMPI.pfasst'
    target = (CTRL, 'controller_nonMPI.pfasst')
    stubs = ('the seven stage functions [their contracts above] as trace stubs',)
    from pySDC.core.errors import ControllerError

    expected_exceptions = (ControllerError,)

    def instances(self, tier):
        out = []
        for stg in STAGES + ('BOGUS',):
            out.append(dict(n=3, d=1, stage=stg, odd=None))
            out.append(dict(n=1, d=0, stage=stg, odd=None))
        out.append(dict(n=3, d=1, stage='IT_FINE', odd='IT_CHECK'))
        out.append(dict(n=3, d=0, stage='IT_CHECK', odd='IT_FINE'))
        out.append(dict(n=2, d=0, stage='IT_UP', odd='IT_DOWN'))
        # the controller owns more steps than the block has (short first block / last block): they were never touched (done is None)
        out.append(dict(n=2, d=0, stage='IT_CHECK', odd=None, inactive=1))
        out.append(dict(n=2, d=1, stage='IT_FINE', odd=None, inactive=2))
        out.append(dict(n=1, d=0, stage='IT_CHECK', odd=None, inactive=1))
        return out

    def build(self, inst, mk):
        extra = inst.get('inactive', 0)
        st = setup_block(mk, dict(n=inst['n'] + extra, d=inst['d']), 'IT_CHECK')
        st.inst = inst
        st.active = st.MS[: inst['n']]
        st.running = st.active[inst['d']:]
        for S in st.MS[inst['n']:]:
            S.status.done, S.status.stage, S.status.prev_done, S.status.iter = None, None, None, None
        for S in st.running:
            S.status.stage = inst['stage']
            S.status.done = mk.bool(f'done{S.status.slot}')
        if inst['odd']:
            st.running[-1].status.stage = inst['odd']
        c = st.c
        for stg, fn in zip(STAGES, ('spread', 'predict', 'it_check', 'it_fine', 'it_down', 'it_coarse', 'it_up')):
            setattr(c, fn, (lambda MSr, stg=stg: st.trace.append(('stage', stg, [S.status.slot for S in MSr]))))
        st.call = lambda: c.pfasst(st.active)
        return st

    def post(self, st, old, result, exc):
        inst, tr = st.inst, st.trace
        if inst['odd']:
            yield 'unequal_stages_rejected', isinstance(exc, self.ControllerError) and not tr
            return
        if inst['stage'] == 'BOGUS':
            yield 'unknown_stage_rejected', isinstance(exc, self.ControllerError) and not tr
            return
        yield 'returns_normally', exc is None
        if exc is not None:
            return
        yield 'dispatches_once_to_the_stage_function_with_the_running_steps', tr == [('stage', inst['stage'], [S.status.slot for S in st.running])]
        yield 'returns_all_done_of_the_block', Iff(result, And(*[S.status.done for S in st.active]))
        yield from frame_clauses(old, snapshot({f'S{q}': T for q, T in enumerate(st.MS)}), frame=[])

    def canary(self, st, old, result, exc):
        yield 'canary:no_exception', exc is None and st.inst['stage'] != 'BOGUS' and not st.inst['odd'] and not bool(result) and st.inst['n'] == 7


# ------------------------------------------------------------------------------------------------------ restart_block
class RestartBlock(StageContract):
    """restart_block(active_slots, time, u0): every active step is reset to the block entry state -- this is what makes
    the entry state of the block protocol (and C19's "nothing survives") hold."""

    name = 'controller_nonMPI.restart_block'
    target = (CTRL, 'controller_nonMPI.restart_block')
    stubs = ('ConvergenceController.reset_status_variables [trace stub]',)

    def instances(self, tier):
        out = []
        for n in (1, 2, 3) if tier == 'quick' else (1, 2, 3, 4):
            for a in range(1, n + 1):
                for nl in (1, 2):
                    out.append(dict(n=n, d=0, active=a, nlevels=nl))
        return out

    def build(self, inst, mk):
        st = setup_block(mk, inst, 'IT_UP', stub_comm=False)
        # dirty every field the block protocol relies on
        for S in st.MS:
            S.status.done = mk.bool(f'dirty_done{S.status.slot}')
            S.status.prev_done = mk.bool(f'dirty_pd{S.status.slot}')
            S.status.force_done = mk.bool(f'dirty_fd{S.status.slot}')
            S.status.iter = mk.int(f'dirty_iter{S.status.slot}')
            S.status.slot = 5 + S.status.slot
            S.status.first, S.status.last = False, True
            for l, L in enumerate(S.levels):
                L.tag = (l, 3, 1)
                L.uend = mk.vec(f'dirty_uend{l}')
                L.status.sweep = 4
                L.tau[0] = mk.vec('dirty_tau')
        st.time = [mk.real(f'time{p}') for p in range(inst['n'])]
        st.u0 = mk.vec('u0')
        st.active = list(range(inst['active']))
        st.call = lambda: st.c.restart_block(st.active, st.time, st.u0)
        return st

    def snapshot(self, st):
        st.u0_copy = cp(st.u0)
        return super().snapshot(st)

    def post(self, st, old, result, exc):
        MS, act = st.MS, st.active
        yield 'returns_normally', exc is None
        if exc is not None:
            return
        for j, p in enumerate(act):
            S = MS[p]
            yield f'slot[{p}]', S.status.slot == p
            yield f'prev[{p}]', S.prev is MS[act[j - 1]]
            yield f'first_last[{p}]', S.status.first == (j == 0) and S.status.last == (j == len(act) - 1)
            yield f'entry_status[{p}]', (S.status.done is False and S.status.prev_done is False and S.status.iter == 0
                                         and S.status.stage == 'SPREAD' and S.status.force_done is False
                                         and S.status.time_size == len(act))
            yield f'u0_copied[{p}]', bool(veq(S.levels[0].u[0], st.u0_copy)) is True and S.levels[0].u[0] is not st.u0
            for l, L in enumerate(S.levels):
                yield f'level_reset[{p},{l}]', (L.tag is None and L.status.sweep == 1 and L.uend is None and all(x is None for x in L.u[1:])
                                               and all(x is None for x in L.f) and all(x is None for x in L.tau)
                                               and all(x is None for x in L.uold) and all(x is None for x in L.fold)
                                               and (l == 0 or L.u[0] is None)
                                               and L.status.residual is None and L.status.unlocked is False and L.status.updated is False and L.status.dt_new is None)
                yield f'level_time[{p},{l}]', seq(L.status.time, st.time[p])
        yield 'caller_u0_unchanged', bool(veq(st.u0, st.u0_copy)) is True
        yield 'controllers_reset', ('cc', 'reset_status_variables', None) in st.trace
        new = snapshot({f'S{q}': T for q, T in enumerate(MS)})
        for p in range(len(act), st.n):
            o = {k: v for k, v in old.items() if k.startswith(f'S{p}.')}
            yield from frame_clauses(o, new, frame=[], prefix='inactive_step_untouched')

    def canary(self, st, old, result, exc):
        yield 'canary:u0_aliased', st.MS[0].levels[0].u[0] is st.u0


CONTRACTS = [ItCheck, ItFine, ItCoarse, ItDown, ItUp, Spread, Predict, SendFull, RecvFull, Pfasst, RestartBlock]
