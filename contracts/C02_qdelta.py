"""
C02 (coefficients) -- Sweeper.get_Qdelta_implicit / get_Qdelta_explicit / updateVariableCoeffs of pySDC/core/sweeper.py.

The qmat generator is an external dependency: it is replaced by a GHOST generator whose assumed contract is only
"genCoeffs(k) returns an M x M array (and, with dTau=True, an M vector) that is a function of (generator type, k)";
all its entries are symbols, in particular NOT assumed triangular.  The real functions then have to
  * place the M x M block at [1:,1:] of an (M+1) x (M+1) matrix whose first row is zero, first column zero (implicit)
    or equal to dTau (explicit)                                                      [zero padding into pySDC layout]
  * raise AssertionError exactly when a coefficient above (explicit: on or above) the diagonal is non-zero, and never
    hand out such a matrix                                                               [triangularity assertions]
  * ask the generator of the REQUESTED type (building a new one bound to this sweeper's collocation generator and
    left interval end unless the cached one answers to that name) with the REQUESTED sweep index k
  * updateVariableCoeffs(k): refresh QI / QE from the sweeper's own generators with index k iff the generator is
    k-dependent, leave them (same object) alone otherwise                      [variable coefficients per sweep]
numpy as seen by pySDC/core/sweeper.py is shimmed for `allclose` only (exact equality of the symbolic entries; the
tolerance band of the real allclose is not modelled -- `parallelizable` is therefore specified for exactly diagonal
and for not-diagonal matrices only) and for `zeros(shape, dtype=float)` (object container holding 0.0: a float array
cannot hold symbols).
"""

import numpy as onp

from vc import sym
from vc.sym import And, Or, Not
from vc.contract import Contract, State, seq
from contracts.common import make_level, cls_of

SWF = 'pySDC/core/sweeper.py'
GI = 'pySDC/implementations/sweeper_classes/generic_implicit.py'
IMEX = 'pySDC/implementations/sweeper_classes/imex_1st_order.py'


class _NpShim:
    def __getattr__(self, n):
        return getattr(onp, n)

    @staticmethod
    def zeros(shape, dtype=float, **kw):
        # a float array cannot hold symbols: same container with object entries (values 0.0)
        return onp.zeros(shape, dtype=object if dtype in (float, onp.float64) and _SYMBOLIC[0] else dtype, **kw)

    @staticmethod
    def zeros_like(a, *args, **kw):
        r = onp.zeros_like(a, *args, **kw)
        return r.astype(object) if _SYMBOLIC[0] and r.dtype == float else r

    @staticmethod
    def allclose(a, b, *args, **kw):
        if onp.asarray(a).dtype != object and onp.asarray(b).dtype != object:
            return onp.allclose(a, b, *args, **kw)
        a, b = onp.asarray(a, dtype=object), onp.asarray(b, dtype=object)
        return bool(And(*[sym.eq(x, y) for x, y in zip(a.ravel(), b.ravel())])) if a.shape == b.shape else False


_SYMBOLIC = [False]


def symbolic(fn):
    """run fn with the numpy shim in symbolic mode (object containers); real-number mode is restored afterwards, so that real
    sweepers built later in the same worker process are not affected"""

    def wrapped(*a, **k):
        _SYMBOLIC[0] = True
        try:
            return fn(*a, **k)
        finally:
            _SYMBOLIC[0] = False

    return wrapped


def _orig():
    import pySDC.core.sweeper as mod

    return (dict(mod.QDELTA_GENERATORS), dict(getattr(mod, 'QDELTA_GENERATORS_ALIASES', {})))


_ORIG = _orig()


def _key(k):
    return k if not sym.is_sym(k) else str(k)


def _is0(x):
    return sym.eq(x, 0)


def install_ghost_generators(mk, M, kdep, triangular=False):
    """replaces QDELTA_GENERATORS / QDELTA_GENERATORS_ALIASES of pySDC.core.sweeper by ghost generator types
    'GA' (aliases 'GA', 'GA-alias'), 'GA2' and 'GB'; coefficients are a function of (type, k) (one table per type);
    with triangular=True GA/GA2 deliver lower triangular and GB strictly lower triangular coefficients.
    returns (module, log of generator constructions and calls, GA, GB)"""
    import pySDC.core.sweeper as mod

    log = []
    tables = {}

    class _Gen:
        def __init__(self, qGen=None, tLeft=None, **kw):
            self.qGen, self.tLeft, self.extra = qGen, tLeft, kw
            self.cache = tables.setdefault(type(self).__name__, {})
            log.append(('build', type(self).__name__, self))

        def genCoeffs(self, k=None, dTau=False, **kw):
            key = _key(k)
            if key not in self.cache:
                n = f'{type(self).__name__}[{len(log)}]'
                pat = None
                if triangular:
                    pat = (lambda i, j: j < i) if type(self).__name__ == 'GB' else (lambda i, j: j <= i)
                self.cache[key] = (mk.matrix(f'{n}.c', M, M, pat), mk.vector(f'{n}.d', M))
            log.append(('coeffs', type(self).__name__, self, k, dTau))
            A, d = self.cache[key]
            return (A.copy(), d.copy()) if dTau else A.copy()

        def isKDependent(self):
            return kdep.get(type(self).__name__, False)

    GA = type('GA', (_Gen,), {})
    GA2 = type('GA2', (GA,), {})  # a generator type derived from another one (as LU2 from LU in qmat): still a DIFFERENT coefficient table
    GB = type('GB', (_Gen,), {})
    # the real tables stay available (other contracts in the same worker process build real sweepers)
    mod.QDELTA_GENERATORS = {**_ORIG[0], 'GA': GA, 'GA-alias': GA, 'GA2': GA2, 'GB': GB}
    if hasattr(mod, 'QDELTA_GENERATORS_ALIASES'):  # present in the current source; the contracts do not depend on it
        mod.QDELTA_GENERATORS_ALIASES = {**_ORIG[1], GA: ['GA', 'GA-alias'], GA2: ['GA2'], GB: ['GB']}
    mod._ghost_types = dict(GA=GA, GA2=GA2, GB=GB)
    mod.np = _NpShim()
    mod._ghost_tables = tables
    return mod, log, GA, GB


class _QdBase(Contract):
    prop = 'C02'
    label = 'instance-proved'
    native = False
    expected_exceptions = (AssertionError,)
    explicit = False
    assumptions = ('qmat QDeltaGenerator.genCoeffs(k[, dTau]) is a function of (generator type, k) [ghost generator with symbolic entries]',)

    def instances(self, tier):
        Ms = (1, 2, 3)  # paths double with every coefficient the triangularity assertion inspects: M=4 is out of reach
        return [dict(M=M, cached=c, k=k) for M in Ms for c in ('none', 'same', 'alias', 'other', 'child') for k in (None, 'k')]

    def build(self, inst, mk):
        M = inst['M']
        L = make_level(cls_of(IMEX, 'imex_1st_order'), M, mk, kind='imex', fill=False)
        sw = L.sweep
        sw.coll.tleft = mk.real('coll.tleft')
        mod, log, GA, GB = install_ghost_generators(mk, M, dict(GA=False, GB=False))
        attr = 'genQE' if self.explicit else 'genQI'
        for a in ('genQI', 'genQE'):
            if hasattr(sw, a):
                delattr(sw, a)
        other_attr = 'genQI' if self.explicit else 'genQE'
        # the generator cached for the OTHER matrix must play no role (it is of the requested type exactly when the own cached one is not)
        other = (GA if inst['cached'] == 'other' else GB)(qGen='other-generator', tLeft=0)
        setattr(sw, other_attr, other)  # the generator of the OTHER matrix must play no role
        cached = None
        if inst['cached'] in ('same', 'alias'):
            cached = GA(qGen=sw.coll.generator, tLeft=sw.coll.tleft)
        elif inst['cached'] == 'other':
            cached = GB(qGen=sw.coll.generator, tLeft=sw.coll.tleft)
        elif inst['cached'] == 'child':
            cached = mod._ghost_types['GA2'](qGen=sw.coll.generator, tLeft=sw.coll.tleft)  # derived type cached, BASE type requested
        if cached is not None:
            setattr(sw, attr, cached)
        del log[:]
        sw.parallelizable = False
        k = mk.int('k') if inst['k'] == 'k' else None
        name = 'GA-alias' if inst['cached'] == 'alias' else 'GA'
        f = sw.get_Qdelta_explicit if self.explicit else sw.get_Qdelta_implicit
        st = State(L=L, sw=sw, M=M, inst=inst, log=log, cached=cached, other=other, k=k, GA=GA, GB=GB, attr=attr, other_attr=other_attr,
                   Q_before=sw.coll.Qmat, Qcopy=sw.coll.Qmat.copy(), call=symbolic(lambda: f(name, k=k)))
        return st

    def post(self, st, old, result, exc):
        M, sw, inst, log = st.M, st.sw, st.inst, st.log
        gen = getattr(sw, st.attr, None)
        builds = [e for e in log if e[0] == 'build']
        calls = [e for e in log if e[0] == 'coeffs']
        # ---- which generator answers (caching itself is not specified: only WHOSE coefficients come back)
        yield 'generator_of_requested_type', gen is not None and type(gen) is st.GA
        yield 'answering_generator_bound_to_this_collocation', gen is not None and gen.qGen is sw.coll.generator and gen.tLeft is sw.coll.tleft and not gen.extra
        yield 'generator_of_the_other_matrix_untouched', getattr(sw, st.other_attr, None) is st.other and not any(e[2] is st.other for e in log)
        yield 'coefficients_requested_once_with_the_sweep_index', len(calls) == 1 and calls[0][2] is gen and (calls[0][3] is st.k or (st.k is not None and sym.is_sym(calls[0][3]) and bool(sym.eq(calls[0][3], st.k)) is True)) and bool(calls[0][4]) == self.explicit
        if len(calls) != 1 or calls[0][2] is not gen:
            return
        A, d = gen.cache[_key(calls[0][3])]
        bad = [A[i, j] for i in range(M) for j in range(M) if (j >= i if self.explicit else j > i)]
        triangular = And(*[_is0(x) for x in bad]) if bad else True
        if exc is not None:
            yield 'raises_only_AssertionError', isinstance(exc, AssertionError)
            yield 'raises_only_for_a_non_triangular_matrix', Not(triangular)
            return
        yield 'non_triangular_matrix_never_returned', triangular
        R = result
        yield 'shape', getattr(R, 'shape', None) == (M + 1, M + 1)
        if getattr(R, 'shape', None) != (M + 1, M + 1):
            return
        yield 'block:coefficients_at_[1:,1:]', And(*[sym.eq(R[i + 1, j + 1], A[i, j]) for i in range(M) for j in range(M)])
        yield 'first_row_zero', And(*[_is0(R[0, j]) for j in range(M + 1)])
        if self.explicit:
            yield 'first_column_is_dTau', And(*[sym.eq(R[i + 1, 0], d[i]) for i in range(M)])
        else:
            yield 'first_column_zero', And(*[_is0(R[i, 0]) for i in range(M + 1)])
        offdiag = [R[i, j] for i in range(M + 1) for j in range(M + 1) if i != j]
        diagonal = And(*[_is0(x) for x in offdiag])
        yield 'parallelizable_set_for_diagonal_matrices_and_only_then', sym.eq(sym.SBool.lift(bool(sw.parallelizable)) if not sym.is_sym(sw.parallelizable) else sw.parallelizable, diagonal)
        yield 'result_is_a_new_matrix', R is not sw.coll.Qmat and R is not A
        yield 'collocation_matrix_untouched', sw.coll.Qmat is st.Q_before and all(sw.coll.Qmat[i, j] is st.Qcopy[i, j] for i in range(M + 1) for j in range(M + 1))

    def canary(self, st, old, result, exc):
        if exc is None and result is not None and st.M >= 2:
            yield 'canary:block_transposed', sym.eq(result[2, 1], list(st.sw.__dict__[st.attr].cache.values())[0][0][0, 1])
        if exc is None and result is not None and st.M == 1:
            yield 'canary:first_column_zero', _is0(result[1, 0]) if self.explicit else _is0(result[1, 1])


class GetQdeltaImplicit(_QdBase):
    name = 'Sweeper.get_Qdelta_implicit'
    target = (SWF, 'Sweeper.get_Qdelta_implicit')
    explicit = False


class GetQdeltaExplicit(_QdBase):
    name = 'Sweeper.get_Qdelta_explicit'
    target = (SWF, 'Sweeper.get_Qdelta_explicit')
    explicit = True


class UpdateVariableCoeffs(Contract):
    """QI / QE are refreshed from the sweeper's own generators with the sweep index iff the generator is k-dependent"""

    prop = 'C02'
    name = 'Sweeper.updateVariableCoeffs'
    target = (SWF, 'Sweeper.updateVariableCoeffs')
    label = 'instance-proved'
    native = False
    expected_exceptions = (AssertionError,)
    assumptions = _QdBase.assumptions

    def instances(self, tier):
        return [dict(M=M, kI=a, kE=b, has=h) for M in ((2,) if tier == 'quick' else (1, 2, 3)) for a in (False, True) for b in (False, True) for h in ('both', 'I', 'E')]

    def build(self, inst, mk):
        M = inst['M']
        L = make_level(cls_of(IMEX, 'imex_1st_order'), M, mk, kind='imex', fill=False)
        sw = L.sweep
        mod, log, GA, GB = install_ghost_generators(mk, M, dict(GA=inst['kI'], GB=inst['kE']))
        for a in ('genQI', 'genQE'):
            if hasattr(sw, a):
                delattr(sw, a)
        if inst['has'] in ('both', 'I'):
            sw.genQI = GA(qGen=sw.coll.generator, tLeft=sw.coll.tleft)
        if inst['has'] in ('both', 'E'):
            sw.genQE = GB(qGen=sw.coll.generator, tLeft=sw.coll.tleft)
        del log[:]
        sw.QI = mk.matrix('QI_old', M + 1, M + 1, lambda i, j: i >= 1 and 1 <= j <= i)
        sw.QE = mk.matrix('QE_old', M + 1, M + 1, lambda i, j: i >= 1 and j < i)
        k = mk.int('k')
        st = State(L=L, sw=sw, M=M, inst=inst, log=log, k=k, QI_old=sw.QI, QE_old=sw.QE, gI=getattr(sw, 'genQI', None), gE=getattr(sw, 'genQE', None),
                   call=symbolic(lambda: sw.updateVariableCoeffs(k)))
        return st

    def post(self, st, old, result, exc):
        M, sw, inst, log = st.M, st.sw, st.inst, st.log
        calls = [e for e in log if e[0] == 'coeffs']
        yield 'no_generator_rebuilt', not [e for e in log if e[0] == 'build'] and getattr(sw, 'genQI', None) is st.gI and getattr(sw, 'genQE', None) is st.gE
        doI = inst['has'] in ('both', 'I') and inst['kI']
        doE = inst['has'] in ('both', 'E') and inst['kE']
        cI = [e for e in calls if e[2] is st.gI]
        cE = [e for e in calls if e[2] is st.gE]
        if exc is not None:
            # the triangularity assertion of get_Qdelta_* may fire for the (unconstrained) ghost coefficients
            yield 'raises_only_when_a_refresh_happens', doI or doE
            return
        if doI:
            yield 'QI:generator_asked_with_sweep_index', len(cI) == 1 and cI[0][3] is not None and bool(sym.eq(cI[0][3], st.k)) is True
            if len(cI) != 1:
                return
            A = st.gI.cache[_key(cI[0][3])][0]
            yield 'QI:refreshed', sw.QI is not st.QI_old and And(*[sym.eq(sw.QI[i + 1, j + 1], A[i, j]) for i in range(M) for j in range(M)])
            yield 'QI:padding', And(*[_is0(sw.QI[0, j]) for j in range(M + 1)] + [_is0(sw.QI[i, 0]) for i in range(M + 1)])
        else:
            yield 'QI:left_alone', sw.QI is st.QI_old and not cI
        if doE:
            yield 'QE:generator_asked_with_sweep_index', len(cE) == 1 and cE[0][3] is not None and bool(sym.eq(cE[0][3], st.k)) is True
            if len(cE) != 1:
                return
            A, d = st.gE.cache[_key(cE[0][3])]
            yield 'QE:refreshed', sw.QE is not st.QE_old and And(*[sym.eq(sw.QE[i + 1, j + 1], A[i, j]) for i in range(M) for j in range(M)] + [sym.eq(sw.QE[i + 1, 0], d[i]) for i in range(M)])
            yield 'QE:first_row_zero', And(*[_is0(sw.QE[0, j]) for j in range(M + 1)])
        else:
            yield 'QE:left_alone', sw.QE is st.QE_old and not cE

    def canary(self, st, old, result, exc):
        if exc is None:
            yield 'canary:QI_never_changes', st.sw.QI is st.QI_old and st.inst['kI'] and st.inst['has'] != 'E'



def _pad_impl(A, M):
    R = onp.zeros((M + 1, M + 1), dtype=object)
    R[1:, 1:] = A
    return R


def _pad_expl(A, d, M):
    R = onp.zeros((M + 1, M + 1), dtype=object)
    R[1:, 1:] = A
    R[1:, 0] = d
    return R


def _meq(X, Y):
    X, Y = onp.asarray(X, dtype=object), onp.asarray(Y, dtype=object)
    if X.shape != Y.shape:
        return False
    return And(*[sym.eq(x, y) for x, y in zip(X.ravel(), Y.ravel())])


SWD = 'pySDC/implementations/sweeper_classes/'


class SweeperMatrices(Contract):
    """construction of a sweeper: each preconditioner attribute is the zero-padded coefficient table of the generator the
    DESCRIPTION names for it (sweep index None), and derived matrices (verlet) are the documented combinations"""

    prop = 'C02'
    name = 'sweeper construction [matrices are those the description names]'
    target = (SWF, 'Sweeper.get_Qdelta_implicit')
    label = 'instance-proved'
    native = False
    assumptions = _QdBase.assumptions

    CASES = [
        ('generic_implicit.py', 'generic_implicit', 'full', dict(QI='GA'), dict(QI=('I', 'GA'))),
        ('generic_implicit.py', 'generic_implicit', 'full', dict(QI='GA2'), dict(QI=('I', 'GA2'))),
        ('explicit.py', 'explicit', 'full', dict(QE='GB'), dict(QE=('E', 'GB'))),
        ('imex_1st_order.py', 'imex_1st_order', 'imex', dict(QI='GA', QE='GB'), dict(QI=('I', 'GA'), QE=('E', 'GB'))),
        ('imex_1st_order.py', 'imex_1st_order', 'imex', dict(QI='GA2', QE='GB'), dict(QI=('I', 'GA2'), QE=('E', 'GB'))),
        ('imex_1st_order_mass.py', 'imex_1st_order_mass', 'imex', dict(QI='GA', QE='GB'), dict(QI=('I', 'GA'), QE=('E', 'GB'))),
        ('multi_implicit.py', 'multi_implicit', 'comp2', dict(Q1='GA', Q2='GA2'), dict(Q1=('I', 'GA'), Q2=('I', 'GA2'))),
        ('multi_implicit.py', 'multi_implicit', 'comp2', dict(Q1='GA2', Q2='GA'), dict(Q1=('I', 'GA2'), Q2=('I', 'GA'))),
        ('multi_implicit.py', 'multi_implicit', 'comp2', dict(Q1='GA', Q2='GA'), dict(Q1=('I', 'GA'), Q2=('I', 'GA'))),
        ('verlet.py', 'verlet', 'full', dict(QI='GA', QE='GB'), dict()),
    ]

    def instances(self, tier):
        return [dict(case=i, cls=c[1], names=c[3], M=M) for i, c in enumerate(self.CASES) for M in ((2,) if tier == 'quick' else (1, 2, 3))]

    def build(self, inst, mk):
        from pySDC.core.level import Level
        from vc.ghost.problem import AbstractProblem

        fn, cname, kind, names, expect = self.CASES[inst['case']]
        M = inst['M']
        mod, log, GA, GB = install_ghost_generators(mk, M, {}, triangular=True)
        st = State(M=M, inst=inst, log=log, expect=expect, mod=mod, cname=cname)

        def call():
            sp = dict(num_nodes=M, quad_type='RADAU-RIGHT')
            sp.update(names)
            L = Level(problem_class=AbstractProblem, problem_params=dict(kind=kind, name='L.P'), sweeper_class=cls_of(SWD + fn, cname), sweeper_params=sp,
                      level_params=dict(dt=1.0), level_index=0)
            st.L = L
            return L.sweep

        st.call = symbolic(call)
        return st

    def post(self, st, old, result, exc):
        M = st.M
        yield 'constructs', exc is None
        if exc is not None:
            return
        sw, T = result, st.mod._ghost_tables
        for attr, (kind, gname) in st.expect.items():
            tab = T.get(gname, {}).get(None)
            yield f'{attr}:generator_named_in_the_description_was_asked_with_k_None', tab is not None
            if tab is None:
                continue
            want = _pad_impl(tab[0], M) if kind == 'I' else _pad_expl(tab[0], tab[1], M)
            yield f'{attr}:padded_coefficients_of_{gname}', _meq(getattr(sw, attr), want)
        if st.cname == 'verlet':
            QI, QE = _pad_impl(T['GA'][None][0], M), _pad_expl(T['GB'][None][0], T['GB'][None][1], M)
            QT = 0.5 * (QI + QE)
            yield 'verlet:QT_is_the_trapezoidal_mean', _meq(sw.QT, QT)
            yield 'verlet:Qx', _meq(sw.Qx, onp.dot(QE, QT) + 0.5 * QE * QE)
            yield 'verlet:QQ_is_Q_squared', bool(onp.allclose(onp.asarray(sw.QQ, dtype=float), onp.dot(sw.coll.Qmat, sw.coll.Qmat)))
            yield 'verlet:qQ_is_weights_times_Q', bool(onp.allclose(onp.asarray(sw.qQ, dtype=float), onp.dot(sw.coll.weights, sw.coll.Qmat[1:, 1:])))

    def canary(self, st, old, result, exc):
        if exc is None and st.cname == 'multi_implicit' and st.inst['names']['Q1'] != st.inst['names']['Q2']:
            yield 'canary:Q1_equals_Q2', _meq(result.Q1, result.Q2)
        if exc is None and st.cname == 'imex_1st_order':
            yield 'canary:QE_first_column_zero', _is0(result.QE[1, 0])


CONTRACTS = [GetQdeltaImplicit, GetQdeltaExplicit, UpdateVariableCoeffs, SweeperMatrices]
