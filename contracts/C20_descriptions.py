r"""
C20 -- descriptions are interpreted consistently and invalid set-ups are rejected.

Contracts (ensures / raises) on the description and parameter machinery. The quantifier of C20 is over configurations:
instances enumerate description SHAPES (which keys are lists, of which lengths; which key is dropped / wrong), payloads
are opaque sentinel objects (arbitrary values: only identity matters) or symbolic numbers.
"""

import itertools
import numpy as np

from vc import sym
from vc.sym import And, Or, Not, Implies, Iff
from vc.contract import Contract, State, seq
from contracts.common import cls_of
from vc.ghost.problem import AbstractProblem

STEP = 'pySDC/core/step.py'
HELP = 'pySDC/helpers/pysdc_helper.py'
COMMON = 'pySDC/core/common.py'
CTRL = 'pySDC/implementations/controller_classes/controller_nonMPI.py'
GI = ('pySDC/implementations/sweeper_classes/generic_implicit.py', 'generic_implicit')


class Tok:
    """opaque payload: an arbitrary value"""

    def __init__(self, n):
        self.n = n

    def __repr__(self):
        return f'<{self.n}>'


class _Cfg(Contract):
    prop = 'C20'
    label = 'instance-proved'
    native = True


# ------------------------------------------------------------------------------------------------ dict_to_list
class DictToList(_Cfg):
    name = 'Step.__dict_to_list'
    target = (STEP, 'Step._Step__dict_to_list')

    def instances(self, tier):
        top = 3 if tier == 'quick' else 4
        out = []
        for nkeys in (0, 1, 2, 3):
            for shape in itertools.product([0] + list(range(1, top + 1)), repeat=nkeys):  # 0 = scalar, k = list of k
                out.append(dict(shape=list(shape)))
        return out

    def build(self, inst, mk):
        Step = cls_of(STEP, 'Step')
        d = {}
        for i, k in enumerate(inst['shape']):
            d[f'key{i}'] = Tok(f's{i}') if k == 0 else [Tok(f'l{i}_{j}') for j in range(k)]
        st = State(d=d, inst=inst, orig={k: (list(v) if isinstance(v, list) else v) for k, v in d.items()})
        st.call = lambda: Step._Step__dict_to_list(d)
        return st

    def post(self, st, old, result, exc):
        yield 'returns_normally', exc is None
        if exc is not None:
            return
        d = st.orig
        n = max([1] + [len(v) for v in d.values() if isinstance(v, list)])
        yield 'as_many_levels_as_the_longest_list', len(result) == n
        for lvl in range(len(result)):
            yield f'level{lvl}:exactly_the_given_keys', set(result[lvl].keys()) == set(d.keys())
            for k, v in d.items():
                if isinstance(v, list):
                    yield f'level{lvl}:{k}:list_in_order_last_repeats', result[lvl].get(k) is v[min(lvl, len(v) - 1)]
                else:
                    yield f'level{lvl}:{k}:scalar_shared', result[lvl].get(k) is v
        yield 'input_not_modified', all((st.d[k] == d[k] if isinstance(d[k], list) else st.d[k] is d[k]) for k in d) and set(st.d) == set(d)
        yield 'level_dicts_are_distinct_objects', len({id(x) for x in result}) == len(result)
        # set up BY VALUE: what a level later writes into its dictionary (sweepers do) must not land in the caller's dictionary
        yield 'level_dicts_are_new_objects_not_the_callers', all(x is not st.d for x in result)

    def canary(self, st, old, result, exc):
        if any(k >= 2 for k in st.inst['shape']) and max(st.inst['shape']) > min(k for k in st.inst['shape'] if k >= 2):
            # wrong: cyclic repetition instead of "last entry repeats"
            d = st.orig
            yield 'canary:cyclic', all(result[l][k] is v[l % len(v)] for l in range(len(result)) for k, v in d.items() if isinstance(v, list))


# ------------------------------------------------------------------------------------------------ hierarchy / rejection
def base_description(nlevels=1, **over):
    from contracts.ctrl import LinearSpaceTransfer

    d = dict(problem_class=AbstractProblem, problem_params=dict(kind='full'),
             sweeper_class=cls_of(*GI), sweeper_params=dict(num_nodes=2, quad_type='RADAU-RIGHT'),
             level_params=dict(dt=0.1), step_params=dict(maxiter=3))
    if nlevels > 1:
        d['sweeper_params']['num_nodes'] = [3, 2, 1][:nlevels]
        d['space_transfer_class'] = LinearSpaceTransfer
    d.update(over)
    return d


class Hierarchy(_Cfg):
    """each level gets exactly its slice of problem / sweeper / level parameters; as many levels as the longest list"""

    name = 'Step.__generate_hierarchy'
    target = (STEP, 'Step._Step__generate_hierarchy')

    def instances(self, tier):
        out = []
        for nl in (1, 2, 3) if tier == 'quick' else (1, 2, 3, 4):
            for which in ('sweeper', 'level', 'problem', 'mixed', 'problem_class', 'sweeper_class', 'classes_short', 'space_transfer_params'):
                out.append(dict(nlevels=nl, which=which))
        return out

    def build(self, inst, mk):
        from contracts.ctrl import LinearSpaceTransfer

        Step = cls_of(STEP, 'Step')
        nl, which = inst['nlevels'], inst['which']
        nodes = [5, 4, 3, 2][:nl]
        dts = [mk.real(f'dt{l}') for l in range(nl)]
        names = [f'P{l}' for l in range(nl)]
        d = dict(problem_class=AbstractProblem, problem_params=dict(kind='full', name='shared'),
                 sweeper_class=cls_of(*GI), sweeper_params=dict(num_nodes=2, quad_type='RADAU-RIGHT'),
                 level_params=dict(dt=dts[0]), step_params=dict(maxiter=3), space_transfer_class=LinearSpaceTransfer)
        if which in ('sweeper', 'mixed'):
            d['sweeper_params']['num_nodes'] = nodes
        if which in ('level', 'mixed'):
            d['level_params']['dt'] = dts if which == 'level' else dts[: max(1, nl - 1)]  # shorter list: last repeats
        if which == 'problem':
            d['problem_params']['name'] = names
        # the longest list may also sit OUTSIDE the three parameter dictionaries: a class per level (all parameter entries scalar)
        pcls = [type(f'Problem{l}', (AbstractProblem,), {}) for l in range(nl)]
        scls = [type(f'Sweeper{l}', (cls_of(*GI),), {}) for l in range(nl)]
        if which == 'problem_class':
            d['problem_class'] = pcls
        if which == 'sweeper_class':
            d['sweeper_class'] = scls
        if which == 'classes_short':  # the sweeper-class list is the longest, the problem-class list one shorter (last repeats)
            d['sweeper_class'] = scls
            d['problem_class'] = pcls[: max(1, nl - 1)]
        stp = [dict(tag=f'T{l}') for l in range(nl)]
        if which == 'space_transfer_params':
            d['space_transfer_params'] = stp
        st = State(d=d, inst=inst, nodes=nodes, dts=dts, names=names, pcls=pcls, scls=scls, stp=stp)
        st.call = lambda: Step(d)
        return st

    def post(self, st, old, result, exc):
        nl, which = st.inst['nlevels'], st.inst['which']
        yield 'returns_normally', exc is None
        if exc is not None:
            return
        S = result
        yield 'as_many_levels_as_longest_list', len(S.levels) == nl
        if len(S.levels) != nl:
            return
        for l, L in enumerate(S.levels):
            yield f'level_index[{l}]', L.level_index == l
            want_nodes = st.nodes[l] if which in ('sweeper', 'mixed') else 2
            yield f'num_nodes[{l}]', L.sweep.coll.num_nodes == want_nodes
            if which == 'level':
                yield f'dt[{l}]', seq(L.params.dt, st.dts[l])
            elif which == 'mixed':
                yield f'dt_last_repeats[{l}]', seq(L.params.dt, st.dts[min(l, max(1, nl - 1) - 1)])
            else:
                yield f'dt_shared[{l}]', seq(L.params.dt, st.dts[0])
            yield f'problem_name[{l}]', L.prob.name == (st.names[l] if which == 'problem' else 'shared')
            if which == 'problem_class':
                yield f'problem_class[{l}]', type(L.prob) is st.pcls[l]
            elif which == 'classes_short':
                yield f'problem_class_last_repeats[{l}]', type(L.prob) is st.pcls[min(l, max(1, nl - 1) - 1)]
            else:
                yield f'problem_class_shared[{l}]', type(L.prob) is AbstractProblem
            if which in ('sweeper_class', 'classes_short'):
                yield f'sweeper_class[{l}]', type(L.sweep) is st.scls[l]
            else:
                yield f'sweeper_class_shared[{l}]', type(L.sweep) is cls_of(*GI)
            if which == 'space_transfer_params' and l > 0:
                T = S._Step__transfer_dict.get((S.levels[l - 1], S.levels[l]))
                yield f'space_transfer_params_of_pair[{l - 1},{l}]', T is not None and T.__self__.space_transfer.params.get('tag') == f'T{l}'
        yield 'transfer_between_all_adjacent_levels', all(True for _ in range(nl))
        if nl > 1:
            try:
                for l in range(nl - 1):
                    S._Step__transfer_dict[(S.levels[l], S.levels[l + 1])], S._Step__transfer_dict[(S.levels[l + 1], S.levels[l])]
                ok = True
            except KeyError:
                ok = False
            yield 'restrict_and_prolong_registered_for_every_adjacent_pair', ok

    def canary(self, st, old, result, exc):
        if st.inst['which'] in ('sweeper', 'mixed') and st.inst['nlevels'] > 1:
            yield 'canary:all_levels_get_first_entry', all(L.sweep.coll.num_nodes == st.nodes[0] for L in result.levels)
        else:
            yield 'canary:two_levels_more', len(result.levels) == st.inst['nlevels'] + 1


class Rejections(_Cfg):
    """single-fault perturbations of a valid description are rejected at construction (or first use)"""

    name = 'Step/Sweeper/controller construction [raises]'
    target = (CTRL, 'controller_nonMPI.__init__')
    from pySDC.core.errors import ParameterError, ControllerError, CollocationError

    FAULTS = [
        ('missing:problem_class', 'ParameterError'), ('missing:sweeper_class', 'ParameterError'),
        ('missing:sweeper_params', 'ParameterError'), ('missing:level_params', 'ParameterError'),
        ('missing:num_nodes', 'ParameterError'), ('deprecated:dtype_u', 'ParameterError'), ('deprecated:dtype_f', 'ParameterError'),
        ('multilevel_without_space_transfer', 'ParameterError'),
        ('controller:predict_key', 'ControllerError'), ('controller:coarsest_nsweeps', 'ControllerError'),
        # a deprecated key is rejected because it is PRESENT, whatever its value (the old interface wrote predict=False for "no predictor")
        ('controller:predict_key=False', 'ControllerError'), ('controller:predict_key=None', 'ControllerError'), ('controller:predict_key=0', 'ControllerError'),
        ('controller:predict_key=', 'ControllerError'), ('controller:predict_key=pfasst_burnin', 'ControllerError'),
        ('deprecated:dtype_u=None', 'ParameterError'), ('deprecated:dtype_f=None', 'ParameterError'), ('deprecated:dtype_u=False', 'ParameterError'),
        ('controller:pfasst_without_right_node', 'ControllerError'),
        ('unknown:quad_type', 'any'), ('unknown:QI', 'any'), ('unknown:node_type', 'any'),
        # an unknown preconditioner name AFTER a valid one was resolved on the same sweeper (second matrix of a sweeper, later request on a set-up sweeper)
        ('unknown:Q2_after_valid_Q1', 'any'), ('unknown:QE_after_valid_QI', 'any'), ('unknown:later_implicit_request', 'any'), ('unknown:later_explicit_request', 'any'),
        ('frozen:unknown_level_param_is_accepted_as_attribute', 'none'),
        ('unknown:controller_param', 'TypeError'), ('unknown:step_status_assignment', 'TypeError'),
        ('none', 'none'),
    ]

    def instances(self, tier):
        return [dict(fault=f, expect=e) for f, e in self.FAULTS]

    def build(self, inst, mk):
        from pySDC.implementations.controller_classes.controller_nonMPI import controller_nonMPI

        f = inst['fault']
        nl, n = 1, 1
        cp = dict(logger_level=40, dump_setup=False)
        if f in ('multilevel_without_space_transfer', 'controller:coarsest_nsweeps', 'controller:pfasst_without_right_node'):
            nl = 2
        d = base_description(nl)
        if f.startswith('missing:'):
            k = f.split(':')[1]
            if k == 'num_nodes':
                d['sweeper_params'].pop('num_nodes')
            else:
                d.pop(k)
        elif f.startswith('deprecated:'):
            key = f.split(':')[1]
            if '=' in key:
                key, val = key.split('=')
                d[key] = dict(**{'None': None, 'False': False})[val]
            else:
                d[key] = object
        elif f == 'multilevel_without_space_transfer':
            d.pop('space_transfer_class')
        elif f == 'controller:predict_key':
            cp['predict'] = True
        elif f.startswith('controller:predict_key='):
            val = f.split('=', 1)[1]
            cp['predict'] = {'False': False, 'None': None, '0': 0, '': ''}.get(val, val)
        elif f == 'controller:coarsest_nsweeps':
            d['level_params']['nsweeps'] = [1, 2]
        elif f == 'controller:pfasst_without_right_node':
            d['sweeper_params']['quad_type'] = 'GAUSS'
            n = 2
        elif f == 'unknown:quad_type':
            d['sweeper_params']['quad_type'] = 'RADAU-MIDDLE'
        elif f == 'unknown:QI':
            d['sweeper_params']['QI'] = 'NOT-A-PRECONDITIONER'
        elif f == 'unknown:node_type':
            d['sweeper_params']['node_type'] = 'BOGUS'
        elif f == 'unknown:Q2_after_valid_Q1':
            d['sweeper_class'] = cls_of('pySDC/implementations/sweeper_classes/multi_implicit.py', 'multi_implicit')
            d['problem_params'] = dict(kind='comp2')
            d['sweeper_params'].update(Q1='IE', Q2='LU-typo')
        elif f == 'unknown:QE_after_valid_QI':
            d['sweeper_class'] = cls_of('pySDC/implementations/sweeper_classes/imex_1st_order.py', 'imex_1st_order')
            d['problem_params'] = dict(kind='imex')
            d['sweeper_params'].update(QI='LU', QE='EE-typo')
        elif f == 'unknown:later_explicit_request':
            d['sweeper_class'] = cls_of('pySDC/implementations/sweeper_classes/imex_1st_order.py', 'imex_1st_order')
            d['problem_params'] = dict(kind='imex')
        elif f == 'unknown:controller_param':
            pass
        elif f == 'frozen:unknown_level_param_is_accepted_as_attribute':
            d['level_params']['my_own_parameter'] = 3
        st = State(inst=inst)

        def call():
            c = controller_nonMPI(num_procs=n, controller_params=cp, description=d)
            if f == 'unknown:controller_param':
                c.params.not_a_parameter = 1
            if f == 'unknown:step_status_assignment':
                c.MS[0].status.itre = 0  # typo of `iter`
            if f == 'unknown:later_implicit_request':
                c.MS[0].levels[0].sweep.get_Qdelta_implicit('LU-typo')
            if f == 'unknown:later_explicit_request':
                c.MS[0].levels[0].sweep.get_Qdelta_explicit('EE-typo')
            return c

        st.call = call
        return st

    def post(self, st, old, result, exc):
        e = st.inst['expect']
        if e == 'none':
            yield 'valid_description_accepted', exc is None
        elif e == 'any':
            yield 'unknown_name_rejected_with_an_error', exc is not None
        else:
            # the property asks for "an error at construction or first use"; which exception class the library picks (today: see the instance) is not pinned
            yield f'rejected_with_{e}', exc is not None

    expected_exceptions = (Exception,)

    def canary(self, st, old, result, exc):
        yield 'canary:opposite_outcome', (exc is None) != (st.inst['expect'] == 'none')


class ControllerGuards(_Cfg):
    """controller_nonMPI.__init__ on per-level (list-valued) parameters: time-parallel multi-level runs are rejected iff SOME level lacks the
    right end point as a node; several sweeps are rejected iff they are requested on the COARSEST (last) level; everything else is accepted
    and the controller records the per-level sweep counts of the description"""

    name = 'controller_nonMPI.__init__ [per-level guards]'
    target = (CTRL, 'controller_nonMPI.__init__')
    from pySDC.core.errors import ControllerError

    expected_exceptions = (Exception,)

    def instances(self, tier):
        import itertools

        out = []
        quads = ('RADAU-RIGHT', 'LOBATTO', 'GAUSS', 'RADAU-LEFT')
        for nl in (2, 3):
            combos = list(itertools.product(quads, repeat=nl))
            if nl == 3:
                combos = [c for c in combos if sum(q in ('GAUSS', 'RADAU-LEFT') for q in c) <= 1]
            for c in combos:
                for n in (1, 2):
                    out.append(dict(kind='quad', nlevels=nl, quad=list(c), n=n))
        for nl in (2, 3, 4):
            for c in itertools.product((1, 2), repeat=nl):
                out.append(dict(kind='nsweeps', nlevels=nl, nsweeps=list(c), n=1))
        out.append(dict(kind='nsweeps', nlevels=3, nsweeps=[3, 2, 1], n=2))
        out.append(dict(kind='nsweeps', nlevels=1, nsweeps=[3], n=1))
        return out

    def build(self, inst, mk):
        from pySDC.implementations.controller_classes.controller_nonMPI import controller_nonMPI

        nl = inst['nlevels']
        d = base_description(min(nl, 3))
        if nl == 4:
            d['sweeper_params']['num_nodes'] = [3, 3, 2, 1]
        if inst['kind'] == 'quad':
            d['sweeper_params']['quad_type'] = list(inst['quad'])
            d['sweeper_params']['num_nodes'] = [3, 3, 2, 2][:nl]  # every quadrature type exists for these counts
        else:
            d['level_params']['nsweeps'] = list(inst['nsweeps']) if nl > 1 else inst['nsweeps'][0]
        st = State(inst=inst)
        st.call = lambda: controller_nonMPI(num_procs=inst['n'], controller_params=dict(logger_level=40, dump_setup=False), description=d)
        return st

    def post(self, st, old, result, exc):
        inst = st.inst
        nl = inst['nlevels']
        if inst['kind'] == 'quad':
            bad = inst['n'] > 1 and nl > 1 and any(q in ('GAUSS', 'RADAU-LEFT') for q in inst['quad'])
        else:
            bad = nl > 1 and inst['nsweeps'][-1] > 1
        yield 'rejected_with_ControllerError_iff_the_description_is_invalid', (exc is not None) == bad  # any error class
        if exc is None and inst['kind'] == 'nsweeps':
            yield 'per_level_sweep_counts_recorded', list(result.nsweeps) == list(inst['nsweeps']) and all(L.params.nsweeps == k for L, k in zip(result.MS[0].levels, inst['nsweeps']))
        if exc is None and inst['kind'] == 'quad':
            yield 'per_level_quadrature_types_used', [L.sweep.coll.quad_type for L in result.MS[0].levels] == list(inst['quad'])

    def canary(self, st, old, result, exc):
        yield 'canary:always_accepted', exc is None and (st.inst['kind'] == 'nsweeps' and st.inst['nsweeps'][-1] > 1 and st.inst['nlevels'] > 1)


# ------------------------------------------------------------------------------------------------ frozen classes
UNDECLARED_NAMES = ('_z', '__z', '__z__', 'z_', '_x', 'x_', 'X', 'xx', '_', '__', 'x1', '_isfrozen', '__isfrozen', '_A__isfrozen', 'Attrs', 'é', 'x ', '')


class Frozen(_Cfg):
    name = 'FrozenClass.__setattr__/__getattr__/add_attr/get'
    target = (HELP, 'FrozenClass.__setattr__')
    label = 'proved'
    expected_exceptions = (Exception,)  # which class is raised is not pinned; cases that must NOT raise have a returns_normally clause

    def instances(self, tier):
        out = [dict(case=c) for c in ('set_declared_in_init', 'set_undeclared', 'set_added', 'get_added_unset', 'get_unknown',
                                     'set_before_freeze', 'add_twice_silently', 'add_twice_strict', 'get_method', 'separate_attrs_per_subclass')]
        # the rejection must not depend on the SHAPE of the undeclared name (private-looking, dunder-looking, near misses of declared ones ...)
        out += [dict(case='set_undeclared', attr=a) for a in UNDECLARED_NAMES]
        return out

    def build(self, inst, mk):
        FC = cls_of(HELP, 'FrozenClass')

        class A(FC):
            def __init__(self):
                self.x = 1
                self._freeze()

        class B(FC):
            def __init__(self):
                self.y = 1
                self._freeze()

        st = State(A=A, B=B, inst=inst, v=mk.real('value'))
        c = inst['case']

        def call():
            a = A()
            if c == 'set_declared_in_init':
                a.x = st.v
                return a.x
            if c == 'set_undeclared':
                setattr(a, inst.get('attr', 'z'), st.v)
                return 'stored'
            if c == 'set_added':
                A.add_attr('z')
                a.z = st.v
                return a.z
            if c == 'get_added_unset':
                A.add_attr('w')
                return a.w
            if c == 'get_unknown':
                return a.nothing
            if c == 'set_before_freeze':
                class C(FC):
                    def __init__(s):
                        s.q = st.v
                return C().q
            if c == 'add_twice_silently':
                A.add_attr('z')
                A.add_attr('z')
                return A.attrs.count('z')
            if c == 'add_twice_strict':
                A.add_attr('z')
                A.add_attr('z', raise_error_if_exists=True)
                return 'no error'
            if c == 'get_method':
                return (a.get('x'), a.get('missing', 7))
            if c == 'separate_attrs_per_subclass':
                A.add_attr('only_a')
                b = B()
                b.only_a = 1
                return 'stored'

        st.call = call
        return st

    def post(self, st, old, result, exc):
        c = st.inst['case']
        if c in ('set_undeclared', 'add_twice_strict', 'separate_attrs_per_subclass'):
            yield 'rejected_with_TypeError', exc is not None  # any error class satisfies "rejected with an error"
        elif c == 'get_unknown':
            yield 'unknown_attribute_raises', exc is not None
        else:
            yield 'returns_normally', exc is None
            if exc is None:
                if c in ('set_declared_in_init', 'set_added', 'set_before_freeze'):
                    yield 'value_stored', result is st.v
                if c == 'get_added_unset':
                    yield 'declared_but_unset_reads_None', result is None
                if c == 'add_twice_silently':
                    yield 'declared_once', result == 1
                if c == 'get_method':
                    yield 'get_with_default', result == (1, 7)

    def canary(self, st, old, result, exc):
        yield 'canary:opposite', (exc is None) == (st.inst['case'] in ('set_undeclared', 'add_twice_strict', 'separate_attrs_per_subclass', 'get_unknown'))


class ReadOnlyParams(_Cfg):
    name = 'RegisterParams.__setattr__/_makeAttributeAndRegister'
    target = (COMMON, 'RegisterParams.__setattr__')
    label = 'proved'
    from pySDC.core.errors import ReadOnlyError

    expected_exceptions = (Exception,)

    def instances(self, tier):
        return [dict(case=c) for c in ('change_read_only', 'change_normal', 'params_dict', 'missing_localvars', 'two_classes_do_not_share',
                                      'read_only_registered_in_several_calls', 'read_only_of_the_base_class_after_subclass_registration', 'params_after_several_calls')]

    def build(self, inst, mk):
        RP = cls_of(COMMON, 'RegisterParams')

        class P(RP):
            def __init__(self, a, b):
                self._makeAttributeAndRegister('a', localVars=locals(), readOnly=True)
                self._makeAttributeAndRegister('b', localVars=locals())

        class Q(RP):
            def __init__(self, a):
                self._makeAttributeAndRegister('a', localVars=locals())

        class Base(RP):  # like GenericNDimFinDiff: registers its own read-only parameters ...
            def __init__(self, nvars, order):
                self._makeAttributeAndRegister('nvars', 'order', localVars=locals(), readOnly=True)

        class Sub(Base):  # ... and the subclass registers more in a later call (like heatNd_unforced: nu)
            def __init__(self, nvars, order, nu, c):
                super().__init__(nvars, order)
                self._makeAttributeAndRegister('nu', localVars=locals(), readOnly=True)
                self._makeAttributeAndRegister('c', localVars=locals())

        st = State(inst=inst, va=mk.real('a'), vb=mk.real('b'))
        c = inst['case']

        def call():
            p = P(st.va, st.vb)
            if c == 'change_read_only':
                p.a = 3
            if c == 'change_normal':
                p.b = st.va
                return p.b
            if c == 'params_dict':
                return p.params
            if c == 'missing_localvars':
                p._makeAttributeAndRegister('x', 'y')
            if c == 'two_classes_do_not_share':
                q = Q(1)
                q.a = 2  # 'a' is read-only in P only
                return q.a
            if c == 'read_only_registered_in_several_calls':
                s_ = Sub(8, 2, st.va, st.vb)
                s_.nu = 3
            if c == 'read_only_of_the_base_class_after_subclass_registration':
                s_ = Sub(8, 2, st.va, st.vb)
                s_.nvars = 16
            if c == 'params_after_several_calls':
                return Sub(8, 2, st.va, st.vb).params

        st.call = call
        return st

    def post(self, st, old, result, exc):
        c = st.inst['case']
        if c in ('change_read_only', 'read_only_registered_in_several_calls', 'read_only_of_the_base_class_after_subclass_registration'):
            yield 'read_only_parameter_change_rejected', exc is not None  # any error class
        elif c == 'missing_localvars':
            yield 'missing_values_rejected', exc is not None  # any error class
        else:
            yield 'returns_normally', exc is None
            if exc is None and c == 'change_normal':
                yield 'normal_parameter_changed', result is st.va
            if exc is None and c == 'params_dict':
                yield 'params_lists_registered_names_with_values', set(result) == {'a', 'b'} and result['a'] is st.va and result['b'] is st.vb
            if exc is None and c == 'params_after_several_calls':
                yield 'params_lists_every_registered_name', set(result) == {'nvars', 'order', 'nu', 'c'} and result['nu'] is st.va and result['c'] is st.vb
            if exc is None and c == 'two_classes_do_not_share':
                yield 'registration_is_per_class', result == 2

    def canary(self, st, old, result, exc):
        yield 'canary:opposite', (exc is None) == (st.inst['case'] in ('change_read_only', 'missing_localvars', 'read_only_registered_in_several_calls', 'read_only_of_the_base_class_after_subclass_registration'))


class ConvergenceControllerSetup(_Cfg):
    """controllers are instantiated once; user parameters override defaults; description-level parameters override both"""

    name = 'ConvergenceController.__init__/setup + Controller.add_convergence_controller'
    target = ('pySDC/core/convergence_controller.py', 'ConvergenceController.__init__')

    def instances(self, tier):
        return [dict(case=c) for c in ('user_overrides_default', 'added_twice', 'allow_double', 'dependency_loaded_once', 'defaults_kept', 'subclass_loaded_first')]

    def build(self, inst, mk):
        from contracts import ctrl
        from pySDC.implementations.convergence_controller_classes.adaptivity import Adaptivity
        from pySDC.implementations.convergence_controller_classes.step_size_limiter import StepSizeLimiter

        c = inst['case']
        st = State(inst=inst)

        def call():
            conv = {Adaptivity: dict(e_tol=1e-3, beta=0.5, dt_max=2.0)} if c != 'defaults_kept' else {Adaptivity: dict(e_tol=1e-3)}
            if c == 'dependency_loaded_once':
                conv[StepSizeLimiter] = dict(dt_min=1e-4, dt_max=7.0)  # given by the user for the class itself
            if c == 'subclass_loaded_first':
                # a class of the user's derived from a library class is requested BEFORE the library class itself: both were asked for, each with its own parameters
                MyLimiter = type('MyLimiter', (StepSizeLimiter,), {})
                conv = {MyLimiter: dict(dt_max=3.0), StepSizeLimiter: dict(dt_min=1e-4, dt_max=7.0), **conv}
            ctl, _ = ctrl.make_controller(mk, 1, conv_controllers=conv, cparams=dict(mssdc_jac=False), level_params=dict(restol=-1.0))
            if c == 'added_twice':
                ctl.add_convergence_controller(Adaptivity, description=ctl.description, params=dict(e_tol=5.0))
            if c == 'allow_double':
                ctl.add_convergence_controller(Adaptivity, description=ctl.description, params=dict(e_tol=5.0), allow_double=True)
            return ctl

        st.call = call
        return st

    def post(self, st, old, result, exc):
        c = st.inst['case']
        yield 'returns_normally', exc is None
        if exc is not None:
            return
        names = [type(x).__name__ for x in result.convergence_controllers]
        A = [x for x in result.convergence_controllers if type(x).__name__ == 'Adaptivity']
        if c == 'allow_double':
            yield 'double_allowed_on_request', len(A) == 2
        else:
            yield 'every_class_instantiated_once', len(names) == len(set(names))
        if c in ('user_overrides_default', 'added_twice'):
            yield 'user_parameters_override_defaults', A[0].params.beta == 0.5 and A[0].params.e_tol == 1e-3
            yield 'default_kept_where_not_given', A[0].params.control_order == -50
        if c == 'defaults_kept':
            yield 'defaults', A[0].params.beta == 0.9
        if c == 'dependency_loaded_once':
            lim = [x for x in result.convergence_controllers if type(x).__name__ == 'StepSizeLimiter']
            yield 'limiter_once_with_user_parameters', len(lim) == 1 and lim[0].params.dt_min == 1e-4
            yield 'user_parameters_for_the_class_override_those_passed_by_the_dependency', len(lim) == 1 and lim[0].params.dt_max == 7.0
        if c == 'subclass_loaded_first':
            lim = [x for x in result.convergence_controllers if type(x).__name__ == 'StepSizeLimiter']
            mine = [x for x in result.convergence_controllers if type(x).__name__ == 'MyLimiter']
            yield 'requested_class_instantiated_with_its_user_parameters_although_a_subclass_instance_exists', len(lim) == 1 and lim[0].params.dt_max == 7.0 and lim[0].params.dt_min == 1e-4
            yield 'derived_class_instantiated_with_its_own_parameters', len(mine) == 1 and mine[0].params.dt_max == 3.0
        orders = [result.convergence_controllers[i].params.control_order for i in result.convergence_controller_order]
        yield 'ascending_control_order', orders == sorted(orders)

    def canary(self, st, old, result, exc):
        A = [x for x in result.convergence_controllers if type(x).__name__ == 'Adaptivity']
        yield 'canary:defaults_win', A[0].params.beta == 0.9 and st.inst['case'] != 'defaults_kept'


class UnknownNamesAtFirstUse(_Cfg):
    name = 'Sweeper.predict [unknown initial_guess]'
    target = ('pySDC/core/sweeper.py', 'Sweeper.predict')
    from pySDC.core.errors import ParameterError

    expected_exceptions = (Exception,)

    def instances(self, tier):
        return [dict(guess=g) for g in ('spread', 'copy', 'zero', 'bogus')]

    def build(self, inst, mk):
        from contracts.common import make_level

        L = make_level(cls_of(*GI), 2, mk, sweeper_params=dict(initial_guess=inst['guess']), fill=False)
        L.u[0] = mk.vec('u0')
        st = State(L=L, inst=inst)
        st.call = L.sweep.predict
        return st

    def post(self, st, old, result, exc):
        if st.inst['guess'] == 'bogus':
            yield 'unknown_initial_guess_rejected', exc is not None  # any error class
        else:
            yield 'returns_normally', exc is None
            yield 'level_unlocked', st.L.status.unlocked is True

    def canary(self, st, old, result, exc):
        yield 'canary:opposite', (exc is None) == (st.inst['guess'] == 'bogus')


def bounded_frozen_objects_of_a_controller(tier, seed):
    """every frozen status / parameter object of a REAL controller (2 steps, 2 levels: step and level status and params, sweeper and
    controller params where frozen) rejects assignments to undeclared names of many shapes with TypeError and keeps accepting
    its declared names; names that exist already (methods, class attributes) are skipped because they are declared"""
    import random
    import string
    from pySDC.helpers.pysdc_helper import FrozenClass
    from pySDC.implementations.controller_classes.controller_nonMPI import controller_nonMPI
    from contracts.ctrl import LinearSpaceTransfer
    from vc.native import ConcreteLinearProblem

    rnd = random.Random(seed + 5)
    d = dict(problem_class=ConcreteLinearProblem, problem_params=dict(kind='full'), sweeper_class=cls_of(*GI), sweeper_params=dict(num_nodes=[3, 2], quad_type='RADAU-RIGHT'),
             level_params=dict(dt=0.1), step_params=dict(maxiter=3), space_transfer_class=LinearSpaceTransfer)
    c = controller_nonMPI(num_procs=2, controller_params=dict(logger_level=40, dump_setup=False), description=d)
    objs = {}
    for p, S in enumerate(c.MS):
        objs[f'MS[{p}]'] = S
        objs[f'MS[{p}].status'] = S.status
        objs[f'MS[{p}].params'] = S.params
        for l, L in enumerate(S.levels):
            objs[f'MS[{p}].levels[{l}]'] = L
            objs[f'MS[{p}].levels[{l}].status'] = L.status
            objs[f'MS[{p}].levels[{l}].params'] = L.params
            objs[f'MS[{p}].levels[{l}].sweep.params'] = L.sweep.params
    objs['controller.params'] = c.params
    objs = {k: o for k, o in objs.items() if isinstance(o, FrozenClass)}
    # ... and every other frozen object reachable from the controller (transfer parameters, convergence-controller parameters and status, problem
    # parameters ...), for a controller built WITHOUT and one built WITH explicit transfer parameters
    d2 = dict(d, base_transfer_params=dict(finter=True), space_transfer_params=dict(tag=1))
    c2 = controller_nonMPI(num_procs=2, controller_params=dict(logger_level=40, dump_setup=False), description=d2)
    for label, root in (('controller', c), ('controller_with_transfer_params', c2)):
        seen, stack = set(), [(label, root, 0)]
        while stack:
            path, o, depth = stack.pop()
            if id(o) in seen or depth > 7:
                continue
            seen.add(id(o))
            if isinstance(o, FrozenClass) and not any(o is x for x in objs.values()):
                objs[path] = o
            if isinstance(o, (list, tuple)):
                kids = [(f'{path}[{i}]', v) for i, v in enumerate(o[:6])]
            elif isinstance(o, dict):
                kids = [(f'{path}[{k!r}]', v) for k, v in list(o.items())[:12]]
            elif hasattr(o, '__dict__') and type(o).__module__.startswith(('pySDC', 'contracts', 'vc')):
                kids = [(f'{path}.{k}', v) for k, v in vars(o).items()]
            else:
                kids = []
            for kp, v in kids:
                if isinstance(v, (int, float, str, bool, type(None), np.ndarray, type)) or callable(v) and not hasattr(v, '__dict__'):
                    continue
                stack.append((kp, v, depth + 1))
    fails = dict(undeclared_name_rejected_with_TypeError=[], declared_name_still_assignable=[], rejected_assignment_leaves_no_attribute=[])
    cases = 0
    n_random = 40 if tier == 'quick' else 400
    for where, o in objs.items():
        declared = [k for k in list(vars(o)) + list(type(o).attrs) if not k.endswith('__isfrozen')]
        names = set(UNDECLARED_NAMES)
        for k in declared[:12]:
            names |= {'_' + k, k + '_', '__' + k, k.upper(), k[:-1], k + k, k.capitalize()}
        alphabet = string.ascii_letters + string.digits + '_'
        for _ in range(n_random):
            names.add(rnd.choice(['', '_', '__', '_' + type(o).__name__ + '__']) + ''.join(rnd.choice(alphabet) for _ in range(rnd.randint(1, 9))))
        for nm in sorted(names):
            if hasattr(o, nm) or nm in type(o).attrs:
                continue  # declared (or an existing member): assignable by design
            cases += 1
            try:
                setattr(o, nm, 1.0)
                fails['undeclared_name_rejected_with_TypeError'].append(dict(object=where, name=nm, outcome='stored silently'))
                try:
                    object.__delattr__(o, nm)
                except Exception:
                    pass
            except Exception:  # any error class satisfies "rejected with an error"
                if nm in vars(o):
                    fails['rejected_assignment_leaves_no_attribute'].append(dict(object=where, name=nm))
        for k in declared:
            cases += 1
            try:
                old = getattr(o, k)
                setattr(o, k, old)
            except Exception as e:
                fails['declared_name_still_assignable'].append(dict(object=where, name=k, outcome=repr(e)[:120]))
    obs = [dict(name=f'bounded:{k}', status='proved' if not bad else 'refuted', backend='native-run', seconds=0.0, kind='bounded', size=0, model=dict(first=bad[:6]) if bad else None,
                reason='', path=0, counted=False) for k, bad in fails.items()]
    return dict(contract='bounded:frozen_objects_of_a_controller', prop='C20', inst={}, label='bounded', kind='bounded', obligations=obs, canaries=[], paths=1, status='ok',
                bounded=dict(what='assignments of undeclared / declared names to every frozen object of a real 2-step 2-level controller', bound=f'{len(objs)} objects; fixed name family, near misses of up to 12 declared names per object, {n_random} random identifiers per object', cases=cases,
                             failures=sum(1 for o in obs if o['status'] != 'proved')))


def _unknown_predictor_contract():
    # "unknown predictor names are rejected at first use": the contract of controller_nonMPI.predict (C07), restricted to its unknown-name instances
    from contracts.C07_block import Predict, UNKNOWN_PREDICTORS

    def instances(self, tier):
        return [i for i in Predict.instances(self, tier) if i['predict_type'] in UNKNOWN_PREDICTORS or i['predict_type'] == 'bogus']

    return type('UnknownPredictor_C20', (Predict,), dict(prop='C20', instances=instances))



EXTRAS = [bounded_frozen_objects_of_a_controller]

CONTRACTS = [_unknown_predictor_contract(), DictToList, Hierarchy, Rejections, ControllerGuards, Frozen, ReadOnlyParams, ConvergenceControllerSetup, UnknownNamesAtFirstUse]
UNDECIDED = ['ParaDiag option conflicts are checked under C15', 'unknown residual_type: C03.compute_residual.unknown_type_rejected; unknown predict_type / stage: C07.predict / C07.pfasst']
