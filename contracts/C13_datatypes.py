r"""
C13 -- data types have value semantics and runs never corrupt caller or logged data.

Two layers.
 (a) Run level (deductive, re-using contracts proved elsewhere on the real functions): Step.init_step copies the caller's
     u0 (contract below, symbolic); restart_block never touches the caller's object (C07.restart_block.caller_u0_unchanged,
     u0_copied); recv_full copies (C07.recv_full.u0_is_a_copy); every compute_end_point creates a NEW uend object and
     frames everything else (C02.*.compute_end_point.uend:new_object + frame); LogSolution logs the object created in that
     call (C14.LogSolution.post_step); no function under contract in C02/C03/C07/C10 changes anything outside its frame.
 (b) Data-type level: the numpy ufunc machinery is outside the repository, so the operator contracts of mesh, imex_mesh,
     comp2_mesh, MeshDAE, particles / fields / acceleration are checked as RUN-TIME CONTRACTS on the real classes over an
     enumerated grid of shapes, dtypes and operator forms (bounded stand-in, labelled bounded, never counted as proved):
     result is a new object of the same type, no operand that another name refers to is modified (including augmented
     assignment and `out=`), copy construction gives independent storage, component access is a writable view of one
     buffer, abs() is the max norm (positivity, homogeneity, triangle inequality).
"""

import itertools
import numpy as np

from vc import sym
from vc.contract import Contract, State, veq, seq, snapshot, frame_clauses
from contracts.common import make_step, cp


class InitStep(Contract):
    prop = 'C13'
    name = 'Step.init_step'
    target = ('pySDC/core/step.py', 'Step.init_step')
    label = 'instance-proved'
    native = True

    def instances(self, tier):
        return [dict(nlevels=1), dict(nlevels=2)]

    def build(self, inst, mk):
        from contracts.ctrl import LinearSpaceTransfer

        S = make_step(mk, M=2, nlevels=inst['nlevels'], Ms=[2, 1][: inst['nlevels']], space_transfer=LinearSpaceTransfer, symbolic_level=False)
        st = State(S=S, u0=mk.vec('u0'))
        st.u0_copy = cp(st.u0)
        st.call = lambda: S.init_step(st.u0)
        return st

    def snapshot(self, st):
        return snapshot({'S': st.S})

    def post(self, st, old, result, exc):
        yield 'returns_normally', exc is None
        if exc is not None:
            return
        L = st.S.levels[0]
        yield 'fine_u0_equals_callers_value', veq(L.u[0], st.u0_copy)
        yield 'fine_u0_is_a_new_object', L.u[0] is not st.u0
        yield 'callers_object_unchanged', veq(st.u0, st.u0_copy)
        yield from frame_clauses(old, snapshot({'S': st.S}), frame=['S.levels[0].u[0]'])

    def canary(self, st, old, result, exc):
        yield 'canary:aliases_callers_object', st.S.levels[0].u[0] is st.u0


def _ob(name, ok, info=None):
    return dict(name=name, status='proved' if ok else 'refuted', backend='runtime-contract', seconds=0.0, kind='bounded', size=0,
                model=info if not ok else None, reason='', path=0, counted=False)


def datatype_contracts(tier, seed):
    from pySDC.implementations.datatype_classes.mesh import mesh, imex_mesh, comp2_mesh
    from pySDC.implementations.datatype_classes.particles import particles, fields, acceleration
    from pySDC.projects.DAE.misc.meshDAE import MeshDAE

    rng = np.random.RandomState(seed + 3)
    obs = []
    n_cases = 0
    fails = []

    def check(name, cond, info=None):
        nonlocal n_cases
        n_cases += 1
        if not cond:
            fails.append((name, info))

    shapes = [3, (2, 3)] if tier == 'quick' else [1, 3, (2, 3), (2, 2, 2)]
    dtypes = [np.dtype('float64'), np.dtype('complex128')]
    binops = [('add', lambda a, b: a + b), ('sub', lambda a, b: a - b), ('mul', lambda a, b: a * b), ('radd', lambda a, b: b + a), ('rsub', lambda a, b: b - a),
              ('rmul', lambda a, b: b * a), ('div', lambda a, b: a / (b * b + 1)), ('np.add', lambda a, b: np.add(a, b)), ('np.multiply', lambda a, b: np.multiply(a, b))]
    unops = [('neg', lambda a: -a), ('pos', lambda a: +a), ('np.exp', lambda a: np.exp(a)), ('np.sin', lambda a: np.sin(a)), ('conj', lambda a: np.conj(a)), ('scalar_mul', lambda a: 2.5 * a)]

    def rand(cls, shape, dt):
        x = cls((shape, None, dt))
        x[...] = rng.randn(*x.shape) + (1j * rng.randn(*x.shape) if dt.kind == 'c' else 0)
        return x

    for cls in (mesh, imex_mesh, comp2_mesh, MeshDAE):
        for shape in shapes:
            for dt in dtypes:
                tag = f'{cls.__name__}/{shape}/{dt}'
                a, b = rand(cls, shape, dt), rand(cls, shape, dt)
                a0, b0 = np.array(a), np.array(b)
                for nm, op in binops:
                    for other in (b, 1.5, np.array(b)):
                        r = op(a, other)
                        check(f'{tag}:{nm}:type', type(r) is cls, type(r).__name__)
                        check(f'{tag}:{nm}:new_storage', not np.shares_memory(r, a) and (not isinstance(other, np.ndarray) or not np.shares_memory(r, other)))
                        check(f'{tag}:{nm}:operands_unchanged', np.array_equal(a, a0) and np.array_equal(b, b0))
                for nm, op in unops:
                    r = op(a)
                    check(f'{tag}:{nm}:type', type(r) is cls, type(r).__name__)
                    check(f'{tag}:{nm}:new_storage', not np.shares_memory(r, a))
                    check(f'{tag}:{nm}:operand_unchanged', np.array_equal(a, a0))
                # augmented assignment never modifies an operand another name still refers to
                for nm, aug in (('iadd', lambda x, y: x.__iadd__(y)), ('isub', lambda x, y: x.__isub__(y)), ('imul', lambda x, y: x.__imul__(y))):
                    alias = a
                    c = aug(a, b)
                    check(f'{tag}:{nm}:other_name_unchanged', np.array_equal(alias, a0) and type(c) is cls)
                # ... also when the two operands have DIFFERENT dtypes (precision / real vs complex): the other name keeps its values and its dtype
                for odt in (np.dtype('float32'), np.dtype('float64'), np.dtype('complex128'), np.dtype('int64')):
                    if odt == dt:
                        continue
                    other = rand(cls, shape, odt if odt.kind != 'i' else np.dtype('float64')).astype(odt) if odt.kind != 'i' else (10 * rand(cls, shape, np.dtype('float64'))).astype(odt)
                    for lhs, rhs in ((a, other), (other, a)):
                        l0, ldt = np.array(lhs), lhs.dtype
                        alias = lhs
                        x = lhs
                        try:
                            x += rhs
                        except Exception as e:  # value semantics: `x += y` rebinds x to x + y, which exists for every pair of dtypes
                            check(f'{tag}:iadd_mixed_dtype[{ldt}+={rhs.dtype}]:is_x_plus_y_for_every_dtype_pair', False, repr(e)[:160])
                            continue
                        check(f'{tag}:iadd_mixed_dtype[{ldt}+={rhs.dtype}]:other_name_unchanged', np.array_equal(alias, l0) and alias.dtype == ldt and np.allclose(np.asarray(x), l0 + np.asarray(rhs)))
                # out= must not write into a mesh that another name refers to
                tgt = rand(cls, shape, dt)
                t0 = np.array(tgt)
                r = np.add(a, b, out=tgt)
                check(f'{tag}:out_argument_dropped', np.array_equal(tgt, t0) and np.allclose(r, a0 + b0) and type(r) is cls)
                # ... nor into a plain array another name refers to, as soon as a mesh takes part (explicit out= and augmented assignment with the array on the left)
                arr = np.array(rand(cls, shape, dt))
                arr0, alias = arr.copy(), arr
                r = np.add(a, b, out=arr)
                check(f'{tag}:out_argument_dropped_for_plain_array_targets', np.array_equal(alias, arr0) and np.allclose(r, a0 + b0) and type(r) is cls)
                for nm, aug in (('iadd', lambda x, y: x.__iadd__(y)), ('isub', lambda x, y: x.__isub__(y)), ('imul', lambda x, y: x.__imul__(y))):
                    arr = np.array(rand(cls, shape, dt))
                    arr0, alias = arr.copy(), arr
                    try:
                        c = aug(arr, b)
                    except Exception as e:
                        check(f'{tag}:array_{nm}_mesh:runs', False, repr(e)[:120])
                        continue
                    check(f'{tag}:array_{nm}_mesh:array_operand_unchanged_result_is_a_new_mesh', np.array_equal(alias, arr0) and type(c) is cls and not np.shares_memory(c, alias))
                # copy construction: independent storage, equal values
                c = cls(a)
                check(f'{tag}:copy:equal_independent', np.array_equal(c, a0) and not np.shares_memory(c, a) and type(c) is cls)
                c[...] = 0
                check(f'{tag}:copy:writing_the_copy_leaves_the_original', np.array_equal(a, a0))
                # allocation
                z = cls((shape, None, dt), val=0.0) if cls is mesh else cls((shape, None, dt))
                check(f'{tag}:allocate:dtype_shape', z.dtype == dt)
                # abs = max norm: positivity, homogeneity, triangle inequality
                na, nb = abs(a), abs(b)
                check(f'{tag}:abs:is_max_norm', isinstance(na, float) and abs(na - np.max(np.abs(a0))) <= 1e-14 * max(1, na))
                check(f'{tag}:abs:homogeneous', abs(abs(-2.0 * a) - 2.0 * na) <= 1e-12 * max(1, na))
                check(f'{tag}:abs:triangle', abs(a + b) <= na + nb + 1e-12)
                check(f'{tag}:abs:definite', abs(a * 0) == 0.0 and (na > 0) == bool(np.any(a0 != 0)))
                # ... wherever the entry of largest modulus sits and whatever its sign / phase is (not the extreme real part, not the last entry)
                for pos in sorted({0, a.size // 2, a.size - 1}):
                    for big in ((-7.5,) if dt.kind != 'c' else (-7.5, 1 + 5j, -0.5 - 6j, 6j)):
                        p_ = cls(a)
                        flat = np.asarray(p_).reshape(-1)
                        flat[...] = [(-1) ** k * (2 + k % 3) for k in range(flat.size)]
                        flat[pos] = big
                        check(f'{tag}:abs:is_max_modulus_wherever_it_sits[pos={pos},value={big}]', abs(abs(p_) - abs(big)) <= 1e-14 * abs(big), float(abs(p_)))
                # component views of multi-component meshes
                if cls is not mesh:
                    for i, comp in enumerate(cls.components):
                        v = getattr(a, comp)
                        check(f'{tag}:component[{comp}]:view_of_one_buffer', np.shares_memory(v, a) and type(v) is mesh and v.shape == a.shape[1:])
                        v[...] = 7
                        check(f'{tag}:component[{comp}]:writable_view', np.all(np.asarray(a)[i] == 7))
                    a[...] = a0
                    # a non-contiguous view that keeps the component axis still exposes writable component views of the SAME buffer
                    if a.ndim >= 3:
                        views = [a[..., 1:], a[..., ::2]] + ([a[:, 1:, 1:]] if a.ndim >= 3 else [])
                    else:
                        views = [a[..., 1:], a[..., ::2]]
                    for vi, S in enumerate(views):
                        if S.shape[0] != len(cls.components) or S.size == 0:
                            continue
                        comp = cls.components[-1]
                        v = getattr(S, comp)
                        check(f'{tag}:component_of_view#{vi}:shares_the_buffer', np.shares_memory(v, a))
                        v[...] = -3
                        check(f'{tag}:component_of_view#{vi}:write_through', np.all(np.asarray(S)[len(cls.components) - 1] == -3))
                        a[...] = a0
                # slicing keeps the type and views the buffer
                s = a[...]
                check(f'{tag}:slice:view', np.shares_memory(s, a))
    # operands of DIFFERENT mesh classes (a position advanced by a velocity, a multi-component mesh combined with a plain one of the same shape):
    # the result keeps the class of the left operand (of the derived class when one operand's class derives from the other's), values as for arrays
    for n in (1, 3):
        init = ((3, n), None, np.dtype('float64'))
        P_ = particles(init)
        pos, vel = P_.pos, P_.vel
        pos[...] = rng.randn(*pos.shape)
        vel[...] = rng.randn(*vel.shape)
        acc = acceleration(init)
        acc[...] = rng.randn(*acc.shape)
        pos0, vel0, acc0 = np.array(pos), np.array(vel), np.array(acc)
        for nm, lhs, rhs, l0, r0 in (('position+dt*velocity', pos, vel, pos0, vel0), ('velocity+dt*acceleration', vel, acc, vel0, acc0), ('acceleration+velocity', acc, vel, acc0, vel0)):
            r = lhs + 0.5 * rhs
            check(f'mixed/{n}:{nm}:result_keeps_the_class_of_the_left_operand', type(r) is type(lhs) and np.allclose(r, l0 + 0.5 * r0), type(r).__name__)
            x = lhs
            x += 0.5 * rhs
            check(f'mixed/{n}:{nm}:augmented_assignment_keeps_the_class', type(x) is type(lhs) and np.allclose(x, l0 + 0.5 * r0) and np.array_equal(lhs, l0), type(x).__name__)
    for cls in (imex_mesh, comp2_mesh):
        for shape in (3, (2, 3)):
            a = rand(cls, shape, np.dtype('float64'))
            plain = mesh((a.shape, None, np.dtype('float64')))
            plain[...] = rng.randn(*a.shape)
            a0, m0 = np.array(a), np.array(plain)
            for nm, op, want in (('multi-plain', lambda: a - plain, a0 - m0), ('plain-multi', lambda: plain - a, m0 - a0), ('multi*plain', lambda: a * plain, a0 * m0)):
                r = op()
                check(f'mixed/{cls.__name__}/{shape}:{nm}:multi_component_class_and_components_kept', type(r) is cls and np.allclose(r, want) and hasattr(r, cls.components[0]), type(r).__name__)
            x = a
            x -= plain
            check(f'mixed/{cls.__name__}/{shape}:isub_plain:class_kept_other_name_unchanged', type(x) is cls and np.array_equal(a, a0) and np.allclose(x, a0 - m0), type(x).__name__)
    # particles / fields / acceleration
    for n in ((1,), (3,)) if tier == 'quick' else ((1,), (3,), (5,)):
        init = ((3, n[0]), None, np.dtype('float64'))
        p, q = particles(init), particles(init)
        for x in (p, q):
            x.pos[...] = rng.randn(*x.pos.shape)
            x.vel[...] = rng.randn(*x.vel.shape)
        p0 = (np.array(p.pos), np.array(p.vel))
        for nm, op in (('add', lambda a, b: a + b), ('sub', lambda a, b: a - b), ('rmul', lambda a, b: 2.0 * a)):
            r = op(p, q)
            check(f'particles/{n}:{nm}:type_and_new_buffers', type(r) is particles and not np.shares_memory(r.pos, p.pos) and not np.shares_memory(r.vel, p.vel) and not np.shares_memory(r.pos, q.pos))
            check(f'particles/{n}:{nm}:operands_unchanged', np.array_equal(p.pos, p0[0]) and np.array_equal(p.vel, p0[1]))
        alias = p
        r = p
        r += q
        check(f'particles/{n}:iadd:other_name_unchanged', np.array_equal(alias.pos, p0[0]) and np.array_equal(alias.vel, p0[1]))
        c = particles(p)
        c.pos[...] = 0
        check(f'particles/{n}:copy:independent', np.array_equal(p.pos, p0[0]) and not np.shares_memory(c.vel, p.vel))
        # charges and masses belong to the copy as well
        qm0 = (np.array(p.q), np.array(p.m))
        check(f'particles/{n}:copy:charges_and_masses_independent', not np.shares_memory(c.q, p.q) and not np.shares_memory(c.m, p.m) and np.array_equal(c.q, qm0[0]) and np.array_equal(c.m, qm0[1]))
        c.q[...] = -7.0
        c.m[...] = 11.0
        check(f'particles/{n}:copy:writing_charges_of_the_copy_leaves_the_original', np.array_equal(p.q, qm0[0]) and np.array_equal(p.m, qm0[1]))
        check(f'particles/{n}:abs:nonnegative', abs(p) >= 0)
        f, g = fields(init), fields(init)
        f.elec[...] = rng.randn(*f.elec.shape)
        f.magn[...] = rng.randn(*f.magn.shape)
        f0 = (np.array(f.elec), np.array(f.magn))
        for nm, op in (('add', lambda a, b: a + b), ('sub', lambda a, b: a - b), ('rmul', lambda a, b: 3.0 * a)):
            r = op(f, g)
            check(f'fields/{n}:{nm}:type_and_new_buffers', type(r) is fields and not np.shares_memory(r.elec, f.elec) and not np.shares_memory(r.magn, f.magn))
            check(f'fields/{n}:{nm}:operands_unchanged', np.array_equal(f.elec, f0[0]) and np.array_equal(f.magn, f0[1]))
        a = acceleration(init)
        a[...] = rng.randn(*a.shape)
        a0 = np.array(a)
        r = 2.0 * a + a
        check(f'acceleration/{n}:arith:new_and_unchanged', type(r) is acceleration and not np.shares_memory(r, a) and np.array_equal(a, a0))
    uniq = sorted(set(nm for nm, _ in fails))
    obs.append(dict(_ob('bounded:datatype_operator_contracts', not fails, dict(first=[(nm, str(i)) for nm, i in fails[:6]]))))
    return dict(contract='bounded:datatype_classes', prop='C13', inst={}, label='bounded', kind='bounded', obligations=obs, canaries=[], paths=1, status='ok',
                bounded=dict(what='operator / copy / view / norm contracts of mesh, imex_mesh, comp2_mesh, MeshDAE, particles, fields, acceleration evaluated at run time on the real classes',
                             bound=f'shapes {shapes}, float64 and complex128, 9 binary x 3 operand kinds, 6 unary, 3 augmented forms, out=', cases=n_cases, failures=len(fails), distinct=uniq[:8]))


def inplace_store_scan(tier, seed):
    """AST scan (informational, reported in the evidence): every in-place store `x[...] = ...`, `.fill(`, `out=` in the controller,
    sweeper and transfer sources whose target is a level data value. These are the places where a published object COULD be
    modified; the frame obligations of C02/C07/C10 cover the ones inside functions under contract."""
    import ast, glob, os

    repo = os.environ.get('VERIF_REPO', '/repo')
    files = [f'{repo}/pySDC/core/{f}' for f in ('sweeper.py', 'base_transfer.py', 'step.py', 'level.py')] + glob.glob(f'{repo}/pySDC/implementations/sweeper_classes/*.py') + [f'{repo}/pySDC/implementations/controller_classes/controller_nonMPI.py']
    found = []
    for fn in sorted(files):
        try:
            tree = ast.parse(open(fn).read())
        except Exception:
            continue
        for node in ast.walk(tree):
            if isinstance(node, (ast.Assign, ast.AugAssign)):
                tgts = node.targets if isinstance(node, ast.Assign) else [node.target]
                for t in tgts:
                    if isinstance(t, ast.Subscript) and isinstance(t.slice, (ast.Slice, ast.Constant)) and (isinstance(t.slice, ast.Slice) or t.slice.value is Ellipsis):
                        found.append(f'{os.path.relpath(fn, repo)}:{node.lineno}: {ast.unparse(node)[:90]}')
            if isinstance(node, ast.Call) and any(k.arg == 'out' for k in node.keywords):
                found.append(f'{os.path.relpath(fn, repo)}:{node.lineno}: {ast.unparse(node)[:90]}')
    ob = dict(_ob('scan:in_place_stores_listed', True), note=f'{len(found)} in-place stores')
    return dict(contract='scan:in_place_stores', prop='C13', inst={}, label='informational', kind='bounded', obligations=[ob], canaries=[], paths=1, status='ok',
                bounded=dict(what='AST scan for slice-assignment / out= stores in controller, sweeper and transfer sources', bound='informational', cases=len(found), failures=0, sites=found[:60]))


def _import_run_level():
    from contracts.C07_block import RestartBlock, RecvFull
    from contracts.C02_sweep import CONTRACTS as C02C
    from contracts.C02_dae import CONTRACTS as C02D
    from contracts.C02_boris import CONTRACTS as C02B
    from contracts.C02_rkimex import CONTRACTS as C02R
    from contracts.C14_stats import LogSolutionPostStep

    C02C = list(C02C) + list(C02D) + list(C02B) + list(C02R)

    out = []
    for base in [RestartBlock, RecvFull, LogSolutionPostStep] + [c for c in C02C if c.__name__.endswith('compute_end_point') or 'EndPoint' in c.__name__]:
        out.append(type(base.__name__ + '_C13', (base,), dict(prop='C13')))
    return out


CONTRACTS = [InitStep] + _import_run_level()
EXTRAS = [datatype_contracts, inplace_store_scan]
ASSUMPTIONS = ['numpy: a ufunc called without out= returns a fresh array and leaves its inputs unchanged (the data-type layer is a bounded run-time check on top of that)']
UNDECIDED = ['"every sweeper x controller combination" for the run-level clause: only the functions under contract in C02/C07/C10/C14 are covered',
             'cupy / petsc / fenics / firedrake data types']
