r"""
C17 -- spectral helper matrices agree with exact polynomial / Fourier calculus.

The helper builds its operators with numpy / scipy.sparse / scipy.fft (external). Each obligation is a contract clause on a
REAL builder for one resolution N (and interval where the operator carries the map), decided by applying the returned
operator to every basis coefficient vector and comparing with the coefficients of the exact operation computed by an
independent calculus (numpy.polynomial.chebyshev for T, three-term recurrences for U / C^(lambda), analytic formulas for
Fourier modes) -- evaluation per configuration: exhaustive over the enumerated N (quick: 1..12, thorough: 1..64 = the
stated range), double precision with a stated allowance. Transforms use the real scipy.fft (their correctness as DCT/FFT is
external; what is checked is pySDC's scaling: norm, first-coefficient halving, axis handling, interval map).
"""

import numpy as np
from numpy.polynomial import chebyshev as C


def _ob(name, ok, info=None):
    return dict(name=name, status='proved' if ok else 'refuted', backend='exact-oracle', seconds=0.0, kind='bounded', size=0,
                model=info if not ok else None, reason='', path=0)


def _pack(name, obs, what, bound):
    fails = [o for o in obs if o['status'] != 'proved']
    return dict(contract=name, prop='C17', inst={}, label='exhaustive over the enumerated N', kind='exact', obligations=obs, canaries=[], paths=1, status='ok',
                bounded=dict(what=what, bound=bound, cases=len(obs), failures=len(fails)))


class Guard:
    """an exception raised by the real builder for a configuration of the stated range is a refuted obligation, not a crash"""

    def __init__(self, obs, name):
        self.obs, self.name = obs, name

    def __enter__(self):
        return self

    def __exit__(self, et, ev, tb):
        if et is not None and issubclass(et, Exception):
            self.obs.append(_ob(f'{self.name}:builder_raises', False, dict(error=repr(ev)[:160])))
            return True
        return False


def Ns(tier):
    return list(range(1, 13)) if tier == 'quick' else list(range(1, 65))


def close(a, b, tol=1e-9):
    a, b = np.asarray(a), np.asarray(b)
    if a.shape != b.shape:
        return False
    scale = max(1.0, float(np.max(np.abs(b))) if b.size else 1.0)
    return bool(np.all(np.abs(a - b) <= tol * scale))


def pad(c, N):
    c = np.asarray(c, dtype=float)
    out = np.zeros(N)
    out[: min(N, len(c))] = c[:N]
    return out


def U_vals(c, x):
    """sum_k c_k U_k(x) by the recurrence"""
    U0, U1 = np.ones_like(x), 2 * x
    s = c[0] * U0 + (c[1] * U1 if len(c) > 1 else 0)
    for k in range(2, len(c)):
        U0, U1 = U1, 2 * x * U1 - U0
        s = s + c[k] * U1
    return s


def gegenbauer_vals(c, x, lam):
    """sum_k c_k C_k^(lam)(x)"""
    if lam == 0:
        return C.chebval(x, c)
    G0, G1 = np.ones_like(x), 2 * lam * x
    s = c[0] * G0 + (c[1] * G1 if len(c) > 1 else 0)
    for k in range(2, len(c)):
        G0, G1 = G1, (2 * (k + lam - 1) * x * G1 - (k + 2 * lam - 2) * G0) / k
        s = s + c[k] * G1
    return s


INTERVALS = [(-1.0, 1.0), (0.0, 1.0), (-3.5, 2.25), (10.0, 10.5)]


def check_chebychev(tier, seed):
    from pySDC.helpers.spectral_helper import ChebychevHelper

    obs = []
    xs = np.linspace(-1, 1, 17)
    for N in Ns(tier):
        for (x0, x1) in INTERVALS:
            h = ChebychevHelper(N, x0=x0, x1=x1)
            fac, off = (x1 - x0) / 2, (x1 + x0) / 2
            tag = f'cheby[N={N},[{x0},{x1}]]'
            grid = h.get_1dgrid()
            obs.append(_ob(f'{tag}:grid_is_mapped_gauss_chebyshev_points', close(grid, fac * np.cos(np.pi / N * (np.arange(N) + 0.5)) + off)))
            I = np.eye(N)
            # transforms: samples of T_k on the grid <-> unit coefficient vectors
            okT = okI = True
            for k in range(N):
                u = C.chebval((grid - off) / fac, I[k])
                okT = okT and close(h.transform(u), I[k], 1e-10)
                okI = okI and close(h.itransform(I[k].copy()), u, 1e-10)
            obs.append(_ob(f'{tag}:transform_of_T_k_samples_is_e_k', okT))
            obs.append(_ob(f'{tag}:itransform_of_e_k_is_T_k_samples', okI))
            r = np.random.RandomState(N).randn(N)
            obs.append(_ob(f'{tag}:transform_itransform_identity', close(h.itransform(h.transform(r)), r, 1e-10) and close(h.transform(h.itransform(r.copy())), r, 1e-10)))
            if N <= 12 and (x0, x1) == INTERVALS[0]:
                # the 1-D helper applied along SEVERAL axes of a tensor-product array in one call (same N in every direction): still mutually inverse,
                # and equal to the axis-by-axis application
                ok2 = True
                for nd, axes_ in ((2, (0, 1)), (2, (-1, -2)), (2, (1,)), (3, (0, 1, 2)), (3, (0, 2))):
                    a = np.random.RandomState(N + nd).randn(*([N] * nd))
                    ah = h.transform(a.copy(), axes=axes_)
                    step = a.copy()
                    for ax in axes_:
                        step = h.transform(step, axes=(ax,))
                    ok2 = ok2 and close(ah, step, 1e-9) and close(h.itransform(ah.copy(), axes=axes_), a, 1e-9)
                obs.append(_ob(f'{tag}:transforms_along_several_axes_in_one_call_are_mutually_inverse', ok2))
            if 4 <= N <= 16:
                # zero-padded backward transform (dealiasing layout; SpectralHelper applies the factor M / N): the low modes of ONE helper evaluated on
                # finer grids of SEVERAL sizes in sequence, with unpadded transforms in between, always give the polynomial on that fine grid
                okP, nm = True, min(4, N // 2)
                cf = np.random.RandomState(100 + N).randn(nm)
                for Mp in (N + 4, 2 * N, N + 4, N + 1):
                    uh_ = np.zeros(Mp)
                    uh_[:nm] = cf
                    try:
                        up = h.itransform(uh_) * Mp / N
                    except Exception:
                        okP = False
                        break
                    gf = ChebychevHelper(Mp, x0=x0, x1=x1).get_1dgrid()
                    okP = okP and close(up, C.chebval((gf - off) / fac, cf), 1e-10) and close(h.itransform(I[1].copy()), C.chebval((grid - off) / fac, I[1]), 1e-10)
                obs.append(_ob(f'{tag}:padded_itransform_of_low_modes_is_the_polynomial_on_every_finer_grid_in_sequence', okP))
            for p in (1, 2, 3):
                D = h.get_differentiation_matrix(p).toarray()
                want = np.array([pad(C.chebder(I[k], p) if k >= p else [0.0], N) for k in range(N)]).T / fac**p
                obs.append(_ob(f'{tag}:differentiation_matrix_p={p}', close(D, want, 1e-8)))
            w = h.get_integration_weights()
            want = np.array([fac * (C.chebval(1.0, C.chebint(I[k])) - C.chebval(-1.0, C.chebint(I[k]))) for k in range(N)])
            obs.append(_ob(f'{tag}:integration_weights', close(w, want, 1e-10)))
        # reference-interval-only operators
        h = ChebychevHelper(N)
        tag = f'cheby[N={N}]'
        I = np.eye(N)
        if N >= 2:
            with Guard(obs, f'{tag}:integration_matrix'):
                S = h.get_integration_matrix().toarray()
                ok = True
                for k in range(N - 1):
                    ok = ok and close(S[:, k], pad(C.chebint(I[k], lbnd=0), N), 1e-10)
                obs.append(_ob(f'{tag}:integration_matrix_from_zero', ok))
                D = h.get_differentiation_matrix().toarray()
                DS = D @ S
                obs.append(_ob(f'{tag}:D_S_is_identity_below_last_mode', close(DS[: N - 1, : N - 1], np.eye(N - 1), 1e-9)))
        with Guard(obs, f'{tag}:T2U_U2T'):
            T2U, U2T = h.get_conv('T2U').toarray(), h.get_conv('U2T').toarray()
            ok = close(T2U @ U2T, np.eye(N), 1e-10) and close(U2T @ T2U, np.eye(N), 1e-10)
            for k in range(N):
                ok = ok and close(U_vals(T2U[:, k], xs), C.chebval(xs, I[k]), 1e-10)
            obs.append(_ob(f'{tag}:T2U_U2T_mutually_inverse_and_T2U_preserves_the_polynomial', ok))
        with Guard(obs, f'{tag}:D2T_T2D'):
            D2T, T2D = h.get_conv('D2T').toarray(), h.get_conv('T2D').toarray()
            okd = close(D2T @ T2D, np.eye(N), 1e-9)
            for k in range(2, N):  # column k is T_k - T_{k-2}: vanishes at both boundary points (columns 0, 1 carry the boundary values)
                okd = okd and abs(C.chebval(1.0, D2T[:, k])) < 1e-12 and abs(C.chebval(-1.0, D2T[:, k])) < 1e-12
            obs.append(_ob(f'{tag}:dirichlet_recombination_vanishes_on_the_boundary_and_inverts', okd and close(h.get_Dirichlet_recombination_matrix().toarray(), D2T)))
        for x in (-1, 0, 1):
          with Guard(obs, f'{tag}:dirichlet_row_x={x}'):
            row = h.get_BC('dirichlet', x=x)
            obs.append(_ob(f'{tag}:dirichlet_row_x={x}', close(row, [C.chebval(float(x), I[k]) for k in range(N)], 1e-12)))
        for x in (-1, 1):
          with Guard(obs, f'{tag}:neumann_row_x={x}'):
            row = h.get_BC('neumann', x=x)
            obs.append(_ob(f'{tag}:neumann_row_x={x}', close(np.real(row), [C.chebval(float(x), C.chebder(I[k])) if k > 0 else 0.0 for k in range(N)], 1e-9)))
        with Guard(obs, f'{tag}:integral_row'):
          row = h.get_BC('integral')
          obs.append(_ob(f'{tag}:integral_row', close(row, [C.chebval(1.0, C.chebint(I[k])) - C.chebval(-1.0, C.chebint(I[k])) for k in range(N)], 1e-10)))
        obs.append(_ob(f'{tag}:norm', close(h.get_norm(), np.array([0.5 / N] + [1.0 / N] * (N - 1)))))
    return _pack('ChebychevHelper.*', obs, 'grid, transforms, differentiation (p=1..3), integration weights on arbitrary intervals; integration matrix, conversions, recombination, boundary rows on the reference interval',
                 f'N in {Ns(tier)[0]}..{Ns(tier)[-1]}, intervals {INTERVALS}')


def check_ultraspherical(tier, seed):
    from pySDC.helpers.spectral_helper import UltrasphericalHelper, ChebychevHelper

    obs = []
    xs = np.linspace(-1, 1, 13)
    for N in Ns(tier):
        for (x0, x1) in INTERVALS[:3]:
            u, c = UltrasphericalHelper(N, x0=x0, x1=x1), ChebychevHelper(N, x0=x0, x1=x1)
            tag = f'ultra[N={N},[{x0},{x1}]]'
            I = np.eye(N)
            for p in (1, 2, 3):
              if p >= N:
                  continue
              with Guard(obs, f'{tag}:D_{p}'):
                Dp = u.get_differentiation_matrix(p).toarray()
                conv = u.get_basis_change_matrix(p_in=0, p_out=p).toarray()
                dense = c.get_differentiation_matrix(p).toarray()
                obs.append(_ob(f'{tag}:sparse_D_{p}_equals_dense_chebyshev_after_conversion', close(Dp, conv @ dense, 1e-7)))
                # D_p e_k are the C^(p) coefficients of the p-th derivative of T_k (values compared on sample points)
                fac = (x1 - x0) / 2
                ok = True
                for k in range(N):
                    ok = ok and close(gegenbauer_vals(Dp[:, k], xs, p), C.chebval(xs, C.chebder(I[k], p) if k >= p else [0.0]) / fac**p, 1e-7)
                obs.append(_ob(f'{tag}:D_{p}_gives_ultraspherical_coefficients_of_the_derivative', ok))
            for lam in (0, 1, 2):
              with Guard(obs, f'{tag}:S_{lam}'):
                S = u.get_S(lam).toarray()
                ok = True
                for k in range(N):
                    ok = ok and close(gegenbauer_vals(S[:, k], xs, lam + 1), gegenbauer_vals(I[k], xs, lam), 1e-9)
                obs.append(_ob(f'{tag}:S_{lam}_converts_C^{lam}_to_C^{lam + 1}', ok))
            with Guard(obs, f'{tag}:basis_changes'):
                fwd, bck = u.get_basis_change_matrix(p_in=0, p_out=2).toarray(), u.get_basis_change_matrix(p_in=2, p_out=0).toarray()
                obs.append(_ob(f'{tag}:basis_changes_mutually_inverse', close(fwd @ bck, np.eye(N), 1e-8)))
            with Guard(obs, f'{tag}:basis_change_history'):
                # history: ONE helper object is asked for many conversions in a row (same source, different targets; repeated requests); every answer is
                # the one a fresh helper gives, up/down pairs are mutually inverse and conversions compose
                seq_ = [(2, 1), (2, 0), (2, 2), (3, 1), (3, 0), (3, 2), (1, 0), (2, 0), (0, 2), (2, 1), (0, 3), (3, 0)]
                ok_fresh = ok_inv = ok_comp = True
                for (pi, po) in seq_:
                    got = u.get_basis_change_matrix(p_in=pi, p_out=po).toarray()
                    fresh = UltrasphericalHelper(N, x0=x0, x1=x1).get_basis_change_matrix(p_in=pi, p_out=po).toarray()
                    ok_fresh = ok_fresh and close(got, fresh, 1e-12)
                    back_ = u.get_basis_change_matrix(p_in=po, p_out=pi).toarray()
                    ok_inv = ok_inv and close(got @ back_, np.eye(N), 1e-7)
                    if pi - po >= 2:
                        mid = u.get_basis_change_matrix(p_in=pi - 1, p_out=po).toarray() @ u.get_basis_change_matrix(p_in=pi, p_out=pi - 1).toarray()
                        ok_comp = ok_comp and close(got, mid, 1e-7)
                obs.append(_ob(f'{tag}:basis_change_sequence_on_one_helper_equals_fresh_helpers', ok_fresh))
                obs.append(_ob(f'{tag}:basis_change_sequence_pairs_mutually_inverse', ok_inv))
                obs.append(_ob(f'{tag}:basis_change_sequence_conversions_compose', ok_comp))
            if N >= 2:
                with Guard(obs, f'{tag}:integration'):
                    Sint = u.get_integration_matrix().toarray()
                    D = c.get_differentiation_matrix().toarray()
                    obs.append(_ob(f'{tag}:D_after_integration_is_identity_below_last_mode', close((D @ Sint)[: N - 1, : N - 1], np.eye(N - 1), 1e-8)))
    return _pack('UltrasphericalHelper.*', obs, 'sparse D_p = dense Chebyshev derivative after conversion, S_lambda conversions, inverse basis changes, integration', f'N in {Ns(tier)[0]}..{Ns(tier)[-1]}, 3 intervals')


def check_fft(tier, seed):
    from pySDC.helpers.spectral_helper import FFTHelper

    obs = []
    for N in Ns(tier):
        for (x0, x1) in [(0.0, 2 * np.pi), (0.0, 1.0), (-2.0, 3.5)]:
            h = FFTHelper(N, x0=x0, x1=x1)
            L = x1 - x0
            tag = f'fft[N={N},[{x0:.2f},{x1:.2f}]]'
            x = h.get_1dgrid()
            obs.append(_ob(f'{tag}:grid', close(x, x0 + L * np.arange(N) / N)))
            k = h.get_wavenumbers()
            kint = np.fft.fftfreq(N, 1.0 / N)
            obs.append(_ob(f'{tag}:wavenumbers', close(k, 2 * np.pi * kint / L)))
            ok = okD = okS = okW = True
            for j in range(N):
                u = np.exp(1j * k[j] * (x - x0))
                uh = h.transform(u)
                e = np.zeros(N, dtype=complex)
                e[j] = N
                ok = ok and close(uh, e, 1e-9) and close(h.itransform(uh), u, 1e-10)
                for p in (1, 2, 3):
                    D = h.get_differentiation_matrix(p).toarray()
                    okD = okD and close(D @ e, (1j * k[j]) ** p * e, 1e-9)
                S = h.get_integration_matrix().toarray()
                if kint[j] != 0:
                    okS = okS and close(h.get_differentiation_matrix().toarray() @ (S @ e), e, 1e-9)
                w = h.get_integration_weights()
                okW = okW and abs(w @ uh - (L if kint[j] == 0 else 0.0)) < 1e-9 * max(1, L)
            obs.append(_ob(f'{tag}:transform_of_modes_and_inverse', ok))
            obs.append(_ob(f'{tag}:differentiation_is_(ik)^p', okD))
            obs.append(_ob(f'{tag}:integration_inverts_differentiation_on_nonzero_modes', okS))
            obs.append(_ob(f'{tag}:integration_weights_and_integral_row', okW and close(h.get_BC('integral'), h.get_integration_weights())))
    return _pack('FFTHelper.*', obs, 'grid, wavenumbers, transforms of single modes, (ik)^p differentiation, integration, weights on arbitrary intervals', f'N in {Ns(tier)[0]}..{Ns(tier)[-1]}, 3 intervals')


def check_nd(tier, seed):
    from pySDC.helpers.spectral_helper import SpectralHelper, ChebychevHelper, FFTHelper, UltrasphericalHelper

    obs = []
    cases = [(('fft', 4), ('cheby', 5)), (('cheby', 3), ('cheby', 4)), (('fft', 4), ('fft', 6)), (('fft', 4), ('ultraspherical', 5)),
             # polynomial bases in an axis that is NOT the last one, mixed, and three dimensions
             (('ultraspherical', 4), ('cheby', 3)), (('cheby', 4), ('fft', 4)), (('ultraspherical', 3), ('cheby', 3), ('fft', 4))]
    if tier != 'quick':
        cases += [(('fft', 4), ('fft', 4), ('cheby', 3)), (('cheby', 6), ('fft', 8)), (('ultraspherical', 3), ('ultraspherical', 4)), (('cheby', 3), ('ultraspherical', 3), ('cheby', 4))]
    mk = dict(fft=FFTHelper, cheby=ChebychevHelper, ultraspherical=UltrasphericalHelper)
    for axes in cases:
        h = SpectralHelper()
        for b, n in axes:
            h.add_axis(b, N=n)
        h.add_component('u')
        h.setup_fft()
        one = [mk[b](n) for b, n in axes]
        tag = 'nd[' + ','.join(f'{b}{n}' for b, n in axes) + ']'
        for ax in range(len(axes)):
            mats = [np.eye(n) for _, n in axes]
            mats[ax] = one[ax].get_differentiation_matrix().toarray()
            want = mats[0]
            for m in mats[1:]:
                want = np.kron(want, m)
            obs.append(_ob(f'{tag}:differentiation_axis{ax}_is_tensor_product', close(h.get_differentiation_matrix(axes=(ax,)).toarray(), want, 1e-10)))
        obs.append(_ob(f'{tag}:identity', close(h.get_Id().toarray(), np.eye(int(np.prod([n for _, n in axes]))))))

        def kron_all(mats):
            want = mats[0]
            for m in mats[1:]:
                want = np.kron(want, m)
            return want

        # basis conversion: along the named axes, and along ALL axes when none is named (the documented default)
        for kw in (dict(conv='T2U', p_in=0, p_out=1), dict(conv='U2T', p_in=1, p_out=0), dict(conv='T2U', p_in=0, p_out=2)):
            one_d = [np.asarray(one[a].get_basis_change_matrix(**kw).toarray()) for a in range(len(axes))]
            ktag = ','.join(f'{k}={v}' for k, v in kw.items())
            obs.append(_ob(f'{tag}:basis_change[{ktag}]:default_is_tensor_product_over_all_axes', close(h.get_basis_change_matrix(**kw).toarray(), kron_all(one_d), 1e-10)))
            for ax in range(len(axes)):
                mats = [np.eye(n) for _, n in axes]
                mats[ax] = one_d[ax]
                obs.append(_ob(f'{tag}:basis_change[{ktag}]:axis{ax}_only', close(h.get_basis_change_matrix(axes=(ax,), **kw).toarray(), kron_all(mats), 1e-10)))
        # integration matrices along each polynomial axis
        nd = len(axes)
        for ax, (b, n) in enumerate(axes):
            if b == 'fft':
                continue
            mats = [np.eye(m) for _, m in axes]
            mats[ax] = np.asarray(one[ax].get_integration_matrix().toarray())
            obs.append(_ob(f'{tag}:integration_axis{ax}_is_tensor_product', close(h.get_integration_matrix(axes=(ax,)).toarray(), kron_all(mats), 1e-10)))
            # an axis may be named from the front or from the back (negative index): the SAME axis, the same operator
            obs.append(_ob(f'{tag}:integration_axis{ax - nd}_(negative_index)_is_the_same_axis', close(h.get_integration_matrix(axes=(ax - nd,)).toarray(), kron_all(mats), 1e-10)))
            mats[ax] = np.asarray(one[ax].get_Dirichlet_recombination_matrix().toarray())
            for name_ax in (ax, ax - nd):
                try:
                    got = h.get_Dirichlet_recombination_matrix(axis=name_ax).toarray()
                    ok = close(got, kron_all(mats), 1e-12)
                except Exception:
                    ok = False
                obs.append(_ob(f'{tag}:Dirichlet_recombination_axis{name_ax}_is_tensor_product', ok))
        for ax in range(nd):
            mats = [np.eye(n) for _, n in axes]
            mats[ax] = one[ax].get_differentiation_matrix().toarray()
            obs.append(_ob(f'{tag}:differentiation_axis{ax - nd}_(negative_index)_is_the_same_axis', close(h.get_differentiation_matrix(axes=(ax - nd,)).toarray(), kron_all(mats), 1e-10)))
        X = h.get_grid()
        rng = np.random.RandomState(3)
        u = rng.randn(1, *[n for _, n in axes])
        back = h.itransform(h.transform(u.copy()))
        obs.append(_ob(f'{tag}:transform_roundtrip', close(np.real(back), u, 1e-10)))
    return _pack('SpectralHelper.expand_matrix_ND/transform', obs, 'N-D operators are tensor products of the 1-D ones; transform round trip with mixed bases', f'{len(cases)} mixed-basis set-ups')


CONTRACTS = []
EXTRAS = [check_chebychev, check_ultraspherical, check_fft, check_nd]
ASSUMPTIONS = ['scipy.fft DCT/FFT, scipy.sparse and numpy.polynomial (oracle) are external', 'double precision with allowance 1e-7..1e-10 relative']
UNDECIDED = ['GPU / FFTW / MPI paths, vkFFT', 'problem classes built on the helper (generic_spectral, Burgers, heat Chebychev) are not under contract']
