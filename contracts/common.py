"""
Harness constructors shared by the contract files: they build REAL pySDC objects (Level, Step, sweepers, controllers)
and replace their scalar leaves by values from the maker (symbolic in proofs, concrete in replays).
"""

import importlib
import logging
import numpy as np

from vc import sym
from vc.vec import Vec
from vc.ghost.problem import AbstractProblem


def silence_logging():
    """Logger methods become no-ops: eager %-formatting of symbolic values must not abort a proof.
    (Listed in the evidence as the only side effect that is switched off.)"""
    for n in ('debug', 'info', 'warning', 'error', 'critical', 'exception', 'log'):
        setattr(logging.Logger, n, lambda self, *a, **k: None)


def resolve(target):
    """('pySDC/.../file.py', 'Class.method') -> (module, owner object, attribute name, function)"""
    path, qual = target
    modname = path[:-3].replace('/', '.')
    mod = importlib.import_module(modname)
    obj = mod
    parts = qual.split('.')
    for p in parts[:-1]:
        obj = getattr(obj, p)
    return mod, obj, parts[-1], getattr(obj, parts[-1])


def cls_of(path, name):
    return getattr(importlib.import_module(path[:-3].replace('/', '.')), name)


def make_level(sweeper_class, M, mk, kind='full', tau=False, sweeper_params=None, quad='RADAU-RIGHT', name='L',
               fill=True, level_params=None, do_coll_update=None, problem_class=None, problem_params=None):
    """a real Level with a real sweeper; dt, time, Q, weights, nodes and node data symbolic"""
    from pySDC.core.level import Level

    if problem_class is None:
        if mk.mode == 'sym':
            problem_class = AbstractProblem
        else:
            from vc.native import ConcreteLinearProblem as problem_class
    sp = dict(num_nodes=M, quad_type=quad)
    sp.update(sweeper_params or {})
    if do_coll_update is not None:
        sp['do_coll_update'] = do_coll_update
    pp = dict(kind=kind, name=f'{name}.P')
    pp.update(problem_params or {})
    lp = dict(dt=1.0)
    lp.update(level_params or {})
    L = Level(problem_class=problem_class, problem_params=pp, sweeper_class=sweeper_class, sweeper_params=sp,
              level_params=lp, level_index=0)
    sw = L.sweep
    L.params.dt = mk.real(f'{name}.dt')
    mk.assume(L.params.dt > 0, 'dt>0')
    L.status.time = mk.real(f'{name}.time')
    sw.coll.Qmat = mk.matrix(f'{name}.Q', M + 1, M + 1, lambda i, j: i >= 1 and j >= 1)
    sw.coll.weights = mk.vector(f'{name}.w', M)
    sw.coll.nodes = mk.vector(f'{name}.c', M)
    if fill:
        fill_level(L, mk, kind, tau, name)
    return L


def new_f(mk, kind, name):
    if mk.mode == 'native':
        from pySDC.implementations.datatype_classes.mesh import mesh, imex_mesh, comp2_mesh
        from vc.native import ConcreteLinearProblem as CP

        f = {'full': mesh, 'imex': imex_mesh, 'comp2': comp2_mesh}[kind]((CP.N, None, np.dtype('float64')))
        f[...] = mk.nrng.randn(*f.shape)
        return f
    if kind == 'full':
        return mk.vec(name, 'f')
    from vc.ghost.problem import VecIMEX, VecComp2

    f = (VecIMEX if kind == 'imex' else VecComp2)()
    for c in f.components:
        setattr(f, c, mk.vec(f'{name}.{c}', 'f'))
    return f


def fill_level(L, mk, kind='full', tau=False, name='L'):
    M = L.sweep.coll.num_nodes
    for m in range(M + 1):
        L.u[m] = mk.vec(f'{name}.u{m}')
        L.f[m] = new_f(mk, kind, f'{name}.f{m}')
    if tau:
        for m in range(M):
            L.tau[m] = mk.vec(f'{name}.tau{m}')
    L.status.unlocked = True


def lower(i, j):
    return i >= 1 and 1 <= j <= i


def strictly_lower0(i, j):
    # explicit type: strictly lower triangular, first column (dTau) included
    return i >= 1 and j < i


def cp(x):
    """copy of a data value (Vec, VecMulti, mesh, ...) or None"""
    return None if x is None else type(x)(x)


def ftot(f):
    if hasattr(f, 'total'):
        return f.total()
    comps = getattr(type(f), 'components', None)
    if comps:
        r = getattr(f, comps[0]) + getattr(f, comps[1])
        return r
    return f


def zero_like(x):
    return x * 0


def make_step(mk, M=1, kind='full', sweeper=('pySDC/implementations/sweeper_classes/generic_implicit.py', 'generic_implicit'),
              level_params=None, step_params=None, sweeper_params=None, nlevels=1, name='S', symbolic_level=True,
              space_transfer=None, Ms=None, base_transfer_params=None, base_transfer_class=None):
    """a real Step (real Levels, real sweepers) over the ghost problem; scalar leaves from the maker"""
    from pySDC.core.step import Step

    if mk.mode == 'sym':
        problem_class = AbstractProblem
    else:
        from vc.native import ConcreteLinearProblem as problem_class
    Ms = Ms or [M] * nlevels
    sp = dict(num_nodes=Ms if nlevels > 1 else Ms[0], quad_type='RADAU-RIGHT')
    sp.update(sweeper_params or {})
    lp = dict(dt=1.0)
    lp.update(level_params or {})
    d = dict(problem_class=problem_class, problem_params=dict(kind=kind, name=[f'{name}.P{l}' for l in range(nlevels)] if nlevels > 1 else f'{name}.P0'),
             sweeper_class=cls_of(*sweeper), sweeper_params=sp, level_params=lp, step_params=dict(step_params or {}))
    if nlevels > 1:
        d['space_transfer_class'] = space_transfer
        if base_transfer_params:
            d['base_transfer_params'] = base_transfer_params
        if base_transfer_class is not None:
            d['base_transfer_class'] = base_transfer_class
    S = Step(d)
    if symbolic_level:
        for l, L in enumerate(S.levels):
            n = f'{name}.L{l}'
            Ml = L.sweep.coll.num_nodes
            L.params.dt = mk.real(f'{name}.dt') if l == 0 else S.levels[0].params.dt
            if l == 0:
                mk.assume(L.params.dt > 0, 'dt>0')
            L.status.time = mk.real(f'{name}.time') if l == 0 else S.levels[0].status.time
            L.sweep.coll.Qmat = mk.matrix(f'{n}.Q', Ml + 1, Ml + 1, lambda i, j: i >= 1 and j >= 1)
            L.sweep.coll.weights = mk.vector(f'{n}.w', Ml)
            L.sweep.coll.nodes = mk.vector(f'{n}.c', Ml)
            if hasattr(L.sweep, 'QI'):
                L.sweep.QI = mk.matrix(f'{n}.QI', Ml + 1, Ml + 1, lower)
            if hasattr(L.sweep, 'QE'):
                L.sweep.QE = mk.matrix(f'{n}.QE', Ml + 1, Ml + 1, strictly_lower0)
    return S


def plant_earlier_end_value(st, L, value):
    """history for compute_end_point contracts: an end value of an earlier call is still stored on the level and somebody (a logging hook, the
    caller of run) holds on to that object"""
    L.uend = value
    st.uend_before, st.uend_before_copy = value, cp(value)
    return st


def earlier_end_value_clause(st, L):
    from vc.contract import veq
    from vc.sym import And

    a, b = st.uend_before, st.uend_before_copy
    if hasattr(a, 'pos') and hasattr(a, 'vel'):
        same = And(veq(a.pos, b.pos), veq(a.vel, b.vel))
    else:
        same = veq(a, b)
    return 'uend:earlier_end_value_object_neither_reused_nor_modified', (L.uend is not a) and bool(same) is True
