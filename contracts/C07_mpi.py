r"""
C07 / C03 (MPI flavour, per rank, sequential semantics) -- stage routines of controller_MPI: it_check, it_fine, send_full, recv_full.

Same ghost communicator idea as contracts/C06_mpi.py; the sweeper methods and convergence controllers are trace stubs (their contracts are
proved under C02/C03/C09). What is proved per rank:
  it_check : send, then receive, then the residual (stage IT_CHECK), then post_iteration (iter > 0), then every convergence controller's
             post_iteration_processing + convergence_control -- the residual used for stopping belongs to the values held AFTER the receive;
             not done -> iteration counter + 1, pre_iteration, next stage by configuration; done -> pending requests completed, post_step, DONE
             a forced stop (interrupt while waiting) leaves the routine at once
  it_fine  : per sweep: send, receive, pre_sweep, coefficients refreshed with the sweep index, node update, residual, post_sweep; then IT_CHECK
  send_full: end point computed before the send, message to the NEXT rank tagged level*100 + iter, the last rank sends nothing, the previous
             send of the level is completed first (non-blocking mode)
  recv_full: receives from the PREVIOUS rank with the same tag unless first or predecessor done; right-hand side of the received value re-evaluated
Message matching across ranks and completion order (C08) are not addressed.
"""

import numpy as np

from vc import sym
from vc.sym import And, Or, Not, Implies, Iff
from vc.vec import Vec
from vc.contract import Contract, State, veq, seq
from contracts import ctrl
from contracts.common import cp
from contracts.C06_mpi import setup as mpi_setup, GhostComm, VecMPI, CM


class Req:
    def __init__(self, log, what):
        self.log, self.what, self.waited, self.cancelled = log, what, False, False

    def Test(self):
        return True

    def Wait(self):
        self.waited = True
        self.log.append(('Wait', self.what))

    def Cancel(self):
        self.cancelled = True
        self.log.append(('Cancel', self.what))


class VecP2P(VecMPI):
    """data with the point-to-point methods of pySDC's mesh; every call is recorded in the shared log"""

    log = None
    mk = None

    def isend(self, dest=None, tag=None, comm=None):
        VecP2P.log.append(('isend', Vec(self), dest, tag, comm))
        return Req(VecP2P.log, ('isend', dest, tag))

    def irecv(self, source=None, tag=None, comm=None):
        new = VecP2P.mk.vec(f'received[{len(VecP2P.log)}]')
        VecP2P.log.append(('irecv', self, source, tag, comm, Vec(new)))
        self[:] = new
        return Req(VecP2P.log, ('irecv', source, tag))


def setup_stage(mk, inst, stage):
    st = mpi_setup(mk, dict(rank=inst['rank'], size=inst['size'], nlevels=inst.get('real_levels', 1), nsweeps=inst.get('nsweeps')))
    st.inst = inst
    c, S, tr, log = st.c, st.S, st.trace, st.log
    VecP2P.log, VecP2P.mk = log, mk
    a, r = inst['size'], inst['rank']
    st.comm = GhostComm(r, a, mk, log, name='active')
    S.status.slot, S.status.time_size = r, a
    S.prev, S.next = (r - 1) % a, (r + 1) % a
    S.status.first, S.status.last = r == 0, r == a - 1
    S.status.stage = stage
    S.status.done = False
    S.status.force_done = False
    S.status.prev_done = inst.get('prev_done', False)
    st.k = mk.int('iter')
    mk.assume(st.k >= 0, 'iter>=0')
    S.status.iter = st.k
    for l, L in enumerate(S.levels):
        L.status.time = mk.real('time')
        L.status.unlocked = True
        for m in range(len(L.u)):
            L.u[m] = VecP2P(mk.vec(f'u[{l},{m}]'))
            L.f[m] = mk.vec(f'f[{l},{m}]', 'f')
        ctrl.stub_sweeper(L, r, l, tr, st.fresh)
        orig_cep = L.sweep.compute_end_point

        def cep(L=L, orig=orig_cep):
            orig()
            L.uend = VecP2P(L.uend)

        L.sweep.compute_end_point = cep
    c.params.mssdc_jac = inst.get('mssdc_jac', True)
    c.params.use_iteration_estimator = False
    st.cc = ctrl.ArbitraryCC(tr, st.fresh, flags=('done',))
    c.convergence_controllers = [st.cc]
    c.convergence_controller_order = [0]
    c.req_send = [None] * len(S.levels)
    c.req_status = c.req_diff = c.req_ibcast = None
    del tr[:]
    del log[:]
    return st


def pos(seqn, pred):
    return [i for i, e in enumerate(seqn) if pred(e)]


class _StageMPI(Contract):
    prop = 'C07'
    label = 'instance-proved'
    native = False
    stubs = ('mpi4py communicator and point-to-point requests [ghost, sequential contracts]', 'sweeper methods [trace stubs; contracts under C02/C03]',
             'convergence controllers [arbitrary `done` flag]')
    assumptions = ('per-rank sequential semantics; schedules and message matching are C08 (not applicable)',)

    def rs(self, tier):
        return [(0, 1), (0, 2), (1, 2), (1, 3), (2, 3)]


class SendFullMPI(_StageMPI):
    name = 'controller_MPI.send_full'
    target = (CM, 'controller_MPI.send_full')

    def instances(self, tier):
        return [dict(rank=r, size=s, blocking=b, pending=p) for r, s in self.rs(tier) for b in (False, True) for p in (False, True)]

    def build(self, inst, mk):
        st = setup_stage(mk, inst, 'IT_FINE')
        if inst['pending']:
            st.c.req_send[0] = Req(st.log, 'previous send')
            st.prev_req = st.c.req_send[0]
        st.call = lambda: st.c.send_full(comm=st.comm, blocking=inst['blocking'], level=0)
        return st

    def post(self, st, old, result, exc):
        c, S, inst, log, tr = st.c, st.S, st.inst, st.log, st.trace
        yield 'returns_normally', exc is None
        if exc is not None:
            return
        merged = tr  # sweeper stubs
        cep = pos(tr, lambda e: e[:3] == ('compute_end_point', inst['rank'], 0))
        yield 'end_point_computed_once', len(cep) == 1
        sends = [e for e in log if e[0] == 'isend']
        if S.status.last:
            yield 'last_rank_sends_nothing', not sends
        else:
            yield 'one_message_to_the_next_rank', len(sends) == 1 and sends[0][2] == S.next and sends[0][4] is st.comm
            if len(sends) == 1:
                yield 'tag_is_level_times_100_plus_iteration', seq(sends[0][3], 0 * 100 + st.k)
                yield 'sent_value_is_the_freshly_computed_end_point', bool(veq(sends[0][1], S.levels[0].uend)) is True
                if inst['blocking']:
                    yield 'blocking:send_completed_before_return', c.req_send[0].waited
        if inst['pending'] and not inst['blocking']:
            w = pos(log, lambda e: e == ('Wait', 'previous send'))
            s_ = pos(log, lambda e: e[0] == 'isend')
            yield 'previous_send_of_the_level_completed_first', len(w) == 1 and (not s_ or w[0] < s_[0])
        yield 'hooks_grammar', [e[1] for e in tr if e[0] == 'hook'] == ['pre_comm', 'post_comm']

    def canary(self, st, old, result, exc):
        yield 'canary:always_sends', len([e for e in st.log if e[0] == 'isend']) == 1 and st.S.status.last


class RecvFullMPI(_StageMPI):
    name = 'controller_MPI.recv_full'
    target = (CM, 'controller_MPI.recv_full')

    def instances(self, tier):
        return [dict(rank=r, size=s, prev_done=p) for r, s in self.rs(tier) for p in (False, True)]

    def build(self, inst, mk):
        st = setup_stage(mk, inst, 'IT_FINE')
        st.u0_old = cp(st.S.levels[0].u[0])
        st.call = lambda: st.c.recv_full(comm=st.comm, level=0)
        return st

    def post(self, st, old, result, exc):
        S, inst, log, tr = st.S, st.inst, st.log, st.trace
        L = S.levels[0]
        yield 'returns_normally', exc is None
        if exc is not None:
            return
        recvs = [e for e in log if e[0] == 'irecv']
        expect = (not S.status.first) and (not inst['prev_done'])
        yield 'receives_iff_not_first_and_predecessor_still_running', (len(recvs) == 1) == expect and len(recvs) <= 1
        if recvs:
            yield 'from_the_previous_rank_with_matching_tag', recvs[0][2] == S.prev and bool(seq(recvs[0][3], 0 * 100 + st.k)) is True and recvs[0][4] is st.comm
            yield 'start_value_is_the_received_value', veq(L.u[0], recvs[0][5])
            er = L.prob.find_eval(L.f[0])
            yield 'rhs_of_received_value_re_evaluated_at_step_start', er is not None and bool(veq(er.u, L.u[0])) is True and bool(seq(er.t, L.status.time)) is True
            yield 'receive_completed', ('Wait', ('irecv', S.prev, recvs[0][3])) in log or any(e[0] == 'Wait' for e in log)
        else:
            yield 'start_value_untouched', veq(L.u[0], st.u0_old)
        yield 'hooks_grammar', [e[1] for e in tr if e[0] == 'hook'] == ['pre_comm', 'post_comm']

    def canary(self, st, old, result, exc):
        yield 'canary:never_receives', not [e for e in st.log if e[0] == 'irecv'] and not st.S.status.first and not st.inst['prev_done']


def _stub_comm(st):
    c, tr = st.c, st.trace

    def send_full(comm=None, blocking=False, level=None, add_to_stats=False):
        tr.append(('send_full', level, blocking))

    def recv_full(comm=None, level=None, add_to_stats=False):
        tr.append(('recv_full', level, add_to_stats))
        st.S.levels[level].u[0] = VecP2P(st.mk.vec(f'u0_after_recv[{len(tr)}]'))

    c.send_full, c.recv_full = send_full, recv_full


class ItCheckMPI(_StageMPI):
    name = 'controller_MPI.it_check'
    target = (CM, 'controller_MPI.it_check')

    def instances(self, tier):
        out = []
        for r, s in self.rs(tier):
            for nl in (1, 2):
                for jac in (True, False):
                    out.append(dict(rank=r, size=s, nlevels=nl, mssdc_jac=jac, pending=(r == 0)))
        return out

    def build(self, inst, mk):
        st = setup_stage(mk, inst, 'IT_CHECK')
        _stub_comm(st)
        if inst['nlevels'] == 2:
            st.S.levels.append(st.S.levels[0])  # only len(levels) matters for the stage decision
        if inst['pending']:
            st.c.req_send[0] = Req(st.log, 'send0')
            st.c.req_status = Req(st.log, 'status')
            st.c.req_diff = Req(st.log, 'diff')
        st.call = lambda: st.c.it_check(st.comm, inst['size'])
        return st

    def post(self, st, old, result, exc):
        c, S, inst, log, tr = st.c, st.S, st.inst, st.log, st.trace
        r = inst['rank']
        yield 'returns_normally', exc is None
        if exc is not None:
            return
        a, b = pos(tr, lambda e: e[0] == 'send_full'), pos(tr, lambda e: e[0] == 'recv_full')
        res = pos(tr, lambda e: e[:2] == ('compute_residual', r) and e[3] == 'IT_CHECK')
        pip = pos(tr, lambda e: e[:2] == ('cc', 'post_iteration_processing'))
        cco = pos(tr, lambda e: e[:2] == ('cc', 'convergence_control'))
        yield 'send_receive_residual_control_once_each', len(a) == len(b) == len(res) == len(pip) == len(cco) == 1
        if not (len(a) == len(b) == len(res) == len(pip) == len(cco) == 1):
            return
        yield 'C03:residual_after_send_and_receive_and_before_convergence_control', a[0] < b[0] < res[0] < pip[0] < cco[0]
        yield 'communication_on_the_finest_level', tr[a[0]][1] == 0 and tr[b[0]][1] == 0
        hooks = [e[1] for e in tr if e[0] == 'hook']
        done = bool(S.status.done)
        had_iter = bool(st.k > 0)
        exp = (['post_iteration'] if had_iter else []) + (['post_step'] if done else ['pre_iteration'])
        yield 'hooks_grammar', hooks == exp
        if had_iter:
            hp = pos(tr, lambda e: e[0] == 'hook' and e[1] == 'post_iteration')
            yield 'post_iteration_hook_sees_the_new_residual_before_the_decision', len(hp) == 1 and res[0] < hp[0] < pip[0]
        if done:
            yield 'done:stage_DONE_and_counter_kept', S.status.stage == 'DONE' and bool(seq(S.status.iter, st.k)) is True
            if inst['pending']:
                yield 'done:pending_requests_completed', all(('Wait', w) in log for w in ('send0', 'status', 'diff'))
        else:
            yield 'not_done:iteration_counter_plus_one', seq(S.status.iter, st.k + 1)
            nxt = 'IT_DOWN' if inst['nlevels'] == 2 else ('IT_FINE' if (inst['size'] == 1 or inst['mssdc_jac']) else 'IT_COARSE')
            yield 'not_done:next_stage_by_configuration', S.status.stage == nxt
            yield 'not_done:pre_iteration_processing', len(pos(tr, lambda e: e[:2] == ('cc', 'pre_iteration_processing'))) == 1

    def canary(self, st, old, result, exc):
        yield 'canary:always_done', st.S.status.stage == 'DONE'


class ItCheckMPIForced(_StageMPI):
    """a forced stop raised while communicating leaves it_check at once: no residual, no convergence control, no counter change"""

    name = 'controller_MPI.it_check [forced stop during communication]'
    target = (CM, 'controller_MPI.it_check')

    def instances(self, tier):
        return [dict(rank=1, size=2, at=w) for w in ('send', 'recv')]

    def build(self, inst, mk):
        st = setup_stage(mk, inst, 'IT_CHECK')
        _stub_comm(st)
        c, S, tr = st.c, st.S, st.trace
        orig_send, orig_recv = c.send_full, c.recv_full

        def send_full(**kw):
            orig_send(**kw)
            if inst['at'] == 'send':
                S.status.force_done = True

        def recv_full(**kw):
            orig_recv(**kw)
            if inst['at'] == 'recv':
                S.status.force_done = True

        c.send_full, c.recv_full = send_full, recv_full
        st.call = lambda: c.it_check(st.comm, inst['size'])
        return st

    def post(self, st, old, result, exc):
        S, tr, inst = st.S, st.trace, st.inst
        yield 'returns_normally', exc is None
        yield 'nothing_after_the_interrupted_communication', not [e for e in tr if e[0] in ('compute_residual', 'cc', 'hook')] and (inst['at'] == 'recv' or not [e for e in tr if e[0] == 'recv_full'])
        yield 'counter_and_stage_untouched', bool(seq(S.status.iter, st.k)) is True and S.status.stage == 'IT_CHECK'

    def canary(self, st, old, result, exc):
        yield 'canary:residual_computed_anyway', bool([e for e in st.trace if e[0] == 'compute_residual'])


class ItFineMPI(_StageMPI):
    name = 'controller_MPI.it_fine'
    target = (CM, 'controller_MPI.it_fine')

    def instances(self, tier):
        return [dict(rank=r, size=s, nsweeps=ns) for r, s in self.rs(tier) for ns in (1, 2, 3)]

    def build(self, inst, mk):
        st = setup_stage(mk, inst, 'IT_FINE')
        _stub_comm(st)
        st.S.levels[0].params.nsweeps = inst['nsweeps']
        st.call = lambda: st.c.it_fine(st.comm, inst['size'])
        return st

    def post(self, st, old, result, exc):
        S, inst, tr = st.S, st.inst, st.trace
        r, ns = inst['rank'], inst['nsweeps']
        yield 'returns_normally', exc is None
        if exc is not None:
            return
        a, b = pos(tr, lambda e: e[0] == 'send_full'), pos(tr, lambda e: e[0] == 'recv_full')
        v = pos(tr, lambda e: e[:3] == ('updateVariableCoeffs', r, 0))
        u = pos(tr, lambda e: e[:3] == ('update_nodes', r, 0))
        res = pos(tr, lambda e: e[:3] == ('compute_residual', r, 0) and e[3] == 'IT_FINE')
        ok = len(a) == len(b) == len(v) == len(u) == len(res) == ns
        yield 'one_send_recv_coeffs_sweep_residual_per_sweep', ok
        if ok:
            yield 'order_send_recv_coeffs_sweep_residual', all(a[k] < b[k] < v[k] < u[k] < res[k] for k in range(ns)) and all(res[k] < a[k + 1] for k in range(ns - 1))
            yield 'variable_coefficients_refreshed_with_sweep_index', [tr[i][3] for i in v] == list(range(1, ns + 1))
            yield 'statistics_closed_on_the_last_receive_only', [tr[i][2] for i in b] == [False] * (ns - 1) + [True]
        yield 'hooks_grammar', [e[1] for e in tr if e[0] == 'hook'] == ['pre_sweep', 'post_sweep'] * ns
        yield 'stage_next_and_sweep_counter', S.status.stage == 'IT_CHECK' and S.levels[0].status.sweep == ns

    def canary(self, st, old, result, exc):
        yield 'canary:single_sweep_only', len([e for e in st.trace if e[0] == 'update_nodes']) == 1 and st.inst['nsweeps'] > 1


class CommunicateConvergenceMPI(_StageMPI):
    """CheckConvergence.communicate_convergence (MPI): a rank is done only if its predecessor is (done' = done and received flag), and it
    forwards its own decision; with all_to_done the decision is the conjunction over all ranks (or a forced stop anywhere)"""

    name = 'CheckConvergence.communicate_convergence'
    target = ('pySDC/implementations/convergence_controller_classes/check_convergence.py', 'CheckConvergence.communicate_convergence')

    def instances(self, tier):
        out = []
        for r, s in self.rs(tier):
            out.append(dict(rank=r, size=s, all_to_done=True, prev_done=False, incoming=None))
            for pd in (False, True):
                for inc in (False, True):
                    out.append(dict(rank=r, size=s, all_to_done=False, prev_done=pd, incoming=inc))
        return out

    def build(self, inst, mk):
        import numpy as onp
        from contracts.C09_mpi import P2PComm

        st = setup_stage(mk, inst, 'IT_CHECK')
        c, S = st.c, st.S
        CC = next(x for x in st.real_ccs if type(x).__name__ == 'CheckConvergence')
        st.CC = CC
        c.params.all_to_done = inst['all_to_done']
        comm = P2PComm(inst['rank'], inst['size'], mk, st.log, name='active')
        comm.incoming = onp.array([inst['incoming']], dtype=bool) if inst['incoming'] is not None else None
        st.others_and, st.others_or = mk.bool('all_others_done'), mk.bool('some_other_forced')

        def allreduce(sendobj=None, op=None):
            st.log.append(('allreduce', sendobj, op))
            return sym.And(sendobj, st.others_and) if op == CC.MPI_LAND else sym.Or(sendobj, st.others_or)

        comm.allreduce = allreduce
        st.comm = comm
        S.status.done = mk.bool('done')
        S.status.force_done = mk.bool('force_done') if inst['all_to_done'] else False
        st.done0, st.force0 = S.status.done, S.status.force_done
        st.call = lambda: CC.communicate_convergence(c, S, comm)
        return st

    def post(self, st, old, result, exc):
        S, inst, log, tr = st.S, st.inst, st.log, st.trace
        r, n = inst['rank'], inst['size']
        yield 'returns_normally', exc is None
        if exc is not None:
            return
        if inst['all_to_done']:
            forced = sym.Or(st.force0, st.others_or)
            yield 'all_to_done:forced_stop_anywhere_forces_everyone', Iff(S.status.force_done, forced)
            yield 'all_to_done:done_iff_everyone_done_or_forced', Iff(S.status.done, sym.Or(sym.And(st.done0, st.others_and), forced))
        else:
            recvs = [e for e in log if e[0] == 'Recv']
            sends = [e for e in log if e[0] in ('Send', 'Isend')]
            listen = r > 0 and not inst['prev_done']
            yield 'receives_predecessors_status_iff_it_was_still_running', (len(recvs) == 1) == listen and len(recvs) <= 1 and (not recvs or recvs[0][1] == r - 1)
            want = sym.And(st.done0, bool(inst['incoming'])) if listen else st.done0
            yield 'done_only_if_predecessor_done', Iff(S.status.done, want)
            if listen:
                yield 'prev_done_is_the_received_flag', bool(S.status.prev_done) == bool(inst['incoming'])
            if r < n - 1:
                yield 'forwards_own_decision_to_the_next_rank', len(sends) == 1 and sends[0][1] == r + 1 and bool(Iff(bool(sends[0][3][0]), want)) is True
            else:
                yield 'last_rank_sends_nothing', not sends
        yield 'hooks_grammar', [e[1] for e in tr if e[0] == 'hook'] == ['pre_comm', 'post_comm']

    def canary(self, st, old, result, exc):
        yield 'canary:done_flag_unchanged', Iff(st.S.status.done, st.done0) and (st.inst['all_to_done'] or (st.inst['rank'] > 0 and not st.inst['prev_done'] and not st.inst['incoming']))


def _stub_transfer(st):
    S, tr = st.S, st.trace

    def transfer(source=None, target=None):
        tr.append(('transfer', S.levels.index(source), S.levels.index(target)))

    S.transfer = transfer


def _sweep_block(r, l, stage, add=False):
    return [('send_full', l, False), ('recv_full', l, add), ('hook', 'pre_sweep', l), ('update_nodes', r, l), ('compute_residual', r, l, stage), ('hook', 'post_sweep', l)]


def _norm(tr):
    out = []
    for e in tr:
        if e[0] == 'hook':
            out.append(('hook', e[1], e[3]))
        elif e[0] in ('send_full', 'recv_full', 'transfer', 'update_nodes', 'compute_residual', 'compute_end_point', 'predict'):
            out.append(tuple(e))
    return out


class LevelCyclesMPI(_StageMPI):
    """it_down / it_coarse / it_up of controller_MPI: the exact order of transfers, communications, hooks, sweeps and residuals per level"""

    name = 'controller_MPI.it_down / it_coarse / it_up'
    target = (CM, 'controller_MPI.it_down')

    def instances(self, tier):
        out = []
        for r, s in ((0, 1), (0, 2), (1, 2)):
            for nl, ns in ((2, [1, 1]), (3, [1, 2, 1]), (4, [2, 1, 3, 1])):
                for fn in ('it_down', 'it_coarse', 'it_up'):
                    out.append(dict(rank=r, size=s, real_levels=nl, nsweeps=ns, fn=fn))
        out.append(dict(rank=0, size=1, real_levels=1, nsweeps=None, fn='it_coarse'))
        return out

    def build(self, inst, mk):
        st = setup_stage(mk, inst, {'it_down': 'IT_DOWN', 'it_coarse': 'IT_COARSE', 'it_up': 'IT_UP'}[inst['fn']])
        _stub_comm(st)
        _stub_transfer(st)
        orig_send = st.c.send_full

        def send_full(comm=None, blocking=False, level=None, add_to_stats=False):
            st.trace.append(('send_full', level, blocking) if not add_to_stats else ('send_full', level, blocking, 'stats'))

        st.c.send_full = send_full
        st.call = lambda: getattr(st.c, inst['fn'])(st.comm, inst['size'])
        return st

    def post(self, st, old, result, exc):
        S, inst = st.S, st.inst
        r, nl, ns, fn = inst['rank'], inst['real_levels'], inst['nsweeps'] or [1], inst['fn']
        yield 'returns_normally', exc is None
        if exc is not None:
            return
        want = []
        if fn == 'it_down':
            want.append(('transfer', 0, 1))
            for l in range(1, nl - 1):
                for _ in range(ns[l]):
                    want += _sweep_block(r, l, 'IT_DOWN')
                want.append(('transfer', l, l + 1))
            nxt = 'IT_COARSE'
        elif fn == 'it_coarse':
            l = nl - 1
            want += [('recv_full', l, False), ('hook', 'pre_sweep', l), ('update_nodes', r, l), ('compute_residual', r, l, 'IT_COARSE'), ('hook', 'post_sweep', l), ('compute_end_point', r, l),
                     ('send_full', l, True, 'stats')]
            nxt = 'IT_UP' if nl > 1 else 'IT_CHECK'
        else:
            for l in range(nl - 1, 0, -1):
                want.append(('transfer', l, l - 1))
                if l - 1 > 0:
                    for k in range(ns[l - 1]):
                        want += _sweep_block(r, l - 1, 'IT_UP', add=(k == ns[l - 1] - 1))
            nxt = 'IT_FINE'
        got = _norm(st.trace)
        yield 'exact_order_of_transfers_communication_hooks_sweeps_residuals', got == want
        yield 'next_stage', S.status.stage == nxt

    def canary(self, st, old, result, exc):
        yield 'canary:nothing_happens', _norm(st.trace) == []


class PfasstDispatchMPI(_StageMPI):
    name = 'controller_MPI.pfasst'
    target = (CM, 'controller_MPI.pfasst')
    from pySDC.core.errors import ControllerError

    expected_exceptions = (ControllerError, TypeError)

    def instances(self, tier):
        return [dict(rank=0, size=2, stage=s) for s in ('SPREAD', 'PREDICT', 'IT_CHECK', 'IT_FINE', 'IT_DOWN', 'IT_COARSE', 'IT_UP', 'BOGUS', 'DONE')]

    def build(self, inst, mk):
        st = setup_stage(mk, inst, inst['stage'])
        for stg, fn in zip(('SPREAD', 'PREDICT', 'IT_CHECK', 'IT_FINE', 'IT_DOWN', 'IT_COARSE', 'IT_UP'), ('spread', 'predict', 'it_check', 'it_fine', 'it_down', 'it_coarse', 'it_up')):
            setattr(st.c, fn, (lambda comm, num_procs, stg=stg: st.trace.append(('stage', stg, comm, num_procs))))
        real_pfasst = type(st.c).pfasst.__get__(st.c)  # the harness' block stub is for run(); here the real dispatcher is under contract
        st.call = lambda: real_pfasst(st.comm, inst['size'])
        return st

    def post(self, st, old, result, exc):
        inst = st.inst
        if inst['stage'] in ('BOGUS', 'DONE'):
            # the code means to raise ControllerError('Weird stage') but calls default() with one argument too many (TypeError): rejected either way
            yield 'unknown_stage_rejected_with_an_exception_and_nothing_run', exc is not None and not st.trace
        else:
            yield 'returns_normally', exc is None
            yield 'dispatches_once_to_the_stage_function', st.trace == [('stage', inst['stage'], st.comm, inst['size'])]

    def canary(self, st, old, result, exc):
        yield 'canary:never_raises', exc is None and st.inst['stage'] in ('BOGUS', 'DONE')


class SpreadMPI(_StageMPI):
    name = 'controller_MPI.spread'
    target = (CM, 'controller_MPI.spread')

    def instances(self, tier):
        return [dict(rank=r, size=s, real_levels=nl, nsweeps=None) for r, s in ((0, 1), (1, 2)) for nl in (1, 2)]

    def build(self, inst, mk):
        st = setup_stage(mk, inst, 'SPREAD')
        st.call = lambda: st.c.spread(st.comm, inst['size'])
        return st

    def post(self, st, old, result, exc):
        S, inst, tr = st.S, st.inst, st.trace
        yield 'returns_normally', exc is None
        if exc is not None:
            return
        got = [(e[0], e[1]) if e[0] == 'hook' else (e[0], e[1] if e[0] == 'cc' else e[2]) for e in tr if e[0] in ('hook', 'predict', 'cc')]
        yield 'pre_step_hook_then_fine_predictor_then_post_spread_processing', got == [('hook', 'pre_step'), ('predict', 0), ('cc', 'post_spread_processing')]
        yield 'next_stage', S.status.stage == ('PREDICT' if inst['real_levels'] > 1 else 'IT_CHECK')

    def canary(self, st, old, result, exc):
        yield 'canary:stage_unchanged', st.S.status.stage == 'SPREAD'


def _c03(b):
    return type(b.__name__ + '_C03', (b,), dict(prop='C03'))


CONTRACTS = [SendFullMPI, RecvFullMPI, ItCheckMPI, ItCheckMPIForced, ItFineMPI, CommunicateConvergenceMPI, LevelCyclesMPI, PfasstDispatchMPI, SpreadMPI]
