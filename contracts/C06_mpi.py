r"""
C06 (MPI flavour, per rank, SEQUENTIAL semantics) -- controller_MPI.run and controller_MPI.restart_block.

mpi4py is absent in this sandbox; the module is imported over a GHOST `mpi4py` (installed only for the import, removed
again) and the communicator is a ghost object whose collectives obey their sequential contracts:
    allgather(x) -> list of `size` values whose entry [rank] is x, the others arbitrary (fresh symbols)
    bcast(x, root) / data.bcast(root, comm) -> x on the root, an arbitrary value elsewhere
    Split(color) -> a new communicator; the ranks that stay active form a prefix, so an active rank keeps its rank
What is proved is the PER-RANK algebra of the time axis: which time / value each rank contributes and uses, when it is
active, how the next block is seeded. Schedules, message matching and non-blocking completion (property C08) are NOT
touched by this -- C08 stays not applicable.

run is cut at `while active` (vc/cut.py). Loop body, rank s of a active ranks:
    a restart is requested somewhere (flags upward closed, C09): the block restarts at the FIRST requesting rank k: its start time and its
        start value are broadcast from k; otherwise end time and end value of the LAST rank are broadcast
    new start time = broadcast time + sum of the new step sizes of the ranks before me;  active iff < Tend - 10 eps
    the communicator is split iff the last rank is no longer active; an active rank re-initialises its step with (size, time, value)
"""

import sys
import types
import numpy as np

from vc import sym
from vc.sym import And, Or, Not, Implies, Iff
from vc.vec import Vec
from vc.cut import Cut
from vc.contract import Contract, State, veq, seq, snapshot
from vc.ghost.problem import AbstractProblem
from contracts.common import cp, cls_of
from contracts import ctrl

CM = 'pySDC/implementations/controller_classes/controller_MPI.py'
EPS10 = 10 * np.finfo(float).eps


class VecMPI(Vec):
    """data type twin with the mpi4py-style methods of pySDC's mesh"""

    def bcast(self, root=None, comm=None):
        return comm.bcast_data(self, root)


class MPIProblem(AbstractProblem):
    def __init__(self, **kw):
        super().__init__(**kw)
        self.dtype_u = VecMPI

    @property
    def u_init(self):
        return VecMPI()


class GhostComm:
    def __init__(self, rank, size, mk, log, name='comm', split_to=None):
        self.rank, self.size, self.mk, self.log, self.name, self.split_to = rank, size, mk, log, name, split_to
        self.freed = False
        self.n = 0

    def Get_rank(self):
        return self.rank

    def Get_size(self):
        return self.size

    def _fresh_like(self, x, tag):
        self.n += 1
        nm = f'{self.name}.{tag}{self.n}'
        if isinstance(x, (bool, np.bool_, sym.SBool)):
            return self.mk.bool(nm)
        if isinstance(x, Vec):
            return VecMPI(self.mk.vec(nm))
        return self.mk.real(nm)

    def allgather(self, x):
        vals = [x if j == self.rank else self._fresh_like(x, f'ag[{j}]') for j in range(self.size)]
        self.log.append(('allgather', self, x, vals))
        return vals

    def bcast(self, x, root=0):
        r = x if root == self.rank else self._fresh_like(x, f'bc[{root}]')
        self.log.append(('bcast', self, x, root, r))
        return r

    def bcast_data(self, x, root):
        r = x if root == self.rank else self._fresh_like(x, f'bcd[{root}]')
        self.log.append(('bcast_data', self, x, root, r))
        return r

    def Split(self, color=0, key=0):
        active = bool(color)
        new_size = self.split_to if (active and self.split_to is not None) else (self.size if active else 1)
        new = GhostComm(self.rank if active else 0, new_size, self.mk, self.log, name=self.name + "'")
        self.log.append(('Split', self, color, new))
        return new

    def Barrier(self):
        self.log.append(('Barrier', self))

    def Free(self):
        self.freed = True
        self.log.append(('Free', self))


class ghost_mpi4py:
    """context manager: a ghost `mpi4py` is importable inside the block (unless a real one is installed) and removed afterwards"""

    def __enter__(self):
        self.had = 'mpi4py' in sys.modules
        if not self.had:
            m = types.ModuleType('mpi4py')
            MPI = types.ModuleType('mpi4py.MPI')
            MPI.Intracomm = GhostComm
            MPI.SUM, MPI.MAX, MPI.MIN, MPI.LOR, MPI.LAND = 'SUM', 'MAX', 'MIN', 'LOR', 'LAND'
            MPI.INT, MPI.DOUBLE, MPI.BOOL = 'INT', 'DOUBLE', 'BOOL'
            m.MPI = MPI
            sys.modules['mpi4py'], sys.modules['mpi4py.MPI'] = m, MPI
        return self

    def __exit__(self, *a):
        if not self.had:
            sys.modules.pop('mpi4py', None)
            sys.modules.pop('mpi4py.MPI', None)
        return False


def load_controller_MPI():
    """import controller_MPI over the ghost mpi4py"""
    import importlib

    name = 'pySDC.implementations.controller_classes.controller_MPI'
    if name in sys.modules:
        return sys.modules[name]
    with ghost_mpi4py():
        return importlib.import_module(name)


class DtCC(ctrl.ArbitraryCC):
    """prepare_next_block stub (C09 contract): the step's size afterwards is an arbitrary positive value"""

    def __init__(self, trace, fresh, mk):
        super().__init__(trace, fresh, flags=())
        self.mk = mk

    def prepare_next_block(self, controller, S, size, time, Tend, **kw):
        self.trace.append(('cc', 'prepare_next_block', S.status.slot, size, time, Tend, kw.get('comm')))
        for l, L in enumerate(S.levels):
            # coarse levels carry their own value (see C06_tiling.StepSizeCC)
            dt = self.fresh.real('dt_next_block' if l == 0 else f'dt_next_block_L{l}')
            self.mk.assume(dt > 0, 'callee post: step size > 0')
            L.params.dt = dt

    def post_step_processing(self, controller, S, **kw):
        self.trace.append(('cc', 'post_step_processing', S.status.slot, kw.get('comm')))

    def post_run_processing(self, controller, S, **kw):
        self.trace.append(('cc', 'post_run_processing', S.status.slot, kw.get('comm')))


def setup(mk, inst, stub_restart_block=True):
    from pySDC.implementations.sweeper_classes.generic_implicit import generic_implicit

    mod = load_controller_MPI()
    log, trace = [], []
    world = GhostComm(inst['rank'], inst.get('world_size', inst['size']), mk, log, name='world', split_to=inst.get('split_to'))
    nl = inst.get('nlevels', 1)
    d = dict(problem_class=MPIProblem, problem_params=dict(kind='full', name='P0' if nl == 1 else [f'P{l}' for l in range(nl)]), sweeper_class=generic_implicit,
             sweeper_params=dict(num_nodes=2 if nl == 1 else [2] * nl, quad_type='RADAU-RIGHT'), level_params=dict(dt=1.0, restol=1e-10), step_params=dict(maxiter=5))
    if nl > 1:
        d['space_transfer_class'] = ctrl.LinearSpaceTransfer
        if inst.get('nsweeps'):
            d['level_params']['nsweeps'] = list(inst['nsweeps'])
    with ghost_mpi4py():
        c = mod.controller_MPI(controller_params=dict(logger_level=40, hook_class=[ctrl.make_rec_hook(trace)], dump_setup=False), description=d, comm=world)
    c._Controller__hooks = [h for h in c.hooks if type(h).__name__ == 'RecHook']
    fresh = ctrl.Fresh(mk)
    cc = DtCC(trace, fresh, mk)
    real_ccs = list(c.convergence_controllers)  # the real (MPI flavoured) convergence controllers, for their own contracts
    c.convergence_controllers = [cc]
    c.convergence_controller_order = [0]
    S = c.S
    dt = mk.real('dt_mine')
    mk.assume(dt > 0, 'dt>0')
    for l, L in enumerate(S.levels):
        L.params.dt = dt if l == 0 else mk.real(f'dt_mine_L{l}')
        if l > 0:
            mk.assume(L.params.dt > 0, 'dt>0')
    st = State(c=c, S=S, log=log, trace=trace, world=world, mk=mk, fresh=fresh, inst=inst, dt=dt, mod=mod, real_ccs=real_ccs)

    if stub_restart_block:
        def restart_block(size, time, u0, comm):
            trace.append(('restart_block', size, time, u0, comm))
            S.status.done = False
            S.status.restart = False
            for L in S.levels:
                L.status.time = time
            S.levels[0].u[0] = cp(u0)

        c.restart_block = restart_block

    def pfasst(comm, num_procs):
        # block contract (C07/C01): the block finishes for this rank; it holds an end value; its restart request is arbitrary
        trace.append(('pfasst', comm, num_procs))
        S.status.done = True
        S.status.stage = 'DONE'
        S.levels[0].uend = VecMPI(mk.vec('uend_mine'))
        st.uend_mine = S.levels[0].uend
        S.status.restart = mk.bool('restart_mine')
        st.restart_mine = S.status.restart

    c.pfasst = pfasst
    st.cut = Cut(mod.controller_MPI.run, 0, kind='while')
    del trace[:]
    del log[:]
    return st


def thr(Tend):
    return Tend - EPS10


class _MPIBase(Contract):
    prop = 'C06'
    label = 'instance-proved'
    native = False
    target = (CM, 'controller_MPI.run')
    stubs = ('mpi4py communicator [ghost: sequential contracts of allgather / bcast / Split, see module docstring]',
             'controller_MPI.pfasst [block contract: finishes, end value present, restart request arbitrary]',
             'ConvergenceController.prepare_next_block / post_step_processing [C09 contracts; step size afterwards arbitrary positive]')
    assumptions = ('per-rank sequential semantics of the collectives; schedules and message matching are C08 (not applicable)',
                   'restart requests of a block are upward closed in the rank (C09: BasicRestarting.determine_restart)')

    def rank_sizes(self, tier):
        top = 3 if tier == 'quick' else 4
        return [(r, s) for s in range(1, top + 1) for r in range(s)]


class RunEntryMPI(_MPIBase):
    name = 'controller_MPI.run[entry]'
    from pySDC.core.errors import ControllerError

    expected_exceptions = (ControllerError,)

    def instances(self, tier):
        return [dict(rank=r, size=s) for r, s in self.rank_sizes(tier)]

    def build(self, inst, mk):
        st = setup(mk, inst)
        st.t0, st.Tend, st.u0 = mk.real('t0'), mk.real('Tend'), VecMPI(mk.vec('u0'))
        st.call = lambda: st.cut.pre(st.c, st.u0, st.t0, st.Tend)
        return st

    def post(self, st, old, result, exc):
        c, S, inst, log, tr = st.c, st.S, st.inst, st.log, st.trace
        ag = [e for e in log if e[0] == 'allgather']
        yield 'step_sizes_gathered_on_the_world_communicator', len(ag) >= 1 and ag[0][1] is st.world and ag[0][2] is st.dt
        if not ag:
            return
        all_dt = ag[0][3]
        mytime = st.t0 + sum(all_dt[: inst['rank']])
        active = mytime < thr(st.Tend)
        sp = [e for e in log if e[0] == 'Split']
        yield 'split_by_activity', len(sp) == 1 and sp[0][1] is st.world
        if inst['rank'] == 0:
            yield 'first_rank_raises_iff_nothing_to_do', Iff(isinstance(exc, self.ControllerError), Not(active))
        else:
            yield 'other_ranks_do_not_raise', exc is None
        if exc is not None:
            yield 'no_block_started_on_error', not [e for e in tr if e[0] == 'restart_block']
            return
        L = result
        yield 'my_start_time_is_t0_plus_step_sizes_of_the_ranks_before_me', seq(L['time'], mytime)
        yield 'active_iff_start_time_before_Tend', Iff(L['active'], active)
        yield 'slot_is_rank_in_the_active_communicator', S.status.slot == L['comm_active'].rank and L['comm_active'] is sp[0][3]
        rb = [e for e in tr if e[0] == 'restart_block']
        yield 'block_initialised_once_with_u0_and_my_time', len(rb) == 1 and rb[0][1] == L['comm_active'].size and bool(seq(rb[0][2], mytime)) is True and rb[0][3] is st.u0 and rb[0][4] is L['comm_active']
        yield 'carried_value_initially_u0', L['uend'] is st.u0
        hk = [e[1] for e in tr if e[0] == 'hook']
        yield 'pre_run_after_setup', hk == ['post_setup', 'pre_run']

    def canary(self, st, old, result, exc):
        if exc is None:
            yield 'canary:start_time_is_t0', seq(result['time'], st.t0) if st.inst['rank'] > 0 else False


class RunBodyMPI(_MPIBase):
    name = 'controller_MPI.run[loop body]'

    def instances(self, tier):
        out = []
        for r, s in self.rank_sizes(tier):
            for split_to in range(r + 1, s + 1):
                out.append(dict(rank=r, size=s, split_to=split_to, world_size=s + 1))  # the world may hold ranks that are inactive already
        return out

    def build(self, inst, mk):
        st = setup(mk, inst)
        c, S = st.c, st.S
        a, s = inst['size'], inst['rank']
        comm = GhostComm(s, a, mk, st.log, name='active', split_to=inst['split_to'])
        st.comm = comm
        S.status.slot = s
        S.status.time_size = a
        S.status.done = False
        st.time = mk.real('time_mine')
        st.Tend = mk.real('Tend')
        mk.assume(st.time < thr(st.Tend), 'loop head: this rank is active')
        for L in S.levels:
            L.status.time = st.time
        S.levels[0].u[0] = VecMPI(mk.vec('ustart_mine'))
        st.ustart = S.levels[0].u[0]
        st.L = dict(self=c, u0=VecMPI(mk.vec('u0')), t0=mk.real('t0'), Tend=st.Tend, all_dt=[mk.real(f'dt_old{j}') for j in range(a)], time=st.time, active=True,
                    comm_active=comm, uend=VecMPI(mk.vec('uend_prev')))
        st.old_dt = st.dt

        def call():
            if not st.cut.guard(st.L):
                raise AssertionError('harness: guard must hold at an active loop head')
            return st.cut.body(st.L)

        st.call = call
        return st

    def pre(self, st):
        return []

    def post(self, st, old, result, exc):
        c, S, inst, log, tr = st.c, st.S, st.inst, st.log, st.trace
        a, s = inst['size'], inst['rank']
        yield 'returns_normally', exc is None
        if exc is not None:
            return
        L = result
        ag = [e for e in log if e[0] == 'allgather']
        yield 'block_run_once_on_the_active_communicator', [e for e in tr if e[0] == 'pfasst'] == [('pfasst', st.comm, a)]
        yield 'restart_requests_gathered_then_step_sizes', len(ag) == 2 and ag[0][2] is st.restart_mine and ag[0][1] is st.comm and ag[1][1] is st.comm
        if len(ag) != 2:
            return
        flags = [bool(x) for x in ag[0][3]]  # decided on this path
        if any(flags[j] and not flags[j + 1] for j in range(a - 1)):
            return  # excluded by the callee contract (requests are upward closed)
        k = flags.index(True) if True in flags else a
        bc = [e for e in log if e[0] == 'bcast']
        bd = [e for e in log if e[0] == 'bcast_data']
        yield 'one_time_and_one_value_broadcast', len(bc) == 1 and len(bd) == 1 and bc[0][1] is st.comm and bd[0][1] is st.comm
        if len(bc) != 1 or len(bd) != 1:
            return
        if k < a:
            yield 'restart:root_is_first_requesting_rank', bc[0][3] == k and bd[0][3] == k
            yield 'restart:contributed_time_is_my_start_time', seq(bc[0][2], st.time)
            yield 'restart:contributed_value_is_my_start_value', bd[0][2] is S.levels[0].u[0] or bool(veq(bd[0][2], st.ustart)) is True
        else:
            yield 'advance:root_is_last_rank', bc[0][3] == a - 1 and bd[0][3] == a - 1
            yield 'advance:contributed_time_is_my_end_time', seq(bc[0][2], st.time + st.old_dt)
            yield 'advance:contributed_value_is_my_end_value', bd[0][2] is st.uend_mine
        tend, uend = bc[0][4], bd[0][4]
        yield 'carried_value_is_the_broadcast_value', L['uend'] is uend
        psp = [e for e in tr if e[0] == 'cc' and e[1] == 'post_step_processing']
        yield 'post_step_processing_iff_my_step_is_accepted', (len(psp) == 1) == (s < k) and len(psp) <= 1
        pnb = [e for e in tr if e[0] == 'cc' and e[1] == 'prepare_next_block']
        yield 'prepare_next_block_once_with_block_end_time', len(pnb) == 1 and pnb[0][4] is tend and pnb[0][5] is st.Tend and pnb[0][3] == a
        new_dt = ag[1][3]
        yield 'step_sizes_gathered_after_prepare_next_block', ag[1][2] is S.levels[0].params.dt
        mytime = tend + sum(new_dt[:s])
        yield 'my_next_start_time', seq(L['time'], mytime)
        yield 'active_iff_next_start_time_before_Tend', Iff(L['active'], mytime < thr(st.Tend))
        last_inactive = Not(tend + sum(new_dt[: a - 1]) < thr(st.Tend))
        sp = [e for e in log if e[0] == 'Split']
        yield 'communicator_split_iff_last_rank_no_longer_active', Iff(len(sp) == 1, last_inactive) and len(sp) <= 1
        if sp:
            yield 'old_communicator_freed_after_split', st.comm.freed and L['comm_active'] is sp[0][3]
        else:
            yield 'communicator_kept', L['comm_active'] is st.comm and not st.comm.freed
        yield 'slot_is_rank_in_the_current_communicator', S.status.slot == L['comm_active'].rank
        rb = [e for e in tr if e[0] == 'restart_block']
        if bool(L['active']):
            yield 'active:next_block_initialised_with_size_time_value', len(rb) == 1 and rb[0][1] == L['comm_active'].size and bool(seq(rb[0][2], mytime)) is True and rb[0][3] is uend and rb[0][4] is L['comm_active']
        else:
            yield 'inactive:no_block_initialised', not rb
        if k == a:
            # progress of the block start: the broadcast end time of the last rank lies beyond its start (dt > 0); for the last rank itself:
            if s == a - 1:
                yield 'progress:block_end_time_beyond_my_start', tend > st.time

    def canary(self, st, old, result, exc):
        if exc is None:
            yield 'canary:time_unchanged', seq(result['time'], st.time)
            yield 'canary:never_splits', not [e for e in st.log if e[0] == 'Split']


class RunExitMPI(_MPIBase):
    name = 'controller_MPI.run[exit]'

    def instances(self, tier):
        return [dict(rank=r, size=s) for r, s in self.rank_sizes(tier)]

    def build(self, inst, mk):
        st = setup(mk, inst)
        comm = GhostComm(0, 1, mk, st.log, name='inactive')
        st.comm = comm
        st.L = dict(self=st.c, u0=VecMPI(mk.vec('u0')), t0=mk.real('t0'), Tend=mk.real('Tend'), all_dt=[], time=mk.real('time'), active=False, comm_active=comm, uend=VecMPI(mk.vec('uend_last')))

        def call():
            if st.cut.guard(st.L):
                raise AssertionError('harness: guard must be false at exit')
            return st.cut.post(st.L)

        st.call = call
        return st

    def post(self, st, old, result, exc):
        tr = st.trace
        yield 'returns_normally', exc is None
        if exc is not None:
            return
        yield 'returns_pair', isinstance(result, tuple) and len(result) == 2
        yield 'returned_value_is_last_carried_value', result[0] is st.L['uend']
        yield 'post_run_hook_and_post_run_processing', [e[1] for e in tr if e[0] == 'hook'] == ['post_run'] and len([e for e in tr if e[0] == 'cc' and e[1] == 'post_run_processing']) == 1
        yield 'communicator_freed', st.comm.freed
        yield 'stats_are_the_merged_hook_stats', result[1] == st.c.return_stats()

    def canary(self, st, old, result, exc):
        yield 'canary:returns_u0', exc is None and result[0] is st.L['u0']


class RestartBlockMPI(_MPIBase):
    """re-initialisation of this rank's step: neighbours on the ring, first/last flags, a COPY of the start value, block bookkeeping reset,
    the start time on every level"""

    name = 'controller_MPI.restart_block'
    target = (CM, 'controller_MPI.restart_block')

    def instances(self, tier):
        return [dict(rank=r, size=s) for r, s in self.rank_sizes(tier)]

    def build(self, inst, mk):
        st = setup(mk, inst, stub_restart_block=False)
        c, S = st.c, st.S
        S.status.slot = inst['rank']
        st.comm = GhostComm(inst['rank'], inst['size'], mk, st.log, name='active')
        st.time, st.u0 = mk.real('time'), VecMPI(mk.vec('u0'))
        # leftovers of the previous block
        S.status.done, S.status.iter, S.status.stage = True, 7, 'DONE'
        S.status.prev_done, S.status.force_done = True, True
        for L in S.levels:
            L.tag = (1, 2, 3)
            L.status.sweep = 5
        c.req_status, c.req_diff, c.req_ibcast, c.req_send = 'stale', 'stale', 'stale', ['stale'] * len(S.levels)
        st.call = lambda: c.restart_block(inst['size'], st.time, st.u0, comm=st.comm)
        return st

    def post(self, st, old, result, exc):
        c, S, inst = st.c, st.S, st.inst
        r, n = inst['rank'], inst['size']
        yield 'returns_normally', exc is None
        if exc is not None:
            return
        yield 'ring_neighbours', S.prev == (r - 1) % n and S.next == (r + 1) % n
        yield 'first_and_last_flags', S.status.first == (r == 0) and S.status.last == (r == n - 1)
        yield 'start_value_is_a_copy_of_u0', bool(veq(S.levels[0].u[0], st.u0)) is True and S.levels[0].u[0] is not st.u0
        yield 'status_reset', S.status.done is False and S.status.iter == 0 and S.status.stage == 'SPREAD' and S.status.prev_done is False and S.status.force_done is False
        yield 'requests_and_tags_reset', c.req_status is None and c.req_diff is None and c.req_ibcast is None and c.req_send == [None] * len(S.levels) and all(L.tag is None for L in S.levels)
        yield 'time_size_and_times', S.status.time_size == n and all(bool(seq(L.status.time, st.time)) is True and L.status.sweep == 1 for L in S.levels)
        yield 'convergence_controllers_reset', ('cc', 'reset_status_variables', None) in st.trace

    def canary(self, st, old, result, exc):
        yield 'canary:start_value_aliases_u0', st.S.levels[0].u[0] is st.u0


CONTRACTS = [RunEntryMPI, RunBodyMPI, RunExitMPI, RestartBlockMPI]
