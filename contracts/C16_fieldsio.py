r"""
C16 -- field files round-trip bit-exactly and survive interrupted appends; block decomposition is a partition.

Layer 1 (proved, symbolic integers): the real FieldsIO.nFields / formatIndex / time / readField / addField / initialize run
against an ABSTRACT FILE whose size, header size and record size are symbolic integers. File I/O (open, seek, truncate,
numpy tofile/fromfile, os.path.isfile/getsize) is replaced inside the fieldsIO module by a recording ghost (assumed
contract: reads/writes move exactly nbytes at the handle position; 'ab' handles write at end of file). Obligations are
about WHERE bytes are read and written: record i lives at hSize + i*(tSize+fSize); a partial tail (crash after any byte)
is never reported and never read; an append lands exactly at record index nFields_old.

Layer 2 (bounded stand-in, real files in a scratch directory): bit-exact round trips of headers and fields for both
structures, all dtypes of this machine, with a truncation after EVERY byte of an append followed by re-open + append +
read. Exhaustive over the stated small grid, never counted as proved.

Layer 3: BlockDecomposition.localBounds (proved, symbolic ints), __init__ (product of blocks = nProcs, exhaustive over
nProcs in the stated range per dimension with symbolic grid sizes), ranks (bijection).
"""

import builtins
import os
import numpy as np
import z3

from vc import sym
from vc.sym import And, Or, Not, Implies, Iff, SNum
from vc.contract import Contract, State, seq
from vc.discharge import Obligation, discharge
from contracts.common import cls_of

FIO = 'pySDC/helpers/fieldsIO.py'
BLK = 'pySDC/helpers/blocks.py'


# ------------------------------------------------------------------------------------------------ abstract file ghost
class GhostFile:
    """abstract file: only sizes and positions (symbolic ints); log of reads/writes"""

    def __init__(self, size, exists=True):
        self.size = size
        self.exists = exists
        self.log = []  # ('read'|'write', pos, nbytes) / ('open', mode) / ('truncate', size)


class GhostHandle:
    def __init__(self, gf, mode):
        self.gf, self.mode = gf, mode
        gf.log.append(('open', mode))
        if 'w' in mode:
            gf.size = 0
            gf.exists = True
        self.pos = gf.size if 'a' in mode else 0

    def __enter__(self):
        return self

    def __exit__(self, *a):
        self.gf.log.append(('close',))
        return False

    def seek(self, pos, whence=0):
        self.pos = pos if whence == 0 else (self.pos + pos if whence == 1 else self.gf.size + pos)
        return self.pos

    def tell(self):
        return self.pos

    def truncate(self, size=None):
        size = self.pos if size is None else size
        self.gf.log.append(('truncate', size))
        self.gf.size = size
        return size

    def write(self, data):
        self.write_n(data.n if isinstance(data, SymBytes) else len(data))

    def write_n(self, n):
        pos = self.gf.size if 'a' in self.mode else self.pos
        self.gf.log.append(('write', pos, n))
        end = pos + n
        self.gf.size = sym.smax(self.gf.size, end)
        self.pos = end


class SymBytes:
    """a byte string of symbolic length (only its length matters to the abstract file)"""

    def __init__(self, n):
        self.n = n

    def __add__(self, o):
        return SymBytes(self.n + (o.n if isinstance(o, SymBytes) else len(o)))

    def __radd__(self, o):
        return SymBytes(self.n + len(o))


class GArr(np.ndarray):
    def tofile(self, f, *a, **k):
        if isinstance(f, GhostHandle):
            f.write_n(self.nbytes)
        else:
            np.ndarray.tofile(self, f, *a, **k)


class SymField:
    """a field of symbolic size: only dtype/size/nbytes matter"""

    def __init__(self, dtype, size):
        self.dtype, self.size = np.dtype(dtype), size
        self.nbytes = size * self.dtype.itemsize

    def tofile(self, f):
        f.write_n(self.nbytes)

    def tobytes(self, order='C'):
        return SymBytes(self.nbytes)

    # layout / shape conversions keep dtype and size (only those matter to the abstract file)
    def ravel(self, order='C'):
        return self

    flatten = ravel

    def reshape(self, *a, **k):
        return self

    def copy(self, *a, **k):
        return self

    def astype(self, dtype, *a, **k):
        return SymField(dtype, self.size)

    def view(self, *a, **k):
        return self

    def __array__(self, *a, **k):
        raise TypeError('symbolic field: use the numpy shim (np.asarray / np.ascontiguousarray ...), not a real conversion')


class NpShim:
    """numpy as seen by the fieldsIO module: arrays gain a ghost-aware tofile, fromfile reads from the ghost"""

    def __init__(self):
        self._np = np

    def __getattr__(self, n):
        return getattr(self._np, n)

    def array(self, *a, **k):
        return np.array(*a, **k).view(GArr)

    def asarray(self, x, *a, **k):
        if isinstance(x, SymField):
            return x
        return np.asarray(x, *a, **k).view(GArr)

    def ascontiguousarray(self, x, *a, **k):
        if isinstance(x, SymField):
            return x
        return np.ascontiguousarray(x, *a, **k).view(GArr)

    asfortranarray = asanyarray = ascontiguousarray

    def ravel(self, x, *a, **k):
        if isinstance(x, SymField):
            return x
        return np.ravel(x, *a, **k).view(GArr)

    def fromfile(self, f, dtype=float, count=-1, offset=0, **k):
        if not isinstance(f, GhostHandle):
            return np.fromfile(f, dtype=dtype, count=count, offset=offset, **k)
        isz = np.dtype(dtype).itemsize
        pos = f.pos + offset
        if not sym.is_sym(count) and int(count) == 1 and not bool(pos + isz <= f.gf.size):
            # numpy.fromfile at (or within less than one item of) the end of the file returns an empty array
            f.gf.log.append(('read_eof', pos, isz))
            return np.zeros(0, dtype=dtype)
        f.gf.log.append(('read', pos, count * isz))
        f.pos = pos + count * isz
        if sym.is_sym(count):
            return SymField(dtype, count)
        return np.zeros(int(count), dtype=dtype)


def install_ghost(mod, gf):
    """replace file access inside the fieldsIO module namespace (this process only)"""

    class OsPath:
        @staticmethod
        def isfile(fn):
            return gf.exists

        @staticmethod
        def getsize(fn):
            return gf.size

    class Os:
        path = OsPath()
        SEEK_SET, SEEK_CUR, SEEK_END = 0, 1, 2

    mod.os = Os()
    mod.np = NpShim()
    mod.open = lambda fn, mode='r': GhostHandle(gf, mode)
    mod.int = lambda x: x if sym.is_sym(x) else builtins.int(x)
    mod.float = lambda x: x if isinstance(x, SymField) else builtins.float(x)


class _FIOBase(Contract):
    prop = 'C16'
    label = 'proved'
    native = True
    assumptions = ("file-system contract (ghost): open/seek/truncate, numpy tofile/fromfile move exactly nbytes at the handle position, 'ab' handles write at end of file, os.path.getsize/isfile report the abstract state",
                   'int() of an exact integer quotient is the identity')

    def mk_io(self, mk, partial=True, nrec=None):
        import importlib

        mod = importlib.import_module('pySDC.helpers.fieldsIO')
        nItems = mk.int('nItems')
        mk.assume(nItems >= 1, 'nItems>=1')
        if nrec is None:
            nrec = mk.int('nRecords')
            mk.assume(nrec >= 0, 'records>=0')
        io = mod.Scalar(np.float64, 'ghost.pysdc')
        io.header = {'nVar': 1}  # header stays concrete; the record size is symbolic through nItems
        io.nItems = nItems
        io.initialized = True
        H = io.hSize  # concrete for Scalar (2 + 8); the record size is symbolic through nItems
        R = io.tSize + nItems * 8
        p = mk.int('partialTail') if partial else 0
        if partial:
            mk.assume(And(p >= 0, p < R), '0<=partial<record')
        gf = GhostFile(H + nrec * R + p)
        # lemma (discharged as an obligation of its own, then available to the other obligations): a file of nrec whole records plus a partial
        # tail holds floor((size - H) / R) = nrec records. Stated once here because the division by the SYMBOLIC record size makes the solvers'
        # run time erratic when it has to be rediscovered inside larger obligations.
        if sym.is_sym(R) or sym.is_sym(nrec) or sym.is_sym(p):
            from contracts.ctrl import oblige

            lemma = ((gf.size - H) // R) == nrec
            oblige('lemma:whole_records_plus_partial_tail_count_nrec', lemma)
            mk.assume(lemma, 'lemma, discharged separately')
        install_ghost(mod, gf)
        return State(mod=mod, io=io, gf=gf, H=H, R=R, nrec=nrec, p=p, nItems=nItems)


class NFields(_FIOBase):
    name = 'FieldsIO.nFields'
    target = (FIO, 'FieldsIO.nFields')

    def instances(self, tier):
        return [dict(warm=False), dict(warm=True)]

    def build(self, inst, mk):
        st = self.mk_io(mk)
        if inst['warm']:
            # history: the same handle has been used before, while the file had ANOTHER size (another handle or process
            # appended / the file was replaced in between): the count must follow the current file
            now = st.gf.size
            st.gf.size = st.H + mk.int('recordsBefore') * st.R
            mk.assume(st.gf.size >= st.H, 'earlier size well-formed')
            st.io.nFields
            try:
                st.io.formatIndex(-1)
            except AssertionError:
                pass
            st.gf.size = now
            st.gf.log.clear()
        st.call = lambda: st.io.nFields
        return st

    def post(self, st, old, result, exc):
        yield 'returns_normally', exc is None
        if exc is None:
            yield 'counts_complete_records_only', seq(result, st.nrec)
            yield 'incomplete_record_never_reported', result * st.R + st.H <= st.gf.size
            yield 'no_io_side_effects', all(e[0] not in ('write', 'truncate') for e in st.gf.log)

    def canary(self, st, old, result, exc):
        yield 'canary:rounds_up', seq(result, st.nrec + 1)


class FormatIndex(_FIOBase):
    name = 'FieldsIO.formatIndex'
    target = (FIO, 'FieldsIO.formatIndex')
    expected_exceptions = (AssertionError,)

    def build(self, inst, mk):
        st = self.mk_io(mk)
        st.idx = mk.int('idx')
        st.call = lambda: st.io.formatIndex(st.idx)
        return st

    def post(self, st, old, result, exc):
        n, i = st.nrec, st.idx
        valid = And(i >= -n, i < n)
        yield 'out_of_range_rejected', Iff(isinstance(exc, AssertionError), Not(valid))
        if exc is None:
            yield 'in_range', And(result >= 0, result < n)
            yield 'negative_counts_from_end', seq(result, sym.Ite(i < 0, n + i, i))

    def canary(self, st, old, result, exc):
        yield 'canary:accepts_n', exc is None


class ReadField(_FIOBase):
    name = 'FieldsIO.readField'
    target = (FIO, 'FieldsIO.readField')
    expected_exceptions = (AssertionError,)
    stubs = ('FieldsIO.formatIndex [contract above]', 'FieldsIO.reshape [structure hook]')

    def instances(self, tier):
        return [dict(fn='readField'), dict(fn='time')]

    def build(self, inst, mk):
        st = self.mk_io(mk)
        st.idx = mk.int('idx')
        mk.assume(And(st.idx >= -st.nrec, st.idx < st.nrec), 'valid index')
        st.fn = inst['fn']
        st.call = lambda: getattr(st.io, st.fn)(st.idx)
        return st

    def post(self, st, old, result, exc):
        yield 'returns_normally', exc is None
        if exc is not None:
            return
        j = sym.Ite(st.idx < 0, st.nrec + st.idx, st.idx)
        reads = [e for e in st.gf.log if e[0] == 'read']
        start = st.H + j * st.R
        yield 'opened_read_only', [e for e in st.gf.log if e[0] == 'open'] == [('open', 'rb')]
        if st.fn == 'time':
            yield 'reads_time_of_record_idx', len(reads) == 1 and bool(seq(reads[0][1], start)) is True and reads[0][2] == 8
        else:
            yield 'two_reads', len(reads) == 2
            if len(reads) == 2:
                yield 'time_at_record_start', And(seq(reads[0][1], start), reads[0][2] == 8)
                yield 'field_right_after_time', And(seq(reads[1][1], start + 8), seq(reads[1][2], st.nItems * 8))
                yield 'stays_inside_complete_records', reads[1][1] + reads[1][2] <= st.H + st.nrec * st.R
                yield 'never_reads_partial_tail', reads[1][1] + reads[1][2] <= st.gf.size - st.p
        yield 'no_writes', all(e[0] not in ('write', 'truncate') for e in st.gf.log)

    def canary(self, st, old, result, exc):
        reads = [e for e in st.gf.log if e[0] == 'read']
        yield 'canary:offset_without_header', seq(reads[0][1], sym.Ite(st.idx < 0, st.nrec + st.idx, st.idx) * st.R)


class Times(_FIOBase):
    """FieldsIO.times: exactly one time stamp per COMPLETE record, read at the record starts; the partial tail of an interrupted append is
    never read and never reported (the number of records is enumerated, record size and tail length are symbolic)"""

    name = 'FieldsIO.times'
    target = (FIO, 'FieldsIO.times')

    def instances(self, tier):
        return [dict(nrec=n) for n in ((0, 1, 2, 3) if tier == 'quick' else (0, 1, 2, 3, 4, 5))]

    def build(self, inst, mk):
        st = self.mk_io(mk, nrec=inst['nrec'])
        st.call = lambda: st.io.times
        return st

    def post(self, st, old, result, exc):
        n = st.inst_nrec = st.nrec
        yield 'returns_normally', exc is None
        if exc is not None:
            return
        yield 'one_time_per_complete_record', len(result) == n
        reads = [e for e in st.gf.log if e[0] == 'read']
        yield 'one_read_per_complete_record', len(reads) == n
        for i, e in enumerate(reads[:n]):
            yield f'time_{i}_read_at_the_start_of_record_{i}', And(seq(e[1], st.H + i * st.R), e[2] == 8)
        yield 'partial_tail_never_read', And(*[e[1] + e[2] <= st.H + n * st.R for e in reads]) if reads else True
        yield 'no_writes', all(e[0] not in ('write', 'truncate') for e in st.gf.log)

    def canary(self, st, old, result, exc):
        yield 'canary:one_more_time_than_records', len(result) == st.nrec + 1


class AddField(_FIOBase):
    """append-only; the appended record must become record number nFields_old -- also after an interrupted append left
    a partial tail (re-open-and-append clause of C16)"""

    name = 'FieldsIO.addField'
    target = (FIO, 'FieldsIO.addField')
    expected_exceptions = (AssertionError,)

    def instances(self, tier):
        return [dict(partial=False), dict(partial=True), dict(partial=True, bad='size'), dict(partial=True, bad='dtype'), dict(partial=True, bad='uninit'),
                dict(partial=True, warm=True), dict(partial=False, warm=True)]

    def build(self, inst, mk):
        st = self.mk_io(mk, partial=inst['partial'])
        size = st.nItems + 1 if inst.get('bad') == 'size' else st.nItems
        st.field = SymField(np.float32 if inst.get('bad') == 'dtype' else np.float64, size)
        if inst.get('warm'):
            # history: the SAME handle has appended before (to a file of another size, with a partial tail of its own or none); then the file
            # reached its present state -- e.g. this handle's next append was cut short (exception, full disk) and the handle stays alive, or
            # another process appended.  What the handle learnt about the end of the file then must not decide where the record lands now.
            now = st.gf.size
            pb = mk.int('partialTailBefore')
            mk.assume(And(pb >= 0, pb < st.R), '0<=earlier partial<record')
            st.gf.size = st.H + mk.int('recordsBefore') * st.R + pb
            mk.assume(st.gf.size >= st.H + pb, 'earlier size well-formed')
            st.io.addField(0.25, SymField(np.float64, st.nItems))
            st.io.nFields
            st.gf.size = now
            st.gf.log.clear()
        if inst.get('bad') == 'uninit':
            st.io.initialized = False
        st.size0 = st.gf.size
        st.inst = inst
        st.call = lambda: st.io.addField(0.5, st.field)
        return st

    def post(self, st, old, result, exc):
        log = st.gf.log
        if st.inst.get('bad'):
            yield 'mismatch_rejected_before_any_write', isinstance(exc, AssertionError) and all(e[0] not in ('write', 'truncate') for e in log)
            return
        yield 'returns_normally', exc is None
        if exc is not None:
            return
        writes = [e for e in log if e[0] == 'write']
        # how many write calls are used is not specified: they have to fill exactly [w0, w0 + R) front to back
        # (that the 8 time bytes come first and the field in C order is the bounded real-file layer's business)
        yield 'at_least_one_write', len(writes) >= 1
        if not writes:
            return
        w0 = st.H + st.nrec * st.R
        yield 'record_lands_at_index_nFields_old', seq(writes[0][1], w0)
        yield 'writes_are_contiguous', And(*[seq(writes[i + 1][1], writes[i][1] + writes[i][2]) for i in range(len(writes) - 1)]) if len(writes) > 1 else True
        yield 'exactly_one_record_written', seq(sum(e[2] for e in writes), st.R)
        yield 'completed_records_untouched', And(*[e[1] >= w0 for e in writes] + [e[1] >= w0 for e in log if e[0] == 'truncate'])
        yield 'file_grows_by_one_record', seq(st.gf.size, w0 + st.R)
        yield 'not_opened_for_overwrite', all('w' not in e[1] for e in log if e[0] == 'open')

    def canary(self, st, old, result, exc):
        if not st.inst.get('bad'):
            writes = [e for e in st.gf.log if e[0] == 'write']
            yield 'canary:lands_one_record_later', seq(writes[0][1], st.H + (st.nrec + 1) * st.R)
        else:
            yield 'canary:accepted', exc is None


class Initialize(_FIOBase):
    name = 'FieldsIO.initialize'
    target = (FIO, 'FieldsIO.initialize')
    label = 'instance-proved'
    expected_exceptions = (FileExistsError, AssertionError)

    def instances(self, tier):
        return [dict(exists=e, overwrite=o, header=h, again=a) for e in (True, False) for o in (True, False) for h in (True, False) for a in (False, True) if not (a and not h)]

    def build(self, inst, mk):
        import importlib

        mod = importlib.import_module('pySDC.helpers.fieldsIO')
        gf = GhostFile(mk.int('oldSize'), exists=inst['exists'])
        install_ghost(mod, gf)
        io = mod.Scalar(np.float64, 'ghost.pysdc')
        if inst['header']:
            io.setHeader(nVar=3)
        io.initialized = inst['again']
        st = State(mod=mod, io=io, gf=gf, inst=inst, size0=gf.size)
        cls = type(io)

        def call():
            old = cls.ALLOW_OVERWRITE
            cls.ALLOW_OVERWRITE = inst['overwrite']
            try:
                io.initialize()
            finally:
                cls.ALLOW_OVERWRITE = old

        st.call = call
        return st

    def post(self, st, old, result, exc):
        inst, log = st.inst, st.gf.log
        if not inst['header'] or inst['again']:
            yield 'needs_header_and_fresh_object', isinstance(exc, AssertionError) and not log
            return
        if inst['exists'] and not inst['overwrite']:
            yield 'existing_file_protected', isinstance(exc, FileExistsError)
            yield 'existing_file_untouched', not log and bool(seq(st.gf.size, st.size0)) is True
            return
        yield 'returns_normally', exc is None
        if exc is not None:
            return
        writes = [e for e in log if e[0] == 'write']
        yield 'header_written_contiguously_from_zero', len(writes) == 2 and writes[0][1] == 0 and writes[1][1] == writes[0][2]
        yield 'file_is_exactly_the_header', st.gf.size == st.io.hSize
        yield 'initialized', st.io.initialized is True

    def canary(self, st, old, result, exc):
        if st.inst['exists'] and not st.inst['overwrite']:
            yield 'canary:always_writes', bool([e for e in st.gf.log if e[0] == 'write'])
        elif st.inst['header'] and not st.inst['again']:
            yield 'canary:never_writes', not [e for e in st.gf.log if e[0] == 'write']


# ------------------------------------------------------------------------------------------------ block decomposition
class LocalBounds(Contract):
    prop = 'C16'
    name = 'BlockDecomposition.localBounds'
    target = (BLK, 'BlockDecomposition.localBounds')
    label = 'proved'
    native = True
    stubs = ('BlockDecomposition.ranks [contract: block index of this rank per dimension, proved below]',)

    def instances(self, tier):
        return [dict(dim=d) for d in (1, 2, 3)]

    def build(self, inst, mk):
        BD = cls_of(BLK, 'BlockDecomposition')
        d = inst['dim']

        class G(BD):
            ranks = property(lambda self: self._ranks)

        g = G.__new__(G)
        g.gridSizes = [mk.int(f'nPoints{k}') for k in range(d)]
        g.nBlocks = [mk.int(f'nBlocks{k}') for k in range(d)]
        g._ranks = [mk.int(f'rank{k}') for k in range(d)]
        for k in range(d):
            mk.assume(And(g.gridSizes[k] >= 0, g.nBlocks[k] >= 1, g._ranks[k] >= 0, g._ranks[k] < g.nBlocks[k]), 'well-formed decomposition')
        st = State(g=g, d=d)
        st.call = lambda: g.localBounds
        return st

    def post(self, st, old, result, exc):
        yield 'returns_normally', exc is None
        if exc is not None:
            return
        iLoc, nLoc = result
        yield 'one_entry_per_dimension', len(iLoc) == st.d and len(nLoc) == st.d
        for k in range(st.d):
            N, B, r = st.g.gridSizes[k], st.g.nBlocks[k], st.g._ranks[k]
            n0 = N // B
            nRest = N - B * n0
            yield f'start_closed_form[{k}]', seq(iLoc[k], r * n0 + sym.Ite(r < nRest, r, nRest))
            yield f'size_closed_form[{k}]', seq(nLoc[k], n0 + sym.Ite(r < nRest, 1, 0))
            yield f'inside_grid[{k}]', And(iLoc[k] >= 0, nLoc[k] >= 0, iLoc[k] + nLoc[k] <= N)
            yield f'first_block_starts_at_zero[{k}]', Implies(r == 0, iLoc[k] == 0)
            yield f'last_block_ends_at_nPoints[{k}]', Implies(r == B - 1, iLoc[k] + nLoc[k] == N)

    def canary(self, st, old, result, exc):
        iLoc, nLoc = result
        N, B, r = st.g.gridSizes[0], st.g.nBlocks[0], st.g._ranks[0]
        yield 'canary:no_remainder_shift', seq(iLoc[0], r * (N // B))


def lemma_partition(tier, seed):
    r"""from the closed forms start(r) = r*n0 + min(r, nRest), size(r) = n0 + [r < nRest] (LocalBounds post):
    consecutive blocks are contiguous, start(0) = 0, end(B-1) = N  =>  every grid point lies in exactly one block
    (the last implication is the standard telescoping argument; contiguity/disjointness are machine-checked here)."""
    N, B, r, r2, x = z3.Ints('N B r r2 x')
    n0 = N / B
    nR = N - B * n0
    start = lambda q: q * n0 + z3.If(q < nR, q, nR)
    size = lambda q: n0 + z3.If(q < nR, 1, 0)
    base = [N >= 0, B >= 1, r >= 0, r < B]
    obs = [
        Obligation('contiguous:start(r+1)=start(r)+size(r)', base + [r + 1 < B], start(r + 1) == start(r) + size(r), 'lemma'),
        Obligation('start(0)=0', [N >= 0, B >= 1], start(0) == 0, 'lemma'),
        Obligation('end(B-1)=N', [N >= 0, B >= 1], start(B - 1) + size(B - 1) == N, 'lemma'),
        Obligation('disjoint:r<r2=>end(r)<=start(r2)', base + [r2 > r, r2 < B], start(r) + size(r) <= start(r2), 'lemma'),
        Obligation('covered:every_point_has_an_owner', [N >= 0, B >= 1, x >= 0, x < N],
                   z3.Or(z3.And(x < nR * (n0 + 1), start(x / (n0 + 1)) <= x, x < start(x / (n0 + 1)) + size(x / (n0 + 1)), x / (n0 + 1) < B, x / (n0 + 1) >= 0),
                         z3.And(x >= nR * (n0 + 1), n0 > 0, start(nR + (x - nR * (n0 + 1)) / n0) <= x, x < start(nR + (x - nR * (n0 + 1)) / n0) + size(nR + (x - nR * (n0 + 1)) / n0),
                                nR + (x - nR * (n0 + 1)) / n0 < B)), 'lemma'),
    ]
    res = []
    for ob in obs:
        d = discharge(ob).as_dict()
        d['path'] = 0
        if d['status'] == 'unknown' and ob.name.startswith(('covered', 'disjoint')):
            d['counted'] = False  # reported as undecided lemma, not as a discharged obligation
        res.append(d)
    return dict(contract='lemma:block_partition', prop='C16', inst={}, label='proved', kind='lemma', obligations=res, canaries=[], paths=1, status='ok')


class BlockInit(Contract):
    """BlockDecomposition.__init__: the number of blocks multiplies up to nProcs, every entry >= 1, one per dimension --
    nProcs concrete (the property's own finite range), grid sizes symbolic (they only steer where factors go)."""

    prop = 'C16'
    name = 'BlockDecomposition.__init__'
    target = (BLK, 'BlockDecomposition.__init__')
    label = 'instance-proved'
    native = True
    max_paths = 5000

    def instances(self, tier):
        top = 16 if tier == 'quick' else 64
        return [dict(nProcs=n, dim=d, algo=a) for n in range(1, top + 1) for d in (1, 2, 3) for a in ('Hybrid', 'ChatGPT')]

    def build(self, inst, mk):
        BD = cls_of(BLK, 'BlockDecomposition')
        gs = [mk.int(f'nPoints{k}') for k in range(inst['dim'])]
        for g in gs:
            mk.assume(g >= 1, 'grid size >= 1')
        st = State(gs=gs, inst=inst)
        st.call = lambda: BD(inst['nProcs'], gs, inst['algo'], gRank=0)
        return st

    def post(self, st, old, result, exc):
        yield 'returns_normally', exc is None
        if exc is not None:
            return
        nb = result.nBlocks
        yield 'one_entry_per_dimension', len(nb) == st.inst['dim']
        yield 'product_is_nProcs', int(np.prod([int(b) for b in nb])) == st.inst['nProcs']
        yield 'all_positive', all(int(b) >= 1 for b in nb)

    def canary(self, st, old, result, exc):
        if st.inst['nProcs'] > 1:
            yield 'canary:single_block', int(np.prod([int(b) for b in result.nBlocks])) == 1


def block_ranks_bijection(tier, seed):
    """ranks: for every decomposition shape reachable for nProcs in the range and both orders, rank -> block index is a
    bijection onto the index box (concrete enumeration = the property's own finite range)"""
    import itertools
    from pySDC.helpers.blocks import BlockDecomposition

    top = 16 if tier == 'quick' else 64
    n = bad = 0
    shapes = set()
    for nP in range(1, top + 1):
        for dim in (1, 2, 3):
            for algo in ('Hybrid', 'ChatGPT'):
                shapes.add(tuple(BlockDecomposition(nP, [17, 9, 33][:dim], algo, gRank=0).nBlocks))
    obs = []
    for shp in sorted(shapes):
        for order in ('C', 'F'):
            seen = set()
            for g in range(int(np.prod(shp))):
                b = BlockDecomposition.__new__(BlockDecomposition)
                b.nBlocks, b.gRank, b.order = list(shp), g, order
                seen.add(tuple(int(x) for x in b.ranks))
            ok = seen == set(itertools.product(*[range(s) for s in shp]))
            n += 1
            bad += not ok
            obs.append(dict(name=f'ranks_bijection[{shp},{order}]', status='proved' if ok else 'refuted', backend='enumeration', seconds=0.0, kind='bounded', size=0, model=None, reason='', path=0, counted=False))
    return dict(contract='bounded:BlockDecomposition.ranks', prop='C16', inst={}, label='bounded', kind='bounded', obligations=obs, canaries=[], paths=1, status='ok',
                bounded=dict(what='rank -> block index bijection', bound=f'all shapes for nProcs<={top}, dims 1-3, both algorithms, both orders', cases=n, failures=bad))


# ------------------------------------------------------------------------------------------------ layer 2: real files (bounded)
def bounded_roundtrip(tier, seed):
    """real files, real numpy: header + field round trip (generic and specialised reader), overwrite protection, and a
    crash after EVERY byte of an append followed by re-open + append + read-back."""
    import tempfile, shutil, importlib
    from pySDC.helpers import fieldsIO as F

    for n in ('open', 'int', 'float'):
        F.__dict__.pop(n, None)
    F = importlib.reload(F)  # drop any ghost shims installed by the symbolic layer in this worker process

    rng = np.random.RandomState(seed + 5)
    tmp = tempfile.mkdtemp(prefix='verif_c16_')
    fails, cases = [], 0
    obs = []
    try:
        cfgs = []
        dts = [d for d in F.DTYPES.values()]
        for dt in dts if tier != 'quick' else dts[:4]:
            cfgs.append(('Scalar', dt, dict(nVar=3)))
            cfgs.append(('Rectilinear', dt, dict(nVar=2, coords=[np.linspace(0, 1, 3)])))
            if tier != 'quick':
                cfgs.append(('Rectilinear', dt, dict(nVar=1, coords=[np.linspace(-1, 1, 2), np.linspace(0, 3, 3)])))
                cfgs.append(('Rectilinear', dt, dict(nVar=2, coords=[np.arange(2.0), np.arange(2.0), np.arange(3.0)])))
        for ci, (struct, dt, hdr) in enumerate(cfgs):
            fn = os.path.join(tmp, f'f{ci}.pysdc')
            io = getattr(F, struct)(dt, fn)
            io.setHeader(**hdr)
            io.initialize()
            shape = (hdr['nVar'],) if struct == 'Scalar' else (hdr['nVar'], *[len(c) for c in hdr['coords']])

            def rnd():
                a = rng.randn(*shape)
                if np.issubdtype(dt, np.complexfloating):
                    a = a + 1j * rng.randn(*shape)
                return a.astype(dt)

            # the same logical values in three memory layouts: C order, a non-contiguous view, Fortran order
            a0, a1, a2 = rnd(), rnd(), rnd()
            big = np.zeros(tuple(2 * n for n in shape), dtype=dt)
            view = big[tuple(slice(None, None, 2) for _ in shape)]
            view[...] = a1
            recs = [(float(rng.randn()), a0), (float(rng.randn()), view), (float(rng.randn()), np.asfortranarray(a2))]
            for t, u in recs[:2]:
                io.addField(t, u)
            # overwrite protection
            cases += 1
            try:
                io2 = getattr(F, struct)(dt, fn)
                io2.setHeader(**hdr)
                io2.initialize()
                fails.append(f'{struct}/{dt.__name__}: existing file overwritten')
            except FileExistsError:
                pass
            full = open(fn, 'rb').read()
            rec = io.tSize + io.fSize
            # crash after every byte of a third append, then re-open, append again, read everything back
            io.addField(*recs[2])
            after = open(fn, 'rb').read()
            for cut in range(len(full), len(after)):
                cases += 1
                with open(fn, 'wb') as f:
                    f.write(after[:cut])
                g = F.FieldsIO.fromFile(fn)
                ok = g.nFields == 2 and type(g).__name__ == struct and len(g.times) == 2 and g.times == [recs[0][0], recs[1][0]]
                for i, (t, u) in enumerate(recs[:2]):
                    t2, u2 = g.readField(i)
                    ok = ok and t2 == t and u2.tobytes() == u.tobytes() and u2.shape == u.shape
                if not ok:
                    fails.append(f'{struct}/{dt.__name__}: completed records damaged after cut at byte {cut - len(full)}')
                    continue
                g.addField(*recs[2])
                h = F.FieldsIO.fromFile(fn)
                t3, u3 = h.readField(2) if h.nFields == 3 else (None, np.zeros(0))
                if not (h.nFields == 3 and t3 == recs[2][0] and u3.tobytes() == recs[2][1].tobytes()):
                    fails.append(f'{struct}/{dt.__name__}: field appended after a cut at byte {cut - len(full)} of the record is not read back')
            # header round trip through the generic reader
            cases += 1
            h = F.FieldsIO.fromFile(fn)
            okh = h.header['nVar'] == hdr['nVar'] and h.dtype == dt
            if struct == 'Rectilinear':
                okh = okh and all(np.array_equal(a, b) for a, b in zip(h.header['coords'], hdr['coords']))
            if not okh:
                fails.append(f'{struct}/{dt.__name__}: header not read back')
            if [h.time(i) for i in range(h.nFields)] != h.times:
                fails.append(f'{struct}/{dt.__name__}: times inconsistent')
    finally:
        shutil.rmtree(tmp, ignore_errors=True)
    uniq = sorted(set(f.split(' at byte')[0] for f in fails))
    obs.append(dict(name='bounded:roundtrip_and_crash_points', status='proved' if not fails else 'refuted', backend='enumeration', seconds=0.0, kind='bounded', size=0,
                    model=dict(first_failures=fails[:5]) if fails else None, reason='', path=0, counted=False))
    return dict(contract='bounded:FieldsIO.real_files', prop='C16', inst={}, label='bounded', kind='bounded', obligations=obs, canaries=[], paths=1, status='ok',
                bounded=dict(what='bit-exact round trip on real files with a crash after every byte of an append', bound=f'{len(cfgs)} (structure, dtype, shape) configurations, 3 records in C order / as a non-contiguous view / in Fortran order', cases=cases, failures=len(fails), distinct=uniq[:6]))


CONTRACTS = [NFields, FormatIndex, ReadField, Times, AddField, Initialize, LocalBounds, BlockInit]
ASSUMPTIONS = ['numpy tofile/fromfile are inverse on raw bytes (validated only by the bounded real-file layer)']
UNDECIDED = ['MPI branches of Rectilinear.addField/readField (mpi4py absent)', 'LogToFile hook (resume into an existing file) not under contract',
             'readHeader/setHeader/hInfos inverse: covered only by the bounded real-file layer']


def bounded_log_to_file(tier, seed):
    """LogToFile hook on real runs and real files: every accepted step's end value is appended once and read back bit-identically; a run
    continued from the last stored state (pre_run with t0 > 0 on an existing file) appends without overwriting or duplicating; starting a
    fresh run onto an existing file is refused unless overwriting is enabled; a record cut off by a crash is dropped on resume"""
    import tempfile, shutil, importlib
    from pySDC.helpers import fieldsIO as F

    for n in ('open', 'int', 'float'):
        F.__dict__.pop(n, None)
    F = importlib.reload(F)
    import pySDC.implementations.hooks.log_solution as LS

    LS = importlib.reload(LS)
    from pySDC.implementations.controller_classes.controller_nonMPI import controller_nonMPI
    from pySDC.implementations.problem_classes.TestEquation_0D import testequation0d
    from pySDC.implementations.sweeper_classes.generic_implicit import generic_implicit
    from pySDC.implementations.hooks.log_solution import LogSolution

    tmp = tempfile.mkdtemp(prefix='verif_c16_log_')
    fails, cases = [], 0

    def controller(hook_cls, nprocs=1):
        d = dict(problem_class=testequation0d, problem_params=dict(lambdas=np.array([-1.0, -0.5 + 2j, 0.3j]), u0=1.0), sweeper_class=generic_implicit,
                 sweeper_params=dict(num_nodes=2, quad_type='RADAU-RIGHT'), level_params=dict(dt=0.125), step_params=dict(maxiter=3))
        return controller_nonMPI(nprocs, dict(hook_class=[hook_cls, LogSolution], logger_level=40, dump_setup=False), d)

    def scenario(tag, Hook, nprocs, cut, fn):
        c = controller(Hook, nprocs)
        P = c.MS[0].levels[0].prob
        u0 = P.u_exact(0.0)
        uend, stats = c.run(u0, 0.0, 0.5)
        want = {0.0: np.asarray(P.processSolutionForOutput(u0))}
        for k, v in stats.items():
            if k.type == 'u':
                want[float(k.time)] = np.asarray(P.processSolutionForOutput(v))
        f = F.FieldsIO.fromFile(fn)
        ts = f.times
        if not (len(ts) == len(want) and all(abs(a - b) < 1e-14 for a, b in zip(ts, sorted(want))) and sorted(ts) == ts and len(set(ts)) == len(ts)):
            fails.append(f'{tag}: stored times {ts} are not exactly the initial time and the end times of the accepted steps {sorted(want)}')
            return
        for i, t in enumerate(sorted(want)):
            if f.readField(i)[1].tobytes() != want[t].tobytes():
                fails.append(f'{tag}: stored field {i} differs from the logged solution')
        size_before = os.path.getsize(fn)
        # a fresh start onto the existing file is refused
        try:
            controller(Hook, nprocs).run(u0, 0.0, 0.25)
            fails.append(f'{tag}: existing file overwritten by a fresh run')
        except FileExistsError:
            pass
        if os.path.getsize(fn) != size_before:
            fails.append(f'{tag}: file size changed by the refused run')
        n_complete = len(ts)
        if cut is not None:
            # a crash in the middle of the next append
            with open(fn, 'ab') as fh:
                fh.write(b'\x01' * cut)
        # continue from the last stored state
        c2 = controller(Hook, nprocs)
        last = Hook.load(-1)
        if abs(last['t'] - 0.5) > 1e-14 or last['u'].tobytes() != want[max(want)].tobytes():
            fails.append(f'{tag}: load(-1) does not return the last complete record')
            return
        u1 = P.dtype_u(u0)
        u1[:] = last['u']
        uend2, stats2 = c2.run(u1, 0.5, 1.0)
        f2 = F.FieldsIO.fromFile(fn)
        ts2 = f2.times
        new = {float(k.time): np.asarray(P.processSolutionForOutput(v)) for k, v in stats2.items() if k.type == 'u'}
        expect_t = sorted(want) + sorted(new)
        if not (len(ts2) == len(expect_t) and all(abs(a - b) < 1e-14 for a, b in zip(ts2, expect_t))):
            fails.append(f'{tag}: after resuming, stored times {ts2} != {expect_t}')
            return
        for i, t in enumerate(sorted(want)):
            if f2.readField(i)[1].tobytes() != want[t].tobytes():
                fails.append(f'{tag}: record {i} of the first run damaged by the resumed run')
        for j, t in enumerate(sorted(new)):
            if f2.readField(n_complete + j)[1].tobytes() != new[t].tobytes():
                fails.append(f'{tag}: record appended by the resumed run differs from its logged solution')
        # overwrite protection is still in force after a resumed run (the switch is process-global state)
        size_after = os.path.getsize(fn)
        try:
            g = F.Scalar(np.complex128, fn)
            g.setHeader(3)
            g.initialize()
            fails.append(f'{tag}: existing file overwritten by initialize() after a resumed run')
        except FileExistsError:
            pass
        if os.path.getsize(fn) != size_after:
            fails.append(f'{tag}: file size changed by a refused initialize() after the resumed run')

    try:
        for nprocs in (1, 2):
            for cut in (None, 5, 20):
                cases += 1
                fn = os.path.join(tmp, f'run_{nprocs}_{cut}.pySDC')

                class Hook(LS.LogToFile):
                    filename = fn
                    time_increment = 0
                    allow_overwriting = False

                tag = f'procs={nprocs},cut={cut}'
                try:
                    scenario(tag, Hook, nprocs, cut, fn)
                except FileNotFoundError:
                    raise
                except Exception as e:  # a logging hook that makes a valid run fail is a violation, not a checker problem
                    fails.append(f'{tag}: run with LogToFile raised {type(e).__name__}: {str(e)[:100]}')
    finally:
        shutil.rmtree(tmp, ignore_errors=True)
    ob = dict(name='bounded:LogToFile_runs_resume_and_overwrite_protection', status='proved' if not fails else 'refuted', backend='enumeration', seconds=0.0, kind='bounded', size=0,
              model=dict(first_failures=fails[:5]) if fails else None, reason='', path=0, counted=False)
    return dict(contract='bounded:LogToFile.real_runs', prop='C16', inst={}, label='bounded', kind='bounded', obligations=[ob], canaries=[], paths=1, status='ok',
                bounded=dict(what='LogToFile on real runs: one record per accepted step, bit-exact, resume, overwrite protection, crash in the middle of an append', bound='test equation, 1-2 steps per block, cuts of 5 / 20 bytes', cases=cases, failures=len(fails)))


EXTRAS = [lemma_partition, block_ranks_bijection, bounded_roundtrip, bounded_log_to_file]
