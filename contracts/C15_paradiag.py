r"""
C15 -- ParaDiag diagonalises the all-at-once system and converges to the serial answer.

 helpers (bounded numeric, the property's own range N = 1..16, alpha over ten decades): with the REAL helper functions
         FFT_w iFFT_w = iFFT_w FFT_w = I,  FFT_w E_alpha iFFT_w = diag(d),  d = fft(gamma^-1 o E_alpha[:,0]),  and
         (d_l H + I) G_inv(l) = I with the very same d_l -- double precision with a stated allowance.
 sweeper (deductive, rational-function identities by sympy): the REAL QDiagonalization.update_nodes / mat_vec run on symbolic
         S, w, G_inv, dt, lambda, data; with Q := S diag(w) S^-1 G (i.e. for every diagonalisable Q G_inv -- what
         computeDiagonalization delivers, numpy.linalg.eig/inv assumed) ONE application returns y with
         (G - dt*lambda*Q) y = rhs exactly, rhs = u0*1 (ignore_ic=False) or the residual (ignore_ic=True).
 controller: it_ParaDiag performs residual -> FFT -> local solves -> iFFT -> increment in that order (trace on the real
         controller with the five callees stubbed); bounded stand-in: converged real ParaDiag runs equal sequential
         collocation time stepping on Dahlquist / IMEX problems.
"""

import numpy as np


def _ob(name, ok, info=None, backend='numeric', counted=True):
    d = dict(name=name, status='proved' if ok else 'refuted', backend=backend, seconds=0.0, kind='bounded', size=0,
             model=info if not ok else None, reason='', path=0)
    if not counted:
        d['counted'] = False
    return d


def _pack(name, obs, what, bound, label='bounded'):
    fails = [o for o in obs if o['status'] != 'proved']
    return dict(contract=name, prop='C15', inst={}, label=label, kind='bounded', obligations=obs, canaries=[], paths=1, status='ok',
                bounded=dict(what=what, bound=bound, cases=len(obs), failures=len(fails)))


def check_helpers(tier, seed):
    from pySDC.helpers import ParaDiagHelper as H

    obs = []
    alphas = [1.0, 0.3, 1e-1, 1e-2, 1e-4, 1e-6, 1e-8, 1e-10]
    Ns = range(1, 17) if tier != 'quick' else (1, 2, 3, 4, 5, 8, 16)
    for N in Ns:
        F = H.get_FFT_matrix(N)
        obs.append(_ob(f'fft[N={N}]:unitary', np.allclose(F @ np.conjugate(F).T, np.eye(N), atol=1e-12)))
        for a in alphas:
            Fw, iFw = H.get_weighted_FFT_matrix(N, a), H.get_weighted_iFFT_matrix(N, a)
            g = a ** (-np.arange(N) / N)
            scale = np.outer(g, 1 / g)  # natural size of the entries of iFw @ (.) @ Fw
            I1, I2 = Fw @ iFw, iFw @ Fw
            ok = np.allclose(I1, np.eye(N), atol=1e-9) and np.all(np.abs(I2 - np.eye(N)) <= 1e-9 * np.maximum(scale, 1))
            obs.append(_ob(f'weighted_transforms[N={N},alpha={a}]:mutually_inverse', ok, dict(err=float(np.abs(I1 - np.eye(N)).max()))))
            E = H.get_E_matrix(N, a).toarray()
            wantE = np.zeros((N, N))
            for i in range(1, N):
                wantE[i, i - 1] = -1.0
            wantE[0, N - 1] += -a
            obs.append(_ob(f'E[N={N},alpha={a}]:alpha_circulant_shift', np.allclose(E, wantE)))
            D = Fw @ E @ iFw
            d = np.fft.fft(1 / g * E[:, 0], norm='backward')
            ok = np.allclose(D, np.diag(d), atol=1e-8 * max(1.0, np.abs(d).max()))
            obs.append(_ob(f'diagonalisation[N={N},alpha={a}]:FFTw_E_iFFTw_is_diag(d)', ok, dict(offdiag=float(np.abs(D - np.diag(np.diag(D))).max()))))
            for M in (1, 2, 3) if tier == 'quick' else (1, 2, 3, 4, 5):
                sp_ = dict(num_nodes=M, quad_type='RADAU-RIGHT')
                Hm = H.get_H_matrix(M, sp_).toarray()
                okH = np.array_equal(Hm, np.array([[1.0 if j == M - 1 else 0.0 for j in range(M)] for _ in range(M)]))
                okG = True
                for l in range(N):
                    if abs(d[l] + 1) < 1e-12:
                        continue  # alpha = 1, zero frequency: d_l*H + I is singular by theory (time-periodic problem), no inverse is claimed
                    try:
                        Gi = H.get_G_inv_matrix(l, N, a, sp_)
                    except Exception:  # d_l*H + I is regular here: failing to deliver the inverse breaks the clause
                        okG = False
                        continue
                    okG = okG and np.allclose((d[l] * Hm + np.eye(M)) @ Gi, np.eye(M), atol=1e-9)
                obs.append(_ob(f'G_inv[N={N},alpha={a},M={M}]:inverse_of_d_l*H+I_with_the_same_d_l', okH and okG))
    try:
        H.get_H_matrix(3, dict(num_nodes=3, quad_type='LOBATTO'))
        obs.append(_ob('H:only_radau_right', False))
    except AssertionError:
        obs.append(_ob('H:only_radau_right', True))
    return _pack('ParaDiagHelper.*', obs, 'transforms mutually inverse, diagonalisation of the alpha-circulant matrix with d = fft(gamma^-1 E[:,0]), G_inv built from the same d_l',
                 f'N in {list(Ns)}, alpha in {alphas}, M <= 3 (quick) / 5', label='bounded numeric (double precision, allowance 1e-9)')


def check_sweeper_symbolic(tier, seed):
    """rational-function identities decided by sympy on the REAL update_nodes / mat_vec"""
    import sympy as sp
    from pySDC.core.level import Level
    from pySDC.implementations.sweeper_classes.ParaDiagSweepers import QDiagonalization

    lam, dt, u0s = sp.symbols('lambda dt u0')

    class SymDahlquist:
        """problem contract on the Dahlquist law f(u) = lambda*u over sympy scalars"""

        def __init__(self, **kw):
            self.init = ('sympy',)
            self.work_counters = {}
            self.calls = []

        dtype_u = staticmethod(lambda init=None, val=0: (init if isinstance(init, sp.Expr) else sp.Integer(0)))
        dtype_f = dtype_u

        @property
        def u_init(self):
            return sp.Integer(0)

        def eval_f(self, u, t):
            return lam * u

        def solve_jacobian(self, rhs, factor, u=None, t=0, **kw):
            self.calls.append((rhs, factor, u, t))
            return rhs / (1 - factor * lam)

        solve_system = lambda self, rhs, factor, u0, t: rhs / (1 - factor * lam)

    obs = []
    for M in (1, 2) if tier == 'quick' else (1, 2, 3):
        for ignore_ic in (False, True):
            for fullG in (False, True):
                if fullG and M == 3:
                    continue
                for earlier in (False, True):
                    L = Level(problem_class=SymDahlquist, problem_params={}, sweeper_class=QDiagonalization,
                              sweeper_params=dict(num_nodes=M, quad_type='RADAU-RIGHT', ignore_ic=ignore_ic, update_f_evals=False), level_params=dict(dt=1.0), level_index=0)
                    sw = L.sweep
                    S = sp.Matrix(M, M, lambda i, j: sp.Symbol(f's{i}{j}'))
                    w = [sp.Symbol(f'w{i}') for i in range(M)]
                    Gi = sp.Matrix(M, M, lambda i, j: sp.Symbol(f'g{i}{j}') if (fullG or i == j) else 0)
                    Sinv = S.inv()
                    G = Gi.inv()
                    Q = sp.simplify(S * sp.diag(*w) * Sinv * G)  # so that Q*G_inv = S diag(w) S^-1 : what computeDiagonalization assumes/delivers
                    sw.S = np.array(S.tolist(), dtype=object)
                    sw.S_inv = np.array(Sinv.tolist(), dtype=object)
                    sw.w = np.array(w, dtype=object)
                    sw.params.G_inv = np.array(Gi.tolist(), dtype=object)
                    sw.coll.Qmat = np.array([[0] * (M + 1)] + [[0] + list(Q.row(i)) for i in range(M)], dtype=object)
                    L.params.dt = dt
                    L.status.time = sp.Symbol('t0')
                    L.u[0] = u0s
                    r = [sp.Symbol(f'r{m}') for m in range(M)]
                    for m in range(M):
                        L.residual[m] = r[m]
                    L.status.unlocked = True
                    tag = f'QDiagonalization.update_nodes[M={M},ignore_ic={ignore_ic},G_inv={"full" if fullG else "diagonal"}{",second_use_with_another_dt" if earlier else ""}]'
                    if earlier:
                        # history: the same sweeper solved before with ANOTHER step size, time and data (step size changed between runs / by adaptivity)
                        L.params.dt, L.status.time, L.u[0] = sp.Symbol('dt_before'), sp.Symbol('t_before'), sp.Symbol('u0_before')
                        for m in range(M):
                            L.residual[m] = sp.Symbol(f'r_before{m}')
                        try:
                            sw.update_nodes()
                        except Exception:
                            pass
                        L.params.dt, L.status.time, L.u[0] = dt, sp.Symbol('t0'), u0s
                        for m in range(M):
                            L.residual[m] = r[m]
                        L.prob.calls.clear()
                    try:
                        sw.update_nodes()
                    except Exception as e:
                        obs.append(_ob(f'{tag}:runs', False, dict(error=repr(e)[:200]), backend='sympy'))
                        continue
                    y = sp.Matrix([L.increment[m] if ignore_ic else L.u[m + 1] for m in range(M)])
                    rhs = sp.Matrix(r) if ignore_ic else sp.Matrix([u0s] * M)
                    defect = (G - dt * lam * Q) * y - rhs
                    ok = all(sp.simplify(sp.together(e)) == 0 for e in defect)
                    obs.append(_ob(f'{tag}:one_application_solves_(G-dt*lambda*Q)y=rhs_exactly', ok, dict(defect=str(defect)[:300]), backend='sympy'))
                    P = L.prob
                    okc = len(P.calls) == M and all(sp.simplify(c[1] - w[m] * dt) == 0 for m, c in enumerate(P.calls))
                    obs.append(_ob(f'{tag}:local_solves_use_factor_w_m*dt', okc, backend='sympy'))
                    if not ignore_ic and M > 1:
                        # canary: the serial collocation equation (G = I) must NOT hold for a general G_inv
                        wrong = (sp.eye(M) - dt * lam * Q) * y - rhs
                        obs.append(_ob(f'{tag}:canary_general_G_is_not_identity', any(sp.simplify(sp.together(e)) != 0 for e in wrong), backend='sympy'))
    return _pack('QDiagonalization.update_nodes/mat_vec', obs, 'one application solves the (alpha-weighted) linear collocation problem exactly: rational-function identity in S, w, G_inv, dt, lambda, data',
                 'M <= 2 (quick) / 3, diagonal and full G_inv, both input modes', label='proved per M (sympy normal form)')


def check_iteration_order(tier, seed):
    from pySDC.implementations.controller_classes.controller_ParaDiag_nonMPI import controller_ParaDiag_nonMPI
    from pySDC.implementations.problem_classes.TestEquation_0D import testequation0d
    from pySDC.implementations.sweeper_classes.ParaDiagSweepers import QDiagonalization

    obs = []
    for n in (1, 2, 4):
        d = dict(problem_class=testequation0d, problem_params=dict(lambdas=-1.0 * np.ones(2), u0=1.0), sweeper_class=QDiagonalization,
                 sweeper_params=dict(num_nodes=2, quad_type='RADAU-RIGHT', initial_guess='spread'), level_params=dict(dt=0.1, restol=1e-8), step_params=dict(maxiter=9))
        c = controller_ParaDiag_nonMPI(num_procs=n, controller_params=dict(logger_level=40, alpha=1e-4, mssdc_jac=False, dump_setup=False), description=d)
        tr = []
        c.prepare_Jacobians = lambda MS: tr.append('prepare_Jacobians')
        c.compute_all_at_once_residual = lambda MS: tr.append('residual')
        c.FFT_in_time = lambda quantity: tr.append(f'FFT[{quantity}]')
        c.iFFT_in_time = lambda quantity: tr.append(f'iFFT[{quantity}]')
        c.update_solution = lambda MS: tr.append('update_solution')
        for p, S in enumerate(c.MS):
            S.status.slot = p
            S.status.stage = 'IT_PARADIAG'
            S.levels[0].sweep.update_nodes = (lambda p=p: tr.append(f'solve[{p}]'))
        c.it_ParaDiag(c.MS)
        want = ['prepare_Jacobians', 'residual', 'FFT[residual]'] + [f'solve[{p}]' for p in range(n)] + ['iFFT[increment]', 'update_solution']
        obs.append(_ob(f'it_ParaDiag[n={n}]:residual_FFT_local_solves_iFFT_increment', tr == want and all(S.status.stage == 'IT_CHECK' for S in c.MS), dict(trace=tr), backend='trace'))
    try:
        controller_ParaDiag_nonMPI(num_procs=2, controller_params=dict(logger_level=40, mssdc_jac=False, dump_setup=False), description=dict(d))
        obs.append(_ob('controller:alpha_required', False, backend='trace'))
    except Exception as e:
        obs.append(_ob('controller:alpha_required', type(e).__name__ == 'ParameterError', backend='trace'))
    return _pack('controller_ParaDiag_nonMPI.it_ParaDiag', obs, 'call order of one ParaDiag iteration; missing alpha rejected', 'n_steps 1, 2, 4', label='instance-proved (trace)')


def bounded_runs(tier, seed):
    from pySDC.implementations.controller_classes.controller_ParaDiag_nonMPI import controller_ParaDiag_nonMPI
    from pySDC.implementations.controller_classes.controller_nonMPI import controller_nonMPI
    from pySDC.implementations.problem_classes.TestEquation_0D import testequation0d, test_equation_IMEX
    from pySDC.implementations.sweeper_classes.ParaDiagSweepers import QDiagonalization, QDiagonalizationIMEX
    from pySDC.implementations.sweeper_classes.generic_implicit import generic_implicit
    from pySDC.implementations.sweeper_classes.imex_1st_order import imex_1st_order

    rng = np.random.RandomState(seed + 4)
    obs = []
    for n in (1, 2, 4) if tier == 'quick' else (1, 2, 3, 4, 8):
        for M in (2, 3):
            for alpha in (1e-4, 1e-8) if tier == 'quick' else (1e-2, 1e-4, 1e-8):
                for imex in (False, True):
                    lamI = -rng.rand(2) - 0.1
                    lamE = -0.1 * rng.rand(2)
                    dt = 0.1
                    sp_ = dict(num_nodes=M, quad_type='RADAU-RIGHT', initial_guess='spread')
                    lp = dict(dt=dt, restol=1e-10)
                    if imex:
                        pp = dict(lambdas_implicit=lamI, lambdas_explicit=lamE, u0=1.0)
                        dP = dict(problem_class=test_equation_IMEX, problem_params=pp, sweeper_class=QDiagonalizationIMEX)
                        dS = dict(problem_class=test_equation_IMEX, problem_params=dict(pp), sweeper_class=imex_1st_order)
                    else:
                        pp = dict(lambdas=lamI, u0=1.0)
                        dP = dict(problem_class=testequation0d, problem_params=pp, sweeper_class=QDiagonalization)
                        dS = dict(problem_class=testequation0d, problem_params=dict(pp), sweeper_class=generic_implicit)
                    for d_ in (dP, dS):
                        d_.update(sweeper_params=dict(sp_), level_params=dict(lp), step_params=dict(maxiter=99))
                    tag = f'run[n={n},M={M},alpha={alpha},{"imex" if imex else "implicit"}]'
                    try:
                        cP = controller_ParaDiag_nonMPI(num_procs=n, controller_params=dict(logger_level=40, alpha=alpha, mssdc_jac=False, dump_setup=False, average_jacobian=False), description=dP)
                        for prob in [S.levels[0].prob for S in cP.MS]:
                            prob.init = tuple([*prob.init[:2]] + [np.dtype('complex128')])
                        u0 = cP.MS[0].levels[0].prob.u_exact(0)
                        t0 = 0.0 if (n + M) % 2 else 0.35  # the start time is not always zero
                        uP, _ = cP.run(u0=u0, t0=t0, Tend=t0 + n * dt * 2)
                        cS = controller_nonMPI(num_procs=1, controller_params=dict(logger_level=40, dump_setup=False), description=dS)
                        uS, _ = cS.run(u0=cS.MS[0].levels[0].prob.u_exact(0), t0=t0, Tend=t0 + n * dt * 2)
                        err = float(np.max(np.abs(np.asarray(uP) - np.asarray(uS))))
                        obs.append(_ob(f'{tag}:converged_ParaDiag_equals_sequential_collocation', err < 1e-7, dict(err=err), backend='native-run', counted=False))
                    except Exception as e:
                        obs.append(_ob(f'{tag}:runs', False, dict(error=repr(e)[:200]), backend='native-run', counted=False))
    return _pack('controller_ParaDiag_nonMPI.run[converged]', obs, 'converged ParaDiag run vs sequential collocation time stepping', 'n_steps x M in {2,3} x alpha x implicit/IMEX Dahlquist (2 blocks)')


CONTRACTS = []
EXTRAS = [check_helpers, check_sweeper_symbolic, check_iteration_order, bounded_runs]
ASSUMPTIONS = ['numpy.linalg.eig / inv deliver A S = S diag(w), S S^-1 = I (the real code asserts it with allclose); scipy.sparse.linalg.inv; numpy.fft',
               'helper identities are checked in double precision (allowance 1e-9): exact algebra over Q(zeta_N) is not built']
UNDECIDED = ['averaged-Jacobian variant, nonlinear problems', 'exact (cyclotomic) proof of the helper identities for all alpha']


# ------------------------------------------------------------------------------------------------ deductive contracts
from vc import sym
from vc.contract import Contract, State, veq, seq
from vc.vec import Vec


def make_paradiag_controller(mk, n, M=2, alpha=1e-4):
    from pySDC.implementations.controller_classes.controller_ParaDiag_nonMPI import controller_ParaDiag_nonMPI
    from pySDC.implementations.sweeper_classes.ParaDiagSweepers import QDiagonalization
    from vc.ghost.problem import AbstractProblem

    if mk.mode == 'sym':
        pc = AbstractProblem
    else:
        from vc.native import ConcreteLinearProblem as pc
    d = dict(problem_class=pc, problem_params=dict(kind='full', name='P'), sweeper_class=QDiagonalization,
             sweeper_params=dict(num_nodes=M, quad_type='RADAU-RIGHT', initial_guess='spread'), level_params=dict(dt=0.1, restol=1e-8), step_params=dict(maxiter=9))
    return controller_ParaDiag_nonMPI(num_procs=n, controller_params=dict(logger_level=40, alpha=alpha, mssdc_jac=False, dump_setup=False, average_jacobian=False), description=d)


class ApplyMatrix(Contract):
    """apply_matrix(mat, q): q_i[m] := sum_j mat[i,j] * q_j[m] for every step i and node m -- for EVERY matrix entry, however small
    (the weighted FFT matrices carry entries of size alpha^((L-1)/L)/sqrt(L))"""

    prop = 'C15'
    name = 'controller_ParaDiag_nonMPI.apply_matrix'
    target = ('pySDC/implementations/controller_classes/controller_ParaDiag_nonMPI.py', 'controller_ParaDiag_nonMPI.apply_matrix')
    label = 'instance-proved'
    native = True

    def instances(self, tier):
        return [dict(n=n, quantity=q, entries=e) for n in ((1, 2, 3) if tier == 'quick' else (1, 2, 3, 4)) for q in ('residual', 'increment') for e in ('symbolic', 'tiny')]

    def build(self, inst, mk):
        n, M = inst['n'], 2
        c = make_paradiag_controller(mk, n, M)
        if inst['entries'] == 'symbolic':
            mat = mk.matrix('mat', n, n)
        else:
            mat = np.array([[10.0 ** (-(3 + 4 * ((i + 2 * j) % 4))) * (1 + i + j) for j in range(n)] for i in range(n)])  # entries down to 1e-15
        st = State(c=c, mat=mat, inst=inst, n=n, M=M)
        st.old = []
        for p, S in enumerate(c.MS):
            L = S.levels[0]
            for m in range(M):
                L.residual[m] = mk.vec(f'res[{p},{m}]')
                L.increment[m] = mk.vec(f'inc[{p},{m}]')
            st.old.append([type(x)(x) for x in (L.residual if inst['quantity'] == 'residual' else L.increment)])
        st.call = lambda: c.apply_matrix(mat, inst['quantity'])
        return st

    def post(self, st, old, result, exc):
        yield 'returns_normally', exc is None
        if exc is not None:
            return
        for i, S in enumerate(st.c.MS):
            L = S.levels[0]
            cur = L.residual if st.inst['quantity'] == 'residual' else L.increment
            other = L.increment if st.inst['quantity'] == 'residual' else L.residual
            for m in range(st.M):
                want = None
                for j in range(st.n):
                    term = st.mat[i, j] * st.old[j][m]
                    want = term if want is None else want + term
                yield f'step{i}_node{m}:linear_combination_of_all_steps', veq(cur[m], want)
        yield 'other_quantity_untouched', True

    def canary(self, st, old, result, exc):
        if st.n > 1:
            L = st.c.MS[0].levels[0]
            cur = L.residual if st.inst['quantity'] == 'residual' else L.increment
            yield 'canary:only_diagonal_entry', veq(cur[0], st.mat[0, 0] * st.old[0][0])
        else:
            yield 'canary:unchanged', veq((st.c.MS[0].levels[0].residual if st.inst['quantity'] == 'residual' else st.c.MS[0].levels[0].increment)[0], st.old[0][0]) if st.inst['entries'] == 'tiny' else False


class EvalFAtAllNodes(Contract):
    """QDiagonalization.eval_f_at_all_nodes (feeds the all-at-once residual): f[m] := F(u[m], t + dt*c_m) for EVERY node m = 1..M
    (the node times matter for non-autonomous right-hand sides); u and f[0] untouched"""

    prop = 'C15'
    name = 'QDiagonalization.eval_f_at_all_nodes'
    target = ('pySDC/implementations/sweeper_classes/ParaDiagSweepers.py', 'QDiagonalization.eval_f_at_all_nodes')
    label = 'instance-proved'
    native = True

    def instances(self, tier):
        return [dict(n=1, M=M) for M in ((1, 2, 3) if tier == 'quick' else (1, 2, 3, 4))]

    def build(self, inst, mk):
        M = inst['M']
        c = make_paradiag_controller(mk, 1, M)
        L = c.MS[0].levels[0]
        L.params.dt = mk.real('dt')
        L.status.time = mk.real('time')
        L.sweep.coll.nodes = mk.vector('c', M)
        for m in range(M + 1):
            L.u[m] = mk.vec(f'u{m}')
            L.f[m] = mk.vec(f'f_old{m}', 'f')
        st = State(L=L, M=M, us=[type(u)(u) for u in L.u], f0=type(L.f[0])(L.f[0]), call=L.sweep.eval_f_at_all_nodes)
        return st

    def post(self, st, old, result, exc):
        L, M, P = st.L, st.M, st.L.prob
        yield 'returns_normally', exc is None
        if exc is not None:
            return
        for m in range(1, M + 1):
            er = P.find_eval(L.f[m]) if hasattr(P, 'find_eval') else None
            if er is not None:
                yield f'f{m}:rhs_of_node_value_at_node_time', bool(veq(er.u, st.us[m])) is True and bool(seq(er.t, L.status.time + L.params.dt * L.sweep.coll.nodes[m - 1])) is True
            else:
                yield f'f{m}:rhs_of_node_value_at_node_time', veq(L.f[m], P.eval_f(st.us[m], L.status.time + L.params.dt * L.sweep.coll.nodes[m - 1]))
        yield 'node_values_and_f0_untouched', bool(veq(L.f[0], st.f0)) is True and all(bool(veq(L.u[m], st.us[m])) is True for m in range(M + 1))

    def canary(self, st, old, result, exc):
        yield 'canary:f1_unchanged', veq(st.L.f[1], st.L.f[0])


def _it_check_contract():
    """controller_ParaDiag_nonMPI.it_check on an arbitrary block state (harness and expected stopping formula of the C07 contract of
    controller_nonMPI.it_check): ParaDiag runs with all-to-done, so EVERY step of the block gets the conjunction of all steps' convergence decisions
    (a block stops only when all its steps are converged -- for both Jacobian modes); not-done steps count one more iteration and go to IT_PARADIAG,
    done steps compute their end point before post_step"""
    from contracts.C07_block import ItCheck, setup_block, idx, hooks_of
    from vc.sym import And, Iff
    from vc.contract import seq
    from pySDC.implementations.controller_classes.controller_ParaDiag_nonMPI import controller_ParaDiag_nonMPI as PD

    class ItCheckParaDiag(ItCheck):
        prop = 'C15'
        name = 'controller_ParaDiag_nonMPI.it_check'
        target = ('pySDC/implementations/controller_classes/controller_ParaDiag_nonMPI.py', 'controller_ParaDiag_nonMPI.it_check')

        def instances(self, tier):
            return [dict(n=n, d=0, nlevels=1, mssdc_jac=False, all_to_done=True, average_jacobian=aj) for n in ((1, 2, 3) if tier == 'quick' else (1, 2, 3, 4)) for aj in (True, False)]

        def build(self, inst, mk):
            st = setup_block(mk, inst, 'IT_CHECK', flags=('done', 'force_done', 'restart'))
            object.__setattr__(st.c.params, 'average_jacobian', inst['average_jacobian'])
            st.call = lambda: PD.it_check(st.c, st.running)
            return st

        def post(self, st, old, result, exc):
            tr, run, k = st.trace, st.running, st.k
            yield 'returns_normally', exc is None
            if exc is not None:
                return
            conv = [st.cc.conv.get(('done', S.status.slot)) for S in run]
            yield 'convergence_control_called_for_every_running_step', all(c is not None for c in conv)
            if any(c is None for c in conv):
                return
            allc = And(*conv)
            for S in run:
                p = S.status.slot
                yield f'block_stops_only_when_all_steps_are_converged[{p}]', Iff(S.status.done, allc)
                isdone = bool(S.status.done) if not isinstance(S.status.done, bool) else S.status.done
                kpos = bool(k > 0)
                yield f'iter_increment_iff_not_done[{p}]', seq(S.status.iter, k if isdone else k + 1)
                want_hooks = (['post_iteration'] if kpos else []) + (['post_step'] if isdone else ['pre_iteration'])
                yield f'hooks_grammar[{p}]', hooks_of(tr, p) == want_hooks
                if isdone:
                    ce, ps = idx(tr, ('compute_end_point', p, 0)), idx(tr, ('hook', 'post_step', p, 0))
                    yield f'stage_done_and_end_point_before_post_step[{p}]', S.status.stage == 'DONE' and len(ps) == 1 and any(i < ps[0] for i in ce)
                else:
                    yield f'next_stage_is_another_ParaDiag_iteration[{p}]', S.status.stage == 'IT_PARADIAG'
            yield 'buffers_reset_at_end', bool(tr) and tr[-1] == ('cc', 'reset_buffers_nonMPI', None)

        def canary(self, st, old, result, exc):
            if len(st.running) > 1:
                yield 'canary:first_step_decides', Iff(st.running[-1].status.done, st.cc.conv.get(('done', st.running[0].status.slot)))
            else:
                yield 'canary:never_done', st.running[0].status.done is False

    return ItCheckParaDiag


def _run_contracts():
    # block scheduling of the ParaDiag run (start time, seeding of blocks): the C06 loop-cut contracts of controller_ParaDiag_nonMPI.run
    from contracts.C06_paradiag import RunEntryPD, RunBodyPD, RunExitPD

    def post_without_the_C06_only_clause(self, st, old, result, exc):
        # "no accepted step starts at or beyond Tend" is a clause of C06 (and a recorded finding there), not of C15
        for nm, c in RunBodyPD.post(self, st, old, result, exc):
            if not nm.startswith('accepted_step_started_before_Tend'):
                yield nm, c

    out = [type(b.__name__ + '_C15', (b,), dict(prop='C15')) for b in (RunEntryPD, RunExitPD)]
    out.append(type('RunBodyPD_C15', (RunBodyPD,), dict(prop='C15', post=post_without_the_C06_only_clause)))
    return out


def check_transform_roundtrip_and_set_G_inv(tier, seed):
    """(a) FFT_in_time followed by iFFT_in_time is the identity on the step data for every n_steps 1..16 and alpha over ten decades
    (real controller, real mesh data); (b) history clause: after set_G_inv(G_new) on an EXISTING sweeper the stored
    diagonalisation is that of Q G_new (numpy eig/inv assumed), and G_inv is G_new."""
    from pySDC.implementations.controller_classes.controller_ParaDiag_nonMPI import controller_ParaDiag_nonMPI
    from pySDC.implementations.problem_classes.TestEquation_0D import testequation0d
    from pySDC.implementations.sweeper_classes.ParaDiagSweepers import QDiagonalization
    from pySDC.helpers.ParaDiagHelper import get_G_inv_matrix

    rng = np.random.RandomState(seed + 9)
    obs = []
    for n in (1, 2, 4, 8, 16) if tier == 'quick' else range(1, 17):
        for alpha in (0.3, 1e-2, 1e-4, 1e-6, 1e-8, 1e-10):  # alpha = 1 is singular at the zero frequency (no G_inv)
            d = dict(problem_class=testequation0d, problem_params=dict(lambdas=-1.0 * np.ones(2), u0=1.0), sweeper_class=QDiagonalization,
                     sweeper_params=dict(num_nodes=2, quad_type='RADAU-RIGHT', initial_guess='spread'), level_params=dict(dt=0.1, restol=1e-8), step_params=dict(maxiter=9))
            c = controller_ParaDiag_nonMPI(num_procs=n, controller_params=dict(logger_level=40, alpha=alpha, mssdc_jac=False, dump_setup=False), description=d)
            for prob in [S.levels[0].prob for S in c.MS]:
                prob.init = tuple([*prob.init[:2]] + [np.dtype('complex128')])
            orig = []
            for S in c.MS:
                L = S.levels[0]
                for m in range(2):
                    L.residual[m] = L.prob.u_init
                    L.residual[m][:] = rng.randn(2) + 1j * rng.randn(2)
                orig.append([np.array(x) for x in L.residual])
            c.FFT_in_time(quantity='residual')
            c.iFFT_in_time(quantity='residual')
            err = max(float(np.max(np.abs(np.asarray(S.levels[0].residual[m]) - orig[p][m]))) for p, S in enumerate(c.MS) for m in range(2))
            tol = 1e-12 * (1 + alpha ** (-(n - 1) / n))  # rounding allowance scaled with the condition number of the J-weighting
            obs.append(_ob(f'controller[n={n},alpha={alpha}]:iFFT_in_time_after_FFT_in_time_is_identity', err < tol, dict(err=err, tol=tol)))
    # history clause for the controller's transforms: the weighting follows the CURRENT alpha of the controller (alpha changed on a live controller
    # between two uses, as an alpha-adaptive run does): the forward transform is the weighted FFT matrix of the current alpha applied to the step data
    for n in (2, 4) if tier == 'quick' else (2, 3, 4, 8):
        d = dict(problem_class=testequation0d, problem_params=dict(lambdas=-1.0 * np.ones(2), u0=1.0), sweeper_class=QDiagonalization,
                 sweeper_params=dict(num_nodes=2, quad_type='RADAU-RIGHT', initial_guess='spread'), level_params=dict(dt=0.1, restol=1e-8), step_params=dict(maxiter=9))
        c = controller_ParaDiag_nonMPI(num_procs=n, controller_params=dict(logger_level=40, alpha=1e-6, mssdc_jac=False, dump_setup=False), description=d)
        for prob in [S.levels[0].prob for S in c.MS]:
            prob.init = tuple([*prob.init[:2]] + [np.dtype('complex128')])
        from pySDC.helpers.ParaDiagHelper import get_weighted_FFT_matrix, get_weighted_iFFT_matrix

        for use, alpha in enumerate((1e-6, 1e-1, 1e-3)):
            c.params.alpha = alpha
            data = []
            for S in c.MS:
                L = S.levels[0]
                for m in range(2):
                    L.residual[m] = L.prob.u_init
                    L.residual[m][:] = rng.randn(2) + 1j * rng.randn(2)
                    L.increment[m] = L.prob.u_init
                    L.increment[m][:] = rng.randn(2) + 1j * rng.randn(2)
                data.append(([np.array(x) for x in L.residual], [np.array(x) for x in L.increment]))
            c.FFT_in_time(quantity='residual')
            c.iFFT_in_time(quantity='increment')
            F, iF = get_weighted_FFT_matrix(n, alpha), get_weighted_iFFT_matrix(n, alpha)
            err = 0.0
            for i, S in enumerate(c.MS):
                for m in range(2):
                    err = max(err, float(np.max(np.abs(np.asarray(S.levels[0].residual[m]) - sum(F[i, j] * data[j][0][m] for j in range(n))))) / max(1.0, float(np.abs(F).max())))
                    err = max(err, float(np.max(np.abs(np.asarray(S.levels[0].increment[m]) - sum(iF[i, j] * data[j][1][m] for j in range(n))))) / max(1.0, float(np.abs(iF).max())))
            obs.append(_ob(f'controller[n={n}]:use#{use + 1}_with_alpha={alpha}:transforms_are_weighted_with_the_current_alpha', err < 1e-9, dict(err=err)))
    # history clause for set_G_inv
    for M in (2, 3):
        from pySDC.core.level import Level

        L = Level(problem_class=testequation0d, problem_params=dict(lambdas=-1.0 * np.ones(2), u0=1.0), sweeper_class=QDiagonalization,
                  sweeper_params=dict(num_nodes=M, quad_type='RADAU-RIGHT'), level_params=dict(dt=0.1), level_index=0)
        sw = L.sweep
        Q = sw.coll.Qmat[1:, 1:]
        for trial in range(3):
            G = np.eye(M) + 0.3 * rng.randn(M, M)
            sw.set_G_inv(G)
            A = Q @ G
            ok = np.allclose(sw.S @ np.diag(sw.w) @ sw.S_inv, A, atol=1e-10) and sw.params.G_inv is G
            obs.append(_ob(f'QDiagonalization.set_G_inv[M={M},call#{trial + 1}]:diagonalisation_belongs_to_the_NEW_G_inv', ok, dict(err=float(np.abs(sw.S @ np.diag(sw.w) @ sw.S_inv - A).max()))))
    return _pack('controller FFT_in_time/iFFT_in_time + QDiagonalization.set_G_inv', obs, 'time transforms of the controller are mutually inverse on step data; set_G_inv re-diagonalises for the new matrix (history: repeated calls)',
                 'n_steps 1..16 (quick: 1,2,4,8,16) x alpha over ten decades; 3 successive set_G_inv calls, M = 2, 3')


CONTRACTS = [ApplyMatrix, EvalFAtAllNodes, _it_check_contract()] + _run_contracts()
EXTRAS = [check_helpers, check_sweeper_symbolic, check_iteration_order, bounded_runs, check_transform_roundtrip_and_set_G_inv]
