"""
C02 (DAE project sweepers) -- pySDC/projects/DAE/sweepers/fullyImplicitDAE.py and semiImplicitDAE.py.

L.f holds the DERIVATIVE approximations U_m. One sweep, node by node:
    solve  0 = F(u_approx_m + dt*QI[m,m] * U, U, t_m)   for U        (semi-explicit: for (U.diff, z.alg))
    with   u_approx_m = u0 + dt*sum_j (Q - QI)[m,j] U_j^old + dt*sum_{j<m} QI[m,j] U_j^new
and afterwards u_m = u0 + dt*sum_j Q[m,j] U_j^new (differential part only for the semi-explicit form).
The problem is a ghost (C12-style stub): eval_f(u, du, t) uninterpreted, solve_system(impl_sys, u_approx, factor, guess, t)
returns a fresh value and records what it was asked; the implicit system function handed over must be the sweeper's F,
whose own contract is   F(du, P, a, w, t) = P.eval_f(w + a*du, du, t)  (semi: alg part of the first argument := du.alg).
"""

from vc import sym
from vc.sym import And
from vc.vec import Vec, vec_syntactic_equal
from vc.contract import Contract, State, veq, seq, vsum, snapshot, frame_clauses
from vc.ghost.problem import AbstractProblem, VecMulti, Rec, _same_scalar, data_syntactic_equal
from contracts.common import make_level, cls_of, lower, cp

DAE = 'pySDC/projects/DAE/sweepers/'


class VecDAE(VecMulti):
    """ghost MeshDAE: differential and algebraic component"""

    components = ('diff', 'alg')


class VecFlat(Vec):
    """mesh twin with numpy's flatten() (a copy)"""

    def flatten(self):
        return VecFlat(self)


class DAEProblem(AbstractProblem):
    def __init__(self, kind='dae-full', name='P', **kw):
        super().__init__(kind='full', name=name)
        self.kind = kind
        self.dtype_u = self.dtype_f = VecFlat if kind == 'dae-full' else VecDAE

    def _fresh(self, nm):
        if self.kind == 'dae-full':
            return VecFlat(Vec.atom(nm))
        r = VecDAE()
        r.diff, r.alg = Vec.atom(nm + '.diff'), Vec.atom(nm + '.alg')
        return r

    def eval_f(self, u, du, t, *a, **kw):
        for r in self.evals:
            if data_syntactic_equal(r.u, u) and data_syntactic_equal(r.du, du) and _same_scalar(r.t, t):
                return cp(r.f)
        k = len(self.evals)
        f = self._fresh(f'{self.name}.G{k}')
        self.evals.append(Rec(f=cp(f), u=cp(u), du=cp(du), t=t, k=k))
        return f

    def solve_system(self, impl_sys, u_approx, factor, u0, t, *a, **kw):
        k = len(self.solves)
        s = self._fresh(f'{self.name}.S{k}')
        self.solves.append(Rec(s=cp(s), fn=impl_sys, u_approx=cp(u_approx), factor=factor, u0=cp(u0), t=t, k=k, n_evals=len(self.evals)))
        return s

    def find_solve(self, x):
        for r in self.solves:
            if data_syntactic_equal(r.s, x):
                return r
        return None


def _lvl(cls_file, cls_name, kind, M, mk, tau=False):
    L = make_level(cls_of(DAE + cls_file, cls_name), M, mk, kind=kind, fill=False, problem_class=DAEProblem, problem_params=dict(kind=kind))
    L.sweep.QI = mk.matrix('L.QI', M + 1, M + 1, lower)
    P = L.prob
    for m in range(M + 1):
        L.u[m] = P._fresh(f'L.u{m}')
        L.f[m] = P._fresh(f'L.U{m}')
    L.status.unlocked = True
    return L


class _DaeBase(Contract):
    prop = 'C02'
    label = 'instance-proved'
    native = False
    stubs = ('ProblemDAE.eval_f(u, du, t) [uninterpreted map, arguments unchanged]',
             'ProblemDAE.solve_system(impl_sys, u_approx, factor, guess, t) [returns the root of du -> impl_sys(du, P, factor, u_approx, t); arguments unchanged]')

    def instances(self, tier):
        return [dict(M=M) for M in ((1, 2, 3) if tier == 'quick' else (1, 2, 3, 4))]

    def snapshot(self, st):
        st.old_u = [cp(u) for u in st.L.u]
        st.old_f = [cp(f) for f in st.L.f]
        return snapshot({'L': st.L})


class FullyImplicitUpdate(_DaeBase):
    name = 'FullyImplicitDAE.update_nodes'
    target = (DAE + 'fullyImplicitDAE.py', 'FullyImplicitDAE.update_nodes')

    def build(self, inst, mk):
        L = _lvl('fullyImplicitDAE.py', 'FullyImplicitDAE', 'dae-full', inst['M'], mk)
        return State(L=L, M=inst['M'], call=L.sweep.update_nodes)

    def post(self, st, old, result, exc):
        L, M, sw, P = st.L, st.M, st.L.sweep, st.L.prob
        dt, Q, QI = L.params.dt, sw.coll.Qmat, sw.QI
        yield 'returns_normally', exc is None
        if exc is not None:
            return
        yield 'one_solve_per_node', len(P.solves) == M
        for m in range(1, M + 1):
            rec = P.find_solve(L.f[m])
            yield f'U{m}:is_the_result_of_a_solve', rec is not None
            if rec is None:
                continue
            want = cp(st.old_u[0]) + vsum(dt * (Q[m, j] - QI[m, j]) * st.old_f[j] for j in range(1, M + 1)) + vsum(dt * QI[m, j] * L.f[j] for j in range(1, m))
            yield f'U{m}:u_approx', veq(rec.u_approx, want)
            yield f'U{m}:factor', seq(rec.factor, dt * QI[m, m])
            yield f'U{m}:time', seq(rec.t, L.status.time + dt * sw.coll.nodes[m - 1])
            yield f'U{m}:guess_is_old_derivative', veq(rec.u0, st.old_f[m])
            yield f'U{m}:implicit_system_is_the_sweepers_F', rec.fn is sw.F or rec.fn == type(sw).F
            yield f'U{m}:nodes_in_order', rec.k == m - 1
        for m in range(1, M + 1):
            yield f'u{m}:u0_plus_dtQU_new', veq(L.u[m], cp(st.old_u[0]) + vsum(dt * Q[m, j] * L.f[j] for j in range(1, M + 1)))
        yield 'status.updated', L.status.updated is True
        yield from frame_clauses(old, snapshot({'L': L}), frame=[f'L.u[{m}]' for m in range(1, M + 1)] + [f'L.f[{m}]' for m in range(1, M + 1)] + ['L.status.updated', 'L.prob'])

    def canary(self, st, old, result, exc):
        L, M, P = st.L, st.M, st.L.prob
        rec = P.find_solve(L.f[M])
        yield 'canary:u_approx_is_u0', veq(rec.u_approx, st.old_u[0])


class _FBase(Contract):
    prop = 'C02'
    label = 'proved'
    native = False
    stubs = _DaeBase.stubs[:1]

    def build(self, inst, mk):
        P = DAEProblem(kind=self.kind, name='P')
        du, w = P._fresh('du'), P._fresh('w')
        a, t = mk.real('factor'), mk.real('t')
        F = cls_of(DAE + self.file, self.cls).F
        return State(P=P, du=du, w=w, a=a, t=t, du0=cp(du), w0=cp(w), call=lambda: F(du, P, a, w, t))

    def post(self, st, old, result, exc):
        P = st.P
        yield 'returns_normally', exc is None
        if exc is not None:
            return
        yield 'one_evaluation', len(P.evals) == 1
        r = P.evals[0]
        yield 'result_is_that_evaluation', data_syntactic_equal(r.f, result)
        yield 'second_argument_is_du', veq(r.du, st.du0)
        yield 'time', seq(r.t, st.t)
        if self.kind == 'dae-full':
            yield 'first_argument_is_w_plus_factor_du', veq(r.u, st.w0 + st.a * st.du0)
        else:
            yield 'first_argument.diff_is_w.diff_plus_factor_du.diff', veq(r.u.diff, st.w0.diff + st.a * st.du0.diff)
            yield 'first_argument.alg_is_du.alg', veq(r.u.alg, st.du0.alg)
        yield 'arguments_unchanged', And(veq(st.du, st.du0), veq(st.w, st.w0))

    def canary(self, st, old, result, exc):
        yield 'canary:factor_ignored', veq(st.P.evals[0].u if self.kind == 'dae-full' else st.P.evals[0].u.diff, st.w0 if self.kind == 'dae-full' else st.w0.diff)


class FullyImplicitF(_FBase):
    name = 'FullyImplicitDAE.F'
    target = (DAE + 'fullyImplicitDAE.py', 'FullyImplicitDAE.F')
    file, cls, kind = 'fullyImplicitDAE.py', 'FullyImplicitDAE', 'dae-full'


class SemiImplicitF(_FBase):
    name = 'SemiImplicitDAE.F'
    target = (DAE + 'semiImplicitDAE.py', 'SemiImplicitDAE.F')
    file, cls, kind = 'semiImplicitDAE.py', 'SemiImplicitDAE', 'dae-semi'


class SemiImplicitIntegrate(_DaeBase):
    name = 'SemiImplicitDAE.integrate'
    target = (DAE + 'semiImplicitDAE.py', 'SemiImplicitDAE.integrate')

    def build(self, inst, mk):
        L = _lvl('semiImplicitDAE.py', 'SemiImplicitDAE', 'dae-semi', inst['M'], mk)
        return State(L=L, M=inst['M'], call=L.sweep.integrate)

    def post(self, st, old, result, exc):
        L, M = st.L, st.M
        Q, dt = L.sweep.coll.Qmat, L.params.dt
        yield 'returns_M_values', exc is None and len(result) == M
        if exc is not None:
            return
        for m in range(M):
            yield f'row{m + 1}:diff_is_dtQU.diff', veq(result[m].diff, vsum(dt * Q[m + 1, j] * st.old_f[j].diff for j in range(1, M + 1)))
            yield f'row{m + 1}:alg_is_zero', veq(result[m].alg, 0)
        yield from frame_clauses(old, snapshot({'L': L}), frame=())

    def canary(self, st, old, result, exc):
        yield 'canary:alg_integrated_too', veq(result[0].alg, vsum(st.L.params.dt * st.L.sweep.coll.Qmat[1, j] * st.old_f[j].alg for j in range(1, st.M + 1)))


class SemiImplicitUpdate(_DaeBase):
    name = 'SemiImplicitDAE.update_nodes'
    target = (DAE + 'semiImplicitDAE.py', 'SemiImplicitDAE.update_nodes')

    def build(self, inst, mk):
        L = _lvl('semiImplicitDAE.py', 'SemiImplicitDAE', 'dae-semi', inst['M'], mk)
        return State(L=L, M=inst['M'], call=L.sweep.update_nodes)

    def post(self, st, old, result, exc):
        L, M, sw, P = st.L, st.M, st.L.sweep, st.L.prob
        dt, Q, QI = L.params.dt, sw.coll.Qmat, sw.QI
        yield 'returns_normally', exc is None
        if exc is not None:
            return
        yield 'one_solve_per_node', len(P.solves) == M
        for m in range(1, M + 1):
            rec = P.solves[m - 1] if len(P.solves) >= m else None
            if rec is None:
                continue
            yield f'U{m}.diff:is_the_solves_differential_part', veq(L.f[m].diff, rec.s.diff)
            yield f'z{m}:is_the_solves_algebraic_part', veq(L.u[m].alg, rec.s.alg)
            want = cp(st.old_u[0].diff) + vsum(dt * (Q[m, j] - QI[m, j]) * st.old_f[j].diff for j in range(1, M + 1)) + vsum(dt * QI[m, j] * L.f[j].diff for j in range(1, m))
            yield f'U{m}:u_approx.diff', veq(rec.u_approx.diff, want)
            yield f'U{m}:factor', seq(rec.factor, dt * QI[m, m])
            yield f'U{m}:time', seq(rec.t, L.status.time + dt * sw.coll.nodes[m - 1])
            yield f'U{m}:guess_is_old_derivative_and_old_algebraic_value', And(veq(rec.u0.diff, st.old_f[m].diff), veq(rec.u0.alg, st.old_u[m].alg))
            yield f'U{m}:implicit_system_is_the_sweepers_F', rec.fn is sw.F or rec.fn == type(sw).F
            yield f'U{m}.alg:derivative_of_algebraic_part_untouched', veq(L.f[m].alg, st.old_f[m].alg)
        for m in range(1, M + 1):
            yield f'u{m}.diff:u0_plus_dtQU_new', veq(L.u[m].diff, cp(st.old_u[0].diff) + vsum(dt * Q[m, j] * L.f[j].diff for j in range(1, M + 1)))
        yield 'u0_untouched', And(veq(L.u[0], st.old_u[0]), veq(L.f[0], st.old_f[0]))
        yield 'status.updated', L.status.updated is True

    def canary(self, st, old, result, exc):
        L, M, P = st.L, st.M, st.L.prob
        yield 'canary:u_approx_is_u0', veq(P.solves[M - 1].u_approx.diff, st.old_u[0].diff)
        yield 'canary:algebraic_part_unchanged', veq(L.u[M].alg, st.old_u[M].alg)



class RKDAEUpdate(_DaeBase):
    """Runge-Kutta for fully implicit DAEs: stage derivatives K_m solve 0 = F(u0 + dt*sum_{j<m} A[m,j] K_j + dt*A[m,m] K, K, t + c_m dt)
    (guess: previous stage derivative), then U_m = u0 + dt*sum_j A[m,j] K_j; the last stage derivative is kept as start value of the next step"""

    name = 'RungeKuttaDAE.update_nodes'
    target = (DAE + 'rungeKuttaDAE.py', 'RungeKuttaDAE.update_nodes')

    def instances(self, tier):
        return [dict(cls='BackwardEulerDAE', M=1), dict(cls='TrapezoidalRuleDAE', M=2), dict(cls='EDIRK4DAE', M=4)]

    def build(self, inst, mk):
        import numpy as onp

        M = inst['M']
        L = make_level(cls_of(DAE + 'rungeKuttaDAE.py', inst['cls']), M, mk, kind='dae-full', fill=False, sweeper_params={}, problem_class=DAEProblem, problem_params=dict(kind='dae-full'))
        sw, P = L.sweep, L.prob
        assert sw.coll.num_nodes == M
        sw.coll.Qmat = mk.matrix('L.A', M + 1, M + 1, lower)
        sw.QI = sw.coll.Qmat
        sw.coll.nodes = onp.array([0] + [mk.real(f'L.c_{i}') for i in range(M)], dtype=object)
        L.u[0] = P._fresh('L.u0')
        L.f[0] = P._fresh('L.du0')
        for m in range(1, M + 1):
            L.u[m] = VecFlat()
            L.f[m] = VecFlat()
        L.status.unlocked = True
        L.status.sweep = 1
        return State(L=L, M=M, call=sw.update_nodes)

    def post(self, st, old, result, exc):
        L, M, sw, P = st.L, st.M, st.L.sweep, st.L.prob
        dt, A, c = L.params.dt, sw.QI, sw.coll.nodes
        yield 'returns_normally', exc is None
        if exc is not None:
            return
        from pySDC.projects.DAE.sweepers.fullyImplicitDAE import FullyImplicitDAE

        yield 'one_solve_per_stage', len(P.solves) == M
        for m in range(1, M + 1):
            rec = P.find_solve(L.f[m])
            yield f'K{m}:is_the_result_of_a_solve', rec is not None
            if rec is None:
                continue
            yield f'K{m}:u_approx', veq(rec.u_approx, cp(st.old_u[0]) + vsum(dt * A[m, j] * L.f[j] for j in range(1, m)))
            yield f'K{m}:factor', seq(rec.factor, dt * A[m, m])
            yield f'K{m}:time', seq(rec.t, L.status.time + dt * c[m])
            yield f'K{m}:guess_is_previous_stage_derivative', veq(rec.u0, L.f[m - 1])
            yield f'K{m}:implicit_system_is_FullyImplicitDAE.F', rec.fn is FullyImplicitDAE.F or rec.fn == FullyImplicitDAE.F
        for m in range(1, M + 1):
            yield f'U{m}:u0_plus_dtAK', veq(L.u[m], cp(st.old_u[0]) + vsum(dt * A[m, j] * L.f[j] for j in range(1, M + 1)))
        yield 'last_stage_derivative_kept_for_the_next_step', veq(sw.du_init, L.f[M]) and sw.du_init is not L.f[M]
        yield 'u0_untouched', And(veq(L.u[0], st.old_u[0]), veq(L.f[0], st.old_f[0]))
        yield 'status.updated', L.status.updated is True

    def canary(self, st, old, result, exc):
        yield 'canary:stage_value_is_u0', veq(st.L.u[st.M], st.old_u[0])


class _DaeEndPoint(_DaeBase):
    """compute_end_point of the DAE sweepers (right end point is a node, no collocation update: anything else is refused): the end value is a NEW
    object equal to the last node -- not the node itself (SemiImplicitDAE writes its nodes in place, loggers keep the end value) --, an end value left
    by an earlier call is neither reused nor modified, nothing else changes"""

    cls = None

    def instances(self, tier):
        return [dict(M=M, mode=mode) for M in ((1, 2) if tier == 'quick' else (1, 2, 3)) for mode in ('copy', 'coll_update')]

    def build(self, inst, mk):
        from contracts.common import plant_earlier_end_value

        L = _lvl(self.cls[0], self.cls[1], self.cls[2], inst['M'], mk)
        if inst['mode'] == 'coll_update':
            L.sweep.params.do_coll_update = True
        st = State(L=L, M=inst['M'], inst=inst, call=L.sweep.compute_end_point)
        return plant_earlier_end_value(st, L, L.prob._fresh('L.uend_old'))

    def post(self, st, old, result, exc):
        L, M = st.L, st.M
        if st.inst['mode'] == 'coll_update':
            yield 'quadrature_end_point_refused', isinstance(exc, NotImplementedError)
            return
        yield 'returns_normally', exc is None
        if exc is not None:
            return
        from contracts.common import earlier_end_value_clause

        yield 'uend:last_node', veq(L.uend, st.old_u[M])
        yield 'uend:new_object', all(L.uend is not u for u in L.u) and all(L.uend is not f for f in L.f)
        yield earlier_end_value_clause(st, L)
        yield from frame_clauses(old, snapshot({'L': L}), frame=['L.uend'])

    def canary(self, st, old, result, exc):
        if exc is None:
            yield 'canary:uend_is_u0', veq(st.L.uend, st.old_u[0])
        else:
            yield 'canary:never_raises', False


class FullyImplicitEndPoint(_DaeEndPoint):
    name = 'FullyImplicitDAE.compute_end_point'
    target = (DAE + 'fullyImplicitDAE.py', 'FullyImplicitDAE.compute_end_point')
    cls = ('fullyImplicitDAE.py', 'FullyImplicitDAE', 'dae-full')
    expected_exceptions = (NotImplementedError,)


class SemiImplicitEndPoint(_DaeEndPoint):
    name = 'SemiImplicitDAE.compute_end_point'
    target = (DAE + 'semiImplicitDAE.py', 'SemiImplicitDAE.compute_end_point')
    cls = ('semiImplicitDAE.py', 'SemiImplicitDAE', 'dae-semi')
    expected_exceptions = (NotImplementedError,)



CONTRACTS = [FullyImplicitEndPoint, SemiImplicitEndPoint, FullyImplicitUpdate, FullyImplicitF, SemiImplicitF, SemiImplicitIntegrate, SemiImplicitUpdate, RKDAEUpdate]
