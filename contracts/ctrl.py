"""
Controller harness: a REAL controller_nonMPI over real Steps/Levels/sweepers on the ghost problem, plus the callee
stubs (executable contracts) used when a stage function is verified modularly:

  sweeper stubs   compute_residual / compute_end_point / update_nodes / predict / updateVariableCoeffs
                  -> record the call in the ghost trace, assert the callee precondition, havoc exactly the callee's frame
  send/recv stubs contracts of controller.send_full / recv_full (proved separately on the real functions)
  ArbitraryCC     a convergence controller whose convergence_control sets done / restart / force flags to ARBITRARY
                  (fresh symbolic) values: this is the "every convergence pattern" quantifier of C07
  RecHook         subclass of the real Hooks; records every callback in the ghost trace
"""

import numpy as np

from vc import sym
from vc.vec import Vec
from contracts.common import cls_of, lower, strictly_lower0

HOOK_NAMES = ['pre_setup', 'pre_run', 'pre_predict', 'pre_step', 'pre_iteration', 'pre_sweep', 'pre_comm', 'post_comm',
              'post_sweep', 'post_iteration', 'post_step', 'post_predict', 'post_run', 'post_setup']


def make_rec_hook(trace):
    from pySDC.core.hooks import Hooks

    class RecHook(Hooks):
        pass

    def mk(name):
        def f(self, step, level_number, **kw):
            getattr(Hooks, name)(self, step, level_number, **kw)
            trace.append(('hook', name, None if step is None else step.status.slot, level_number))

        return f

    for n in HOOK_NAMES:
        setattr(RecHook, n, mk(n))
    return RecHook


class LinearSpaceTransfer:
    """ghost space transfer: restrict / prolong are LINEAR uninterpreted maps on Vec (their linearity is C11's
    contract); natively: fixed random matrices"""

    def __init__(self, fine_prob, coarse_prob, params):
        self.fine_prob, self.coarse_prob = fine_prob, coarse_prob
        self.params = params

    def restrict(self, F):
        if isinstance(F, Vec):
            return Vec({f'R[{a}]': c for a, c in F.c.items()}, kind=F.kind)
        if hasattr(F, 'components') and hasattr(F, 'total'):
            r = type(F)()
            for c in F.components:
                setattr(r, c, self.restrict(getattr(F, c)))
            return r
        out = type(F)(F)
        out[...] = 0.5 * np.asarray(F) + 0.25 * np.roll(np.asarray(F), 1, axis=-1)
        return out

    def prolong(self, G):
        if isinstance(G, Vec):
            return Vec({f'P[{a}]': c for a, c in G.c.items()}, kind=G.kind)
        if hasattr(G, 'components') and hasattr(G, 'total'):
            r = type(G)()
            for c in G.components:
                setattr(r, c, self.prolong(getattr(G, c)))
            return r
        out = type(G)(G)
        out[...] = 0.75 * np.asarray(G) - 0.2 * np.roll(np.asarray(G), 2, axis=-1)
        return out


class Fresh:
    """deterministic fresh values through the maker (symbolic or native)"""

    def __init__(self, mk):
        self.mk = mk
        self.n = 0

    def name(self, base):
        self.n += 1
        return f'{base}#{self.n}'

    def real(self, base):
        return self.mk.real(self.name(base))

    def bool(self, base):
        return self.mk.bool(self.name(base))

    def vec(self, base, kind='u'):
        return self.mk.vec(self.name(base), kind)


def oblige(name, cond):
    p = sym.current_path()
    if p is not None:
        p.oblige(name, cond)
    elif not bool(cond):
        raise AssertionError(f'callee precondition violated: {name}')


def stub_sweeper(L, slot, l, trace, fresh, kind='full'):
    """replace the sweeper methods of one level by their contracts (trace + frame havoc)"""
    from contracts.common import new_f

    sw = L.sweep
    M = sw.coll.num_nodes

    def compute_residual(stage=''):
        trace.append(('compute_residual', slot, l, stage))
        oblige(f'pre[compute_residual]:u0_present[{slot},{l}]', L.u[0] is not None)
        L.status.residual = fresh.real(f'res[{slot},{l}]')
        L.status.updated = False

    def compute_end_point():
        trace.append(('compute_end_point', slot, l))
        oblige(f'pre[compute_end_point]:nodes_present[{slot},{l}]', L.u[-1] is not None)
        L.uend = fresh.vec(f'uend[{slot},{l}]')

    def update_nodes():
        trace.append(('update_nodes', slot, l))
        oblige(f'pre[update_nodes]:unlocked[{slot},{l}]', L.status.unlocked is True)
        for m in range(1, M + 1):
            L.u[m] = fresh.vec(f'u[{slot},{l},{m}]')
            L.f[m] = new_f(fresh.mk, kind, fresh.name(f'f[{slot},{l},{m}]'))
        L.status.updated = True

    def predict():
        trace.append(('predict', slot, l))
        oblige(f'pre[predict]:u0_present[{slot},{l}]', L.u[0] is not None)
        L.f[0] = new_f(fresh.mk, kind, fresh.name(f'f[{slot},{l},0]'))
        for m in range(1, M + 1):
            L.u[m] = fresh.vec(f'u[{slot},{l},{m}]')
            L.f[m] = new_f(fresh.mk, kind, fresh.name(f'f[{slot},{l},{m}]'))
        L.status.unlocked = True
        L.status.updated = True

    def updateVariableCoeffs(k):
        trace.append(('updateVariableCoeffs', slot, l, k))

    sw.compute_residual = compute_residual
    sw.compute_end_point = compute_end_point
    sw.update_nodes = update_nodes
    sw.predict = predict
    sw.updateVariableCoeffs = updateVariableCoeffs


class ArbitraryCC:
    """convergence controller stub: any of the flags may come out with any value (symbolic booleans)"""

    def __init__(self, trace, fresh, flags=('done',), keep_force_continue=False):
        self.trace, self.fresh, self.flags = trace, fresh, flags
        self.conv = {}

        class P:
            control_order = 0
            useMPI = False

        self.params = P()

    def _t(self, name, S=None, **kw):
        self.trace.append(('cc', name, None if S is None else S.status.slot))

    def convergence_control(self, controller, S, **kw):
        self._t('convergence_control', S)
        for f in self.flags:
            v = self.fresh.bool(f'{f}[{S.status.slot}]')
            setattr(S.status, f, v)
            self.conv[(f, S.status.slot)] = v
        S.status.force_continue = False

    def post_iteration_processing(self, controller, S, **kw):
        self._t('post_iteration_processing', S)

    def pre_iteration_processing(self, controller, S, **kw):
        self._t('pre_iteration_processing', S)

    def post_spread_processing(self, controller, S, **kw):
        self._t('post_spread_processing', S)

    def post_step_processing(self, controller, S, **kw):
        self._t('post_step_processing', S)

    def post_run_processing(self, controller, S, **kw):
        self._t('post_run_processing', S)

    def prepare_next_block(self, controller, S, size, time, Tend, **kw):
        self._t('prepare_next_block', S)

    def reset_buffers_nonMPI(self, controller, **kw):
        self._t('reset_buffers_nonMPI')

    def reset_status_variables(self, controller, **kw):
        self._t('reset_status_variables')

    def setup_status_variables(self, controller, **kw):
        pass


def make_controller(mk, n, nlevels=1, cparams=None, M=1, kind='full', level_params=None, step_params=None,
                    sweeper=('pySDC/implementations/sweeper_classes/generic_implicit.py', 'generic_implicit'),
                    Ms=None, conv_controllers=None, sweeper_params=None, finter=False):
    """REAL controller_nonMPI with n real steps. Returns (controller, trace)."""
    from pySDC.implementations.controller_classes.controller_nonMPI import controller_nonMPI
    from vc.ghost.problem import AbstractProblem

    if mk.mode == 'sym':
        problem_class = AbstractProblem
    else:
        from vc.native import ConcreteLinearProblem as problem_class
    trace = []
    Ms = Ms or [M] * nlevels
    # equal node counts are passed as ONE scalar (some convergence controllers cannot digest per-level lists)
    sp = dict(num_nodes=list(Ms) if (nlevels > 1 and len(set(Ms)) > 1) else Ms[0], quad_type='RADAU-RIGHT')
    sp.update(sweeper_params or {})
    lp = dict(dt=1.0, restol=1e-10)
    lp.update(level_params or {})
    d = dict(problem_class=problem_class,
             problem_params=dict(kind=kind, name=[f'P{l}' for l in range(nlevels)] if nlevels > 1 else 'P0'),
             sweeper_class=cls_of(*sweeper), sweeper_params=sp, level_params=lp,
             step_params=dict(dict(maxiter=5), **(step_params or {})))
    if nlevels > 1:
        d['space_transfer_class'] = LinearSpaceTransfer
        d['base_transfer_params'] = dict(finter=finter)
    if conv_controllers:
        d['convergence_controllers'] = conv_controllers
    cp = dict(logger_level=40, hook_class=[make_rec_hook(trace)], dump_setup=False)
    cp.update(cparams or {})
    c = controller_nonMPI(num_procs=n, controller_params=cp, description=d)
    # keep only the recording hook (DefaultHooks / CPUTimings have their own contracts under C14)
    rec = [h for h in c.hooks if type(h).__name__ == 'RecHook']
    c._Controller__hooks = rec
    return c, trace


def install_arbitrary_cc(c, trace, fresh, flags=('done',)):
    cc = ArbitraryCC(trace, fresh, flags)
    c.convergence_controllers = [cc]
    c.convergence_controller_order = [0]
    return cc


def stub_comm(c, trace, fresh, kind='full'):
    """contracts of send_full / recv_full as stubs on the controller instance (the real ones are proved separately)"""
    from contracts.common import new_f

    def send_full(S, level=None, add_to_stats=False):
        trace.append(('send_full', S.status.slot, level))
        for h in c.hooks:
            h.pre_comm(step=S, level_number=level)
        if not S.status.last:
            L = S.levels[level]
            L.sweep.compute_end_point()
            L.tag = (level, S.status.iter, S.status.slot)
        for h in c.hooks:
            h.post_comm(step=S, level_number=level, add_to_stats=add_to_stats)

    def recv_full(S, level=None, add_to_stats=False):
        trace.append(('recv_full', S.status.slot, level))
        for h in c.hooks:
            h.pre_comm(step=S, level_number=level)
        if sym.Not(S.status.prev_done) and not S.status.first:
            src = S.prev.levels[level]
            tgt = S.levels[level]
            want = (level, S.status.iter, S.prev.status.slot)
            ok = src.tag is not None and len(src.tag) == 3 and src.tag[0] == want[0] and src.tag[2] == want[2]
            oblige(f'pre[recv_full]:tag_matches[{S.status.slot},{level}]', sym.And(ok, sym.eq(src.tag[1], want[1]) if ok else False))
            oblige(f'pre[recv_full]:source_has_uend[{S.status.slot},{level}]', src.uend is not None)
            trace.append(('recv', S.status.slot, level, src.uend))
            tgt.u[0] = type(src.uend)(src.uend) if src.uend is not None else None
            tgt.f[0] = new_f(fresh.mk, kind, fresh.name(f'f[{S.status.slot},{level},0]'))
        for h in c.hooks:
            h.post_comm(step=S, level_number=level, add_to_stats=add_to_stats)

    c.send_full = send_full
    c.recv_full = recv_full
