"""
C02 -- one sweep equals one preconditioned Picard iteration of the sweeper's matrices.

Contracts on integrate / update_nodes / compute_end_point of the node-based sweepers. All of dt, time, Q, QI, QE,
weights, nodes and every node value are symbolic; F is uninterpreted (AbstractProblem), so each instance (= node count
M, tau present/absent, end-point mode) is a proof for every preconditioner, node set, step size, right-hand side
(linear or not) and arbitrary node values at once.
"""

from vc import sym
from vc.sym import And, Or, Not, Implies
from vc.vec import Vec
from vc.contract import Contract, State, veq, seq, vsum, snapshot, frame_clauses
from contracts.common import make_level, cls_of, lower, strictly_lower0, cp, ftot, plant_earlier_end_value, earlier_end_value_clause

SW = 'pySDC/implementations/sweeper_classes/'


def fI(f):
    return f.impl if hasattr(type(f), 'components') and 'impl' in type(f).components else f


def fE(f):
    return f.expl


class _SweepBase(Contract):
    prop = 'C02'
    label = 'instance-proved'
    sweeper = None  # (file, class)
    kind = 'full'
    has_QI = True
    has_QE = False
    always_solve = False
    stubs = ('Problem.eval_f [C12 contract: uninterpreted map of (u,t), arguments unchanged]',
             'Problem.solve_system [C12 contract: result s with s - a*f_impl(s,t) = rhs, arguments unchanged]')

    def Ms(self, tier):
        return (1, 2, 3) if tier == 'quick' else (1, 2, 3, 4, 5)

    def mk_level(self, inst, mk):
        cls = cls_of(SW + self.sweeper[0], self.sweeper[1])
        L = make_level(cls, inst['M'], mk, kind=self.kind, tau=inst.get('tau', False),
                       quad=inst.get('quad', 'RADAU-RIGHT'), do_coll_update=inst.get('coll_update'))
        sw = L.sweep
        M = inst['M']
        if self.has_QI:
            sw.QI = mk.matrix('L.QI', M + 1, M + 1, lower)
        if self.has_QE:
            sw.QE = mk.matrix('L.QE', M + 1, M + 1, strictly_lower0)
        if inst.get('earlier_use'):
            # history: the SAME sweeper object has swept before, on other data, with another step size and time (it is pointed at a second
            # level for that sweep and back again); nothing scaled with that earlier step size or taken from those data may survive in it
            H = make_level(cls, inst['M'], mk, kind=self.kind, tau=inst.get('tau', False), quad=inst.get('quad', 'RADAU-RIGHT'),
                           do_coll_update=inst.get('coll_update'), name='H')
            sw.level = H
            # ... and with OTHER preconditioner matrices (sweep-index dependent preconditioners are replaced between sweeps)
            keep = {a: getattr(sw, a) for a in ('QI', 'QE') if hasattr(sw, a)}
            if self.has_QI:
                sw.QI = mk.matrix('H.QI', M + 1, M + 1, lower)
            if self.has_QE:
                sw.QE = mk.matrix('H.QE', M + 1, M + 1, strictly_lower0)
            try:
                sw.update_nodes()
                try:
                    sw.compute_end_point()
                except NotImplementedError:
                    pass  # the mass-matrix sweeper refuses the quadrature end point by design (its own contract)
            finally:
                sw.level = L
                for a, v in keep.items():
                    setattr(sw, a, v)
        return L

    history_instances = True

    def all_instances(self, tier):
        out = list(self.instances(tier))
        if self.history_instances and type(self).mk_level is _SweepBase.mk_level:
            out += [dict(i, earlier_use=True) for i in out if i.get('M', 9) <= 2 and 'earlier_use' not in i]
        return out

    def snapshot(self, st):
        st.old_u = [cp(u) for u in st.L.u]
        st.old_f = [cp(f) for f in st.L.f]
        st.old_tau = [cp(t) for t in st.L.tau]
        return snapshot({'L': st.L})


# ---------------------------------------------------------------------------------------------------------- integrate
class Integrate(_SweepBase):
    def instances(self, tier):
        return [dict(M=M) for M in self.Ms(tier)]

    def build(self, inst, mk):
        L = self.mk_level(inst, mk)
        return State(L=L, M=inst['M'], call=L.sweep.integrate)

    def post(self, st, old, result, exc):
        L, M = st.L, st.M
        Q, dt = L.sweep.coll.Qmat, L.params.dt
        yield 'returns_M_values', exc is None and len(result) == M
        if exc is not None:
            return
        for m in range(M):
            yield f'row{m + 1}:dtQF', veq(result[m], vsum(dt * Q[m + 1, j] * ftot(st.old_f[j]) for j in range(1, M + 1)))
        for i in range(M):
            for j in range(i + 1, M):
                yield f'distinct_objects[{i},{j}]', result[i] is not result[j]
        yield from frame_clauses(old, snapshot({'L': L}), frame=())

    def canary(self, st, old, result, exc):
        L, M = st.L, st.M
        Q, dt = L.sweep.coll.Qmat, L.params.dt
        # wrong on purpose: transposed Q
        yield 'canary:transposed_Q', veq(result[M - 1], vsum(dt * Q[j, M] * ftot(st.old_f[j]) for j in range(1, M + 1))) if M > 1 else veq(result[0], 0)


# ------------------------------------------------------------------------------------------------------- update_nodes
class UpdateNodes(_SweepBase):
    def instances(self, tier):
        out = [dict(M=M, tau=t) for M in self.Ms(tier) for t in (False, True)]
        # node sets that contain the left end point (code may special-case coll.left_is_node) and ones without the right one
        out += [dict(M=M, tau=False, quad=q) for M in (2, 3) for q in ('LOBATTO', 'RADAU-LEFT', 'GAUSS')]
        return out

    def build(self, inst, mk):
        L = self.mk_level(inst, mk)
        return State(L=L, M=inst['M'], call=L.sweep.update_nodes)

    def rhs_expected(self, st, m, wrong=None):
        L, M, sw = st.L, st.M, st.L.sweep
        Q, dt = sw.coll.Qmat, L.params.dt
        r = cp(st.old_u[0])
        for j in range(1, M + 1):
            r += dt * Q[m + 1, j] * ftot(st.old_f[j])
            if self.has_QI:
                r -= dt * sw.QI[m + 1, j] * fI(st.old_f[j])
            if self.has_QE:
                r -= dt * sw.QE[m + 1, j] * (fE(st.old_f[j]) if self.kind == 'imex' else st.old_f[j])
        upto = m + 1 if wrong != 'range' else m
        for j in range(1, upto):
            if self.has_QI:
                r += dt * sw.QI[m + 1, j] * fI(L.f[j])
            if self.has_QE:
                r += dt * sw.QE[m + 1, j] * (fE(L.f[j]) if self.kind == 'imex' else L.f[j])
        if st.old_tau[m] is not None and wrong != 'tau':
            r += st.old_tau[m]
        return r

    def post(self, st, old, result, exc):
        L, M, sw, P = st.L, st.M, st.L.sweep, st.L.prob
        dt = L.params.dt
        yield 'returns_normally', exc is None
        if exc is not None:
            return
        for m in range(M):
            tm = L.status.time + dt * sw.coll.nodes[m]
            rhs = self.rhs_expected(st, m)
            rec = P.find_solve(L.u[m + 1])
            if not self.has_QI:
                yield f'node{m + 1}:explicit_value', veq(L.u[m + 1], rhs)
                yield f'node{m + 1}:no_solve', rec is None
            else:
                alpha = dt * sw.QI[m + 1, m + 1]
                if rec is not None:
                    # u' is the result of solve_system(rhs, alpha, guess, t):  u' - alpha*F_impl(u', t) = rhs
                    yield f'node{m + 1}:solve_rhs', veq(rec.rhs, rhs)
                    yield f'node{m + 1}:solve_factor', seq(rec.factor, alpha)
                    yield f'node{m + 1}:solve_time', seq(rec.t, tm)
                    yield f'node{m + 1}:solve_guess', veq(rec.u0, st.old_u[m + 1])
                else:
                    # no solve: only legal when the diagonal factor vanishes, then u' = rhs
                    yield f'node{m + 1}:direct_value', veq(L.u[m + 1], rhs)
                    yield f'node{m + 1}:direct_only_if_alpha_zero', And(seq(alpha, 0), not self.always_solve)
            er = P.find_eval(L.f[m + 1])
            yield f'f{m + 1}:is_eval_f', er is not None
            if er is not None:
                yield f'f{m + 1}:at_new_u', veq(er.u, L.u[m + 1])
                yield f'f{m + 1}:at_node_time', seq(er.t, tm)
        yield 'status.updated', L.status.updated is True
        yield 'solves_count', len(P.solves) <= M
        yield from frame_clauses(old, snapshot({'L': L}),
                                 frame=[f'L.u[{m}]' for m in range(1, M + 1)] + [f'L.f[{m}]' for m in range(1, M + 1)]
                                 + ['L.status.updated', 'L.prob'])

    def canary(self, st, old, result, exc):
        # deliberately wrong variants of the node clause: must be refuted
        L, M, P = st.L, st.M, st.L.prob
        m = M - 1
        for wrong in (['tau'] if st.old_tau[m] is not None else []) + (['range'] if M > 1 else []):
            rhs = self.rhs_expected(st, m, wrong=wrong)
            rec = P.find_solve(L.u[m + 1])
            yield f'canary:{wrong}', veq(rec.rhs if rec is not None else L.u[m + 1], rhs)
        if M == 1 and st.old_tau[0] is None:
            yield 'canary:u0_dropped', veq((P.find_solve(L.u[1]).rhs if P.find_solve(L.u[1]) else L.u[1]), self.rhs_expected(st, 0) - st.old_u[0])


# --------------------------------------------------------------------------------------------------- compute_end_point
class EndPoint(_SweepBase):
    def instances(self, tier):
        out = []
        for M in self.Ms(tier):
            for tau in (False, True):
                out.append(dict(M=M, tau=tau, quad='RADAU-RIGHT', coll_update=False))  # copy mode
                out.append(dict(M=M, tau=tau, quad='RADAU-RIGHT', coll_update=True))  # quadrature although node
                out.append(dict(M=M, tau=tau, quad='GAUSS', coll_update=False))  # right end no node -> forced quadrature
        return out

    def build(self, inst, mk):
        L = self.mk_level(inst, mk)
        L.uend = mk.vec('L.uend_old')
        # history: the end value of an earlier call is still there and somebody (a logging hook, the caller) holds on to that object
        return State(L=L, M=inst['M'], call=L.sweep.compute_end_point, inst=inst, uend_before=L.uend, uend_before_copy=cp(L.uend))

    def post(self, st, old, result, exc):
        L, M, sw = st.L, st.M, st.L.sweep
        yield 'returns_normally', exc is None
        if exc is not None:
            return
        copy_mode = st.inst['quad'] == 'RADAU-RIGHT' and not st.inst['coll_update']
        yield 'mode_matches_configuration', (sw.coll.right_is_node and not sw.params.do_coll_update) == copy_mode
        if copy_mode:
            yield 'uend:last_node', veq(L.uend, st.old_u[M])
        else:
            exp = cp(st.old_u[0]) + vsum(L.params.dt * sw.coll.weights[m] * ftot(st.old_f[m + 1]) for m in range(M))
            if st.old_tau[M - 1] is not None:
                exp += st.old_tau[M - 1]
            yield 'uend:quadrature', veq(L.uend, exp)
        yield 'uend:new_object', all(L.uend is not u for u in L.u) and all(L.uend is not t for t in L.tau)
        yield 'uend:earlier_end_value_object_neither_reused_nor_modified', L.uend is not st.uend_before and bool(veq(st.uend_before, st.uend_before_copy)) is True
        yield from frame_clauses(old, snapshot({'L': L}), frame=['L.uend'])

    def canary(self, st, old, result, exc):
        L, M, sw = st.L, st.M, st.L.sweep
        copy_mode = st.inst['quad'] == 'RADAU-RIGHT' and not st.inst['coll_update']
        if copy_mode:
            yield 'canary:uend_is_u0', veq(L.uend, st.old_u[0])
        else:
            exp = cp(st.old_u[0]) + vsum(L.params.dt * sw.coll.weights[m] * ftot(st.old_f[m + 1]) for m in range(M))
            yield 'canary:weights_without_dt', veq(L.uend, cp(st.old_u[0]) + vsum(sw.coll.weights[m] * ftot(st.old_f[m + 1]) for m in range(M)) + (st.old_tau[M - 1] if st.old_tau[M - 1] is not None else 0))


def _mk(base, nm, sweeper, **attrs):
    d = dict(sweeper=sweeper, name=f'{sweeper[1]}.{nm}', target=(SW + sweeper[0], f'{sweeper[1]}.{nm}'))
    d.update(attrs)
    return type(f'{sweeper[1]}_{nm}', (base,), d)


GI = ('generic_implicit.py', 'generic_implicit')
EX = ('explicit.py', 'explicit')
IMEX = ('imex_1st_order.py', 'imex_1st_order')

CONTRACTS = []
for swp, attrs in ((GI, dict(kind='full', has_QI=True, has_QE=False)),
                   (EX, dict(kind='full', has_QI=False, has_QE=True)),
                   (IMEX, dict(kind='imex', has_QI=True, has_QE=True, always_solve=True))):
    CONTRACTS.append(_mk(Integrate, 'integrate', swp, **attrs))
    CONTRACTS.append(_mk(UpdateNodes, 'update_nodes', swp, **attrs))
    CONTRACTS.append(_mk(EndPoint, 'compute_end_point', swp, **attrs))


# ------------------------------------------------------------------------------------------ IMEX with mass matrix
MASS = ('imex_1st_order_mass.py', 'imex_1st_order_mass')


class MassUpdateNodes(UpdateNodes):
    """(M - dt*QI x A_I) U_new = M u0 + dt(Q-QD) F(U_old) + tau on the finest level; on coarser levels u0 enters as it is
    (the restricted M u0 is supplied through tau / the transfer class)."""

    sweeper = MASS
    name = 'imex_1st_order_mass.update_nodes'
    target = (SW + MASS[0], 'imex_1st_order_mass.update_nodes')
    kind = 'imex'
    has_QI = True
    has_QE = True
    always_solve = True
    stubs = _SweepBase.stubs + ('Problem.apply_mass_matrix [linear map, argument unchanged]',)

    def instances(self, tier):
        return [dict(M=M, tau=t, level_index=li) for M in self.Ms(tier) for t in (False, True) for li in (0, 1)]

    def build(self, inst, mk):
        st = super().build(inst, mk)
        st.L.level_index = inst['level_index']
        return st

    def rhs_expected(self, st, m, wrong=None):
        r = super().rhs_expected(st, m, wrong)
        if st.L.level_index == 0:
            r = r - st.old_u[0] + st.L.prob.apply_mass_matrix(st.old_u[0])
        return r


class MassEndPoint(EndPoint):
    sweeper = MASS
    name = 'imex_1st_order_mass.compute_end_point'
    target = (SW + MASS[0], 'imex_1st_order_mass.compute_end_point')
    kind = 'imex'
    has_QI = True
    has_QE = True
    expected_exceptions = (NotImplementedError,)

    def post(self, st, old, result, exc):
        copy_mode = st.inst['quad'] == 'RADAU-RIGHT' and not st.inst['coll_update']
        if copy_mode:
            yield from super().post(st, old, result, exc)
        else:
            # the mass sweeper refuses a quadrature end point instead of silently returning something else
            yield 'quadrature_mode_rejected', isinstance(exc, NotImplementedError)
            yield from frame_clauses(old, snapshot({'L': st.L}), frame=[])

    def canary(self, st, old, result, exc):
        copy_mode = st.inst['quad'] == 'RADAU-RIGHT' and not st.inst['coll_update']
        if copy_mode:
            yield from super().canary(st, old, result, exc)
        else:
            yield 'canary:returns_normally', exc is None


CONTRACTS += [MassUpdateNodes, MassEndPoint]


# ------------------------------------------------------------------------------------------ multi-implicit
MI = ('multi_implicit.py', 'multi_implicit')


class MultiImplicitBase(_SweepBase):
    sweeper = MI
    kind = 'comp2'
    has_QI = False
    has_QE = False

    def mk_level(self, inst, mk):
        L = super().mk_level(inst, mk)
        M = inst['M']
        L.sweep.Q1 = mk.matrix('L.Q1', M + 1, M + 1, lower)
        L.sweep.Q2 = mk.matrix('L.Q2', M + 1, M + 1, lower)
        return L


class MIIntegrate(MultiImplicitBase, Integrate):
    name = 'multi_implicit.integrate'
    target = (SW + MI[0], 'multi_implicit.integrate')


class MIEndPoint(MultiImplicitBase, EndPoint):
    name = 'multi_implicit.compute_end_point'
    target = (SW + MI[0], 'multi_implicit.compute_end_point')


class MIUpdateNodes(MultiImplicitBase):
    """two successive implicit solves per node:
         (1)  u* - dt*Q1[m,m] F1(u*) = u0 + dt sum_j (Q - Q1)[m,j] F1_old_j + dt sum_j Q[m,j] F2_old_j + dt sum_{j<m} Q1[m,j] F1_new_j + tau_m
         (2)  u' - dt*Q2[m,m] F2(u') = u* - dt sum_j Q2[m,j] F2_old_j + dt sum_{j<m} Q2[m,j] F2_new_j"""

    name = 'multi_implicit.update_nodes'
    target = (SW + MI[0], 'multi_implicit.update_nodes')

    def instances(self, tier):
        return [dict(M=M, tau=t) for M in self.Ms(tier) for t in (False, True)]

    def build(self, inst, mk):
        L = self.mk_level(inst, mk)
        return State(L=L, M=inst['M'], call=L.sweep.update_nodes)

    def post(self, st, old, result, exc):
        L, M, sw, P = st.L, st.M, st.L.sweep, st.L.prob
        dt, Q = L.params.dt, sw.coll.Qmat
        yield 'returns_normally', exc is None
        if exc is not None:
            return
        yield 'two_solves_per_node', len(P.solves) == 2 * M
        if len(P.solves) != 2 * M:
            return
        for m in range(M):
            tm = L.status.time + dt * sw.coll.nodes[m]
            s1, s2 = P.solves[2 * m], P.solves[2 * m + 1]
            r1 = cp(st.old_u[0])
            for j in range(1, M + 1):
                r1 += dt * Q[m + 1, j] * ftot(st.old_f[j]) - dt * sw.Q1[m + 1, j] * st.old_f[j].comp1
            for j in range(1, m + 1):
                r1 += dt * sw.Q1[m + 1, j] * L.f[j].comp1
            if st.old_tau[m] is not None:
                r1 += st.old_tau[m]
            yield f'node{m + 1}:solve1_is_component1', getattr(s1, 'which', None) == 1
            yield f'node{m + 1}:solve1_rhs', veq(s1.rhs, r1)
            yield f'node{m + 1}:solve1_factor', seq(s1.factor, dt * sw.Q1[m + 1, m + 1])
            yield f'node{m + 1}:solve1_time', seq(s1.t, tm)
            r2 = cp(s1.s)
            for j in range(1, M + 1):
                r2 -= dt * sw.Q2[m + 1, j] * st.old_f[j].comp2
            for j in range(1, m + 1):
                r2 += dt * sw.Q2[m + 1, j] * L.f[j].comp2
            yield f'node{m + 1}:solve2_is_component2', getattr(s2, 'which', None) == 2
            yield f'node{m + 1}:solve2_rhs', veq(s2.rhs, r2)
            yield f'node{m + 1}:solve2_factor', seq(s2.factor, dt * sw.Q2[m + 1, m + 1])
            yield f'node{m + 1}:solve2_time', seq(s2.t, tm)
            yield f'node{m + 1}:value_is_solve2', veq(L.u[m + 1], s2.s)
            er = P.find_eval(L.f[m + 1])
            yield f'f{m + 1}:is_eval_f', er is not None
            if er is not None:
                yield f'f{m + 1}:at_new_u', veq(er.u, L.u[m + 1])
                yield f'f{m + 1}:at_node_time', seq(er.t, tm)
        yield 'status.updated', L.status.updated is True
        yield from frame_clauses(old, snapshot({'L': L}),
                                 frame=[f'L.u[{m}]' for m in range(1, M + 1)] + [f'L.f[{m}]' for m in range(1, M + 1)]
                                 + ['L.status.updated', 'L.prob'])

    def canary(self, st, old, result, exc):
        P, M = st.L.prob, st.M
        if len(P.solves) == 2 * M:
            yield 'canary:solve2_rhs_is_solve1_rhs', veq(P.solves[1].rhs, P.solves[0].rhs)


CONTRACTS += [MIIntegrate, MIUpdateNodes, MIEndPoint]


# ------------------------------------------------------------------------------------------ Verlet (second order)
VL = ('verlet.py', 'verlet')


class _VerletBase(_SweepBase):
    sweeper = VL
    kind = 'particles'
    has_QI = False
    has_QE = False
    native = False  # no native twin of the ghost particle problem: counterexamples are reported without native replay
    stubs = ('Problem.eval_f [second-order problem contract: uninterpreted acceleration of (pos, vel, t)]',)

    def mk_level(self, inst, mk):
        from vc.ghost.problem import ParticleProblem, VecP

        cls = cls_of(SW + self.sweeper[0], self.sweeper[1])
        M = inst['M']
        L = make_level(cls, M, mk, kind='particles', fill=False, quad=inst.get('quad', 'RADAU-RIGHT'),
                       do_coll_update=inst.get('coll_update'), problem_class=ParticleProblem)
        sw = L.sweep
        # pySDC layout: column 0 belongs to the step start; for node sets without the left end point it is NOT zero (QT = (QI+QE)/2 carries
        # the explicit matrix' first column), and the sweep must ignore it consistently
        sw.QT = mk.matrix('L.QT', M + 1, M + 1, lambda i, j: i >= 1 and j <= i)
        sw.Qx = mk.matrix('L.Qx', M + 1, M + 1, lambda i, j: i >= 1 and j < i)
        sw.QQ = mk.matrix('L.QQ', M + 1, M + 1, lambda i, j: i >= 1 and j >= 1)
        sw.qQ = mk.vector('L.qQ', M)
        for m in range(M + 1):
            u = VecP()
            u.pos, u.vel = mk.vec(f'L.x{m}'), mk.vec(f'L.v{m}')
            u.m, u.q = 'mass', 'charge'
            L.u[m] = u
            L.f[m] = mk.vec(f'L.a{m}', 'f')
        if inst.get('tau'):
            for m in range(M):
                t = VecP()
                t.pos, t.vel = mk.vec(f'L.taux{m}'), mk.vec(f'L.tauv{m}')
                L.tau[m] = t
        L.status.unlocked = True
        return L

    def snapshot(self, st):
        from vc.ghost.problem import VecP

        st.old_u = [VecP(u) for u in st.L.u]
        st.old_f = [cp(f) for f in st.L.f]
        st.old_tau = [None if t is None else VecP(t) for t in st.L.tau]
        return snapshot({'L': st.L})


def verlet_integral(st, m):
    """(pos, vel) of dt*Q*F in the second-order form, row m (0-based)"""
    L, M, sw = st.L, st.M, st.L.sweep
    dt, Q = L.params.dt, sw.coll.Qmat
    pos = vsum(dt * (dt * sw.QQ[m + 1, j] * st.old_f[j]) + dt * Q[m + 1, j] * st.old_u[0].vel for j in range(1, M + 1))
    vel = vsum(dt * Q[m + 1, j] * st.old_f[j] for j in range(1, M + 1))
    return pos, vel


class VerletIntegrate(_VerletBase):
    name = 'verlet.integrate'
    target = (SW + VL[0], 'verlet.integrate')

    def instances(self, tier):
        return [dict(M=M) for M in self.Ms(tier)]

    def build(self, inst, mk):
        L = self.mk_level(inst, mk)
        return State(L=L, M=inst['M'], call=L.sweep.integrate)

    def post(self, st, old, result, exc):
        yield 'returns_M_values', exc is None and len(result) == st.M
        if exc is not None:
            return
        for m in range(st.M):
            pos, vel = verlet_integral(st, m)
            yield f'row{m + 1}:position', veq(result[m].pos, pos)
            yield f'row{m + 1}:velocity', veq(result[m].vel, vel)
        yield from frame_clauses(old, snapshot({'L': st.L}), frame=())

    def canary(self, st, old, result, exc):
        yield 'canary:pos_without_initial_velocity', veq(result[0].pos, vsum(st.L.params.dt * (st.L.params.dt * st.L.sweep.QQ[1, j] * st.old_f[j]) for j in range(1, st.M + 1)))


class VerletUpdateNodes(_VerletBase):
    name = 'verlet.update_nodes'
    target = (SW + VL[0], 'verlet.update_nodes')

    def instances(self, tier):
        return [dict(M=M, tau=t) for M in self.Ms(tier) for t in (False, True)]

    def build(self, inst, mk):
        L = self.mk_level(inst, mk)
        return State(L=L, M=inst['M'], call=L.sweep.update_nodes)

    def post(self, st, old, result, exc):
        L, M, sw, P = st.L, st.M, st.L.sweep, st.L.prob
        dt = L.params.dt
        yield 'returns_normally', exc is None
        if exc is not None:
            return
        for m in range(M):
            ipos, ivel = verlet_integral(st, m)
            pos = ipos + st.old_u[0].pos - vsum(dt * (dt * sw.Qx[m + 1, j] * st.old_f[j]) for j in range(1, M + 1))
            vel = ivel + st.old_u[0].vel - vsum(dt * sw.QT[m + 1, j] * st.old_f[j] for j in range(1, M + 1))
            if st.old_tau[m] is not None:
                pos, vel = pos + st.old_tau[m].pos, vel + st.old_tau[m].vel
            pos = pos + vsum(dt * (dt * sw.Qx[m + 1, j] * L.f[j]) for j in range(1, m + 1))
            vel_partial = vel + vsum(dt * sw.QT[m + 1, j] * L.f[j] for j in range(1, m + 1))
            yield f'node{m + 1}:position', veq(L.u[m + 1].pos, pos)
            yield f'node{m + 1}:velocity', veq(L.u[m + 1].vel, vel_partial + dt * sw.QT[m + 1, m + 1] * L.f[m + 1])
            er = P.find_eval(L.f[m + 1])
            yield f'f{m + 1}:is_eval_f', er is not None
            if er is not None:
                yield f'f{m + 1}:force_at_new_position', veq(er.u.pos, L.u[m + 1].pos)
                yield f'f{m + 1}:at_node_time', seq(er.t, L.status.time + dt * sw.coll.nodes[m])
        yield 'status.updated', L.status.updated is True
        yield from frame_clauses(old, snapshot({'L': L}),
                                 frame=[f'L.u[{m}]' for m in range(1, M + 1)] + [f'L.f[{m}]' for m in range(1, M + 1)] + ['L.status.updated', 'L.prob'])

    def canary(self, st, old, result, exc):
        L, sw = st.L, st.L.sweep
        yield 'canary:velocity_without_implicit_term', veq(L.u[1].vel, L.u[1].vel - L.params.dt * sw.QT[1, 1] * L.f[1])


class VerletEndPoint(_VerletBase):
    name = 'verlet.compute_end_point'
    target = (SW + VL[0], 'verlet.compute_end_point')

    def instances(self, tier):
        return EndPoint.instances(self, tier)

    def build(self, inst, mk):
        L = self.mk_level(inst, mk)
        return plant_earlier_end_value(State(L=L, M=inst['M'], call=L.sweep.compute_end_point, inst=inst), L, cp(L.u[inst['M']]))

    def post(self, st, old, result, exc):
        L, M, sw = st.L, st.M, st.L.sweep
        dt = L.params.dt
        yield 'returns_normally', exc is None
        if exc is not None:
            return
        copy_mode = st.inst['quad'] == 'RADAU-RIGHT' and not st.inst['coll_update']
        if copy_mode:
            yield 'uend:last_node', And(veq(L.uend.pos, st.old_u[M].pos), veq(L.uend.vel, st.old_u[M].vel))
        else:
            pos = st.old_u[0].pos + vsum(dt * (dt * sw.qQ[m] * st.old_f[m + 1]) + dt * sw.coll.weights[m] * st.old_u[0].vel for m in range(M))
            vel = st.old_u[0].vel + vsum(dt * sw.coll.weights[m] * st.old_f[m + 1] for m in range(M))
            if st.old_tau[M - 1] is not None:
                pos, vel = pos + st.old_tau[M - 1].pos, vel + st.old_tau[M - 1].vel
            yield 'uend:quadrature_position', veq(L.uend.pos, pos)
            yield 'uend:quadrature_velocity', veq(L.uend.vel, vel)
        yield 'uend:new_object', all(L.uend is not u for u in L.u)
        yield earlier_end_value_clause(st, L)
        yield 'uend:masses_and_charges_kept', L.uend.m == 'mass' and L.uend.q == 'charge'
        yield from frame_clauses(old, snapshot({'L': L}), frame=['L.uend'])

    def canary(self, st, old, result, exc):
        yield 'canary:uend_is_u0', veq(st.L.uend.pos, st.old_u[0].pos)


CONTRACTS += [VerletIntegrate, VerletUpdateNodes, VerletEndPoint]


# ------------------------------------------------------------------------------------------ Runge-Kutta sweepers
RKF = 'Runge_Kutta.py'


class NpAllclose:
    """numpy as seen by Runge_Kutta.py: `allclose` (only used by ButcherTableau.globally_stiffly_accurate) answers the flag the
    instance fixes; when the flag is True the harness makes the last row of the tableau equal to the weights"""

    def __init__(self, flag):
        self.flag = flag

    def __getattr__(self, n):
        import numpy

        return getattr(numpy, n)

    def allclose(self, a, b, *args, **kw):
        return self.flag


class _RKBase(Contract):
    prop = 'C02'
    label = 'instance-proved'
    native = False
    stubs = _SweepBase.stubs

    RK_CLASSES = {('plain', 2): 'CrankNicolson', ('plain', 4): 'RK4', ('embedded', 2): 'Heun_Euler', ('embedded', 4): 'DIRK43', ('plain', 1): 'BackwardEuler'}

    def rk_instances(self, tier):
        out = []
        for (kind, M), cname in self.RK_CLASSES.items():
            for gsa in (False, True):
                out.append(dict(cls=cname, M=M, embedded=(kind == 'embedded'), gsa=gsa))
        if tier != 'quick':
            out += [dict(cls='Cash_Karp', M=6, embedded=True, gsa=g) for g in (False, True)]
        return out

    def mk_rk_level(self, inst, mk):
        import importlib
        import numpy as onp

        mod = importlib.import_module('pySDC.implementations.sweeper_classes.Runge_Kutta')
        cls = getattr(mod, inst['cls'])
        mod.np = onp  # construction with real numpy
        from vc.ghost.problem import RKAbstractProblem

        L = make_level(cls, inst['M'], mk, fill=False, sweeper_params={}, problem_class=RKAbstractProblem)
        sw, M = L.sweep, inst['M']
        assert sw.coll.num_nodes == M and cls.is_embedded() == inst['embedded']
        mod.np = NpAllclose(inst['gsa'])
        coll = sw.coll
        coll.Qmat = mk.matrix('L.A', M + 1, M + 1, lower)
        coll.nodes = onp.array([0] + [mk.real(f'L.c_{i}') for i in range(M)], dtype=object)
        if inst['embedded']:
            w1 = mk.vector('L.b', M)
            w2 = mk.vector('L.bhat', M)
            coll.weights = onp.array([list(w1), list(w2)], dtype=object)
            wmain = w1
        else:
            coll.weights = mk.vector('L.b', M)
            wmain = coll.weights
        if inst['gsa']:
            for j in range(M):
                coll.Qmat[M, j + 1] = wmain[j]
        sw.QI = coll.Qmat
        L.u[0] = mk.vec('L.u0')
        L.status.sweep = 1
        return L


class RKUpdateNodes(_RKBase):
    """stage by stage: U_m - dt*A[m,m]*F(U_m, t + c_m dt) = u0 + dt*sum_{j<m} A[m,j] F(U_j) (direct assignment iff A[m,m] = 0),
    stage right-hand sides evaluated at the stage times"""

    name = 'RungeKutta.update_nodes'
    target = (SW + RKF, 'RungeKutta.update_nodes')

    def instances(self, tier):
        return self.rk_instances(tier)

    def build(self, inst, mk):
        L = self.mk_rk_level(inst, mk)
        L.sweep.predict()
        st = State(L=L, M=inst['M'], inst=inst, u0=cp(L.u[0]), call=L.sweep.update_nodes)
        return st

    def post(self, st, old, result, exc):
        L, M, sw, P = st.L, st.M, st.L.sweep, st.L.prob
        dt, A, c = L.params.dt, sw.coll.Qmat, sw.coll.nodes
        yield 'returns_normally', exc is None
        if exc is not None:
            return
        for m in range(M):
            tm = L.status.time + dt * c[m + 1]
            rhs = cp(st.u0) + vsum(dt * A[m + 1, j] * L.f[j] for j in range(1, m + 1))
            rec = P.find_solve(L.u[m + 1])
            if rec is not None:
                yield f'stage{m + 1}:solve_rhs', veq(rec.rhs, rhs)
                yield f'stage{m + 1}:solve_factor', seq(rec.factor, dt * A[m + 1, m + 1])
                yield f'stage{m + 1}:solve_time', seq(rec.t, tm)
            else:
                yield f'stage{m + 1}:explicit_value', veq(L.u[m + 1], rhs)
                yield f'stage{m + 1}:explicit_only_if_diagonal_zero', seq(A[m + 1, m + 1], 0)
            last_skipped = (m == M - 1) and st.inst['gsa'] and not st.inst['embedded']
            if last_skipped:
                yield f'f{m + 1}:not_needed_for_stiffly_accurate_last_stage', veq(L.f[m + 1], 0)
            else:
                er = P.find_eval(L.f[m + 1])
                yield f'f{m + 1}:is_eval_f_at_stage_value_and_time', er is not None and bool(veq(er.u, L.u[m + 1])) is True and bool(seq(er.t, tm)) is True
        yield 'status.updated', L.status.updated is True
        yield 'u0_untouched', veq(L.u[0], st.u0)

    def canary(self, st, old, result, exc):
        L, M = st.L, st.M
        if M > 1:
            P = L.prob
            rec = P.find_solve(L.u[M])
            val = rec.rhs if rec is not None else L.u[M]
            yield 'canary:last_stage_ignores_previous_stages', veq(val, st.u0)
        else:
            yield 'canary:stage_is_u0_plus_f', veq(L.u[1], st.u0 + L.params.dt * L.f[1])


class RKEndPoint(_RKBase):
    name = 'RungeKutta.compute_end_point'
    target = (SW + RKF, 'RungeKutta.compute_end_point')

    def instances(self, tier):
        return self.rk_instances(tier) + [dict(cls='RK4', M=4, embedded=False, gsa=False, fresh=True)]

    def build(self, inst, mk):
        L = self.mk_rk_level(inst, mk)
        M = inst['M']
        if not inst.get('fresh'):
            for m in range(1, M + 1):
                L.u[m] = mk.vec(f'L.U{m}')
                L.f[m] = mk.vec(f'L.K{m}', 'f')
        st = State(L=L, M=M, inst=inst, u0=cp(L.u[0]), call=L.sweep.compute_end_point)
        st.old_u = [cp(u) for u in L.u]
        st.old_f = [cp(f) for f in L.f]
        return plant_earlier_end_value(st, L, mk.vec('L.uend_old'))

    def post(self, st, old, result, exc):
        L, M, sw, inst = st.L, st.M, st.L.sweep, st.inst
        dt = L.params.dt
        yield 'returns_normally', exc is None
        if exc is not None:
            return
        yield earlier_end_value_clause(st, L)
        if inst.get('fresh'):
            yield 'no_stages_yet:end_value_is_u0', veq(L.uend, st.u0) and L.uend is not L.u[0]
            return
        W = sw.coll.weights
        b = W[0] if inst['embedded'] else W
        if inst['gsa']:
            yield 'stiffly_accurate:end_value_is_last_stage', veq(L.uend, st.old_u[M])
        else:
            yield 'end_value_is_u0_plus_weighted_stages', veq(L.uend, cp(st.u0) + vsum(dt * b[k] * st.old_f[k + 1] for k in range(M)))
        if inst['embedded']:
            yield 'embedded_solution_uses_second_weights', veq(sw.u_secondary, cp(st.u0) + vsum(dt * W[1][k] * st.old_f[k + 1] for k in range(M)))
        yield 'end_value_is_a_new_object', all(L.uend is not u for u in L.u)
        yield 'stages_untouched', And(*[veq(L.u[m], st.old_u[m]) for m in range(M + 1)])

    def canary(self, st, old, result, exc):
        if st.inst.get('fresh'):
            yield 'canary:end_value_zero', veq(st.L.uend, 0)
        else:
            yield 'canary:end_value_is_u0', veq(st.L.uend, st.u0)


CONTRACTS += [RKUpdateNodes, RKEndPoint]


# ------------------------------------------------------------------------------------------ predictor of the base sweeper
class Predict(_SweepBase):
    """Sweeper.predict: f[0] = F(u0, t); 'spread': every node gets a COPY of u0 and F evaluated at the node time; 'copy': copies of
    u0 and of f[0]; 'zero': zeros; the level is unlocked and marked updated; u[0] itself is never modified"""

    name = 'Sweeper.predict'
    target = ('pySDC/core/sweeper.py', 'Sweeper.predict')
    sweeper = GI
    native = True

    def instances(self, tier):
        return [dict(M=M, guess=g) for M in self.Ms(tier)[:3] for g in ('spread', 'copy', 'zero')]

    def build(self, inst, mk):
        cls = cls_of(SW + self.sweeper[0], self.sweeper[1])
        L = make_level(cls, inst['M'], mk, fill=False, sweeper_params=dict(initial_guess=inst['guess']))
        L.u[0] = mk.vec('L.u0')
        st = State(L=L, M=inst['M'], inst=inst, u0=cp(L.u[0]), u0_obj=L.u[0], call=L.sweep.predict)
        return st

    def snapshot(self, st):
        return None

    def post(self, st, old, result, exc):
        L, M, P, sw = st.L, st.M, st.L.prob, st.L.sweep
        yield 'returns_normally', exc is None
        if exc is not None:
            return
        e0 = P.find_eval(L.f[0])
        yield 'f0:rhs_at_u0_and_step_start', e0 is not None and bool(veq(e0.u, st.u0)) is True and bool(seq(e0.t, L.status.time)) is True
        for m in range(1, M + 1):
            if st.inst['guess'] in ('spread', 'copy'):
                yield f'u{m}:copy_of_u0', bool(veq(L.u[m], st.u0)) is True and L.u[m] is not st.u0_obj and all(L.u[m] is not L.u[j] for j in range(m))
            else:
                yield f'u{m}:zero', veq(L.u[m], 0)
            if st.inst['guess'] == 'spread':
                em = P.find_eval(L.f[m])
                yield f'f{m}:rhs_at_node_time', em is not None and bool(seq(em.t, L.status.time + L.params.dt * sw.coll.nodes[m - 1])) is True and bool(veq(em.u, st.u0)) is True
            elif st.inst['guess'] == 'copy':
                yield f'f{m}:copy_of_f0', bool(veq(L.f[m], L.f[0])) is True and L.f[m] is not L.f[0]
            else:
                yield f'f{m}:zero', veq(L.f[m], 0)
        yield 'u0_untouched', L.u[0] is st.u0_obj and bool(veq(L.u[0], st.u0)) is True
        yield 'unlocked_and_updated', L.status.unlocked is True and L.status.updated is True

    def canary(self, st, old, result, exc):
        yield 'canary:nodes_alias_u0', st.L.u[1] is st.u0_obj


CONTRACTS += [Predict]
