r"""
C10 -- coarse levels never change the fine fixed point (FAS consistency).

Contracts on the real BaseTransfer.restrict / prolong / prolong_f over a real two-level Step (real Levels, real
generic_implicit sweepers) with symbolic dt, Q_f, Q_c, Rcoll, Pcoll, node data; the spatial restriction/prolongation are
LINEAR uninterpreted maps R, P on the data (linearity is C11's contract), F_f and F_c are different uninterpreted
right-hand sides (nonlinear problems included). Then the cycle obligation: from a fine collocation solution,
real restrict -> real coarse sweep -> real prolong leaves the fine level unchanged.
"""

from vc import sym
from vc.sym import And, Or, Not, Implies, Iff
from vc.vec import Vec
from vc.contract import Contract, State, veq, seq, vsum, snapshot, frame_clauses
from contracts.common import make_step, cp, ftot, new_f
from contracts.C03_stopping import spec_integrate, stub_integrate
from contracts.ctrl import LinearSpaceTransfer

BT = 'pySDC/core/base_transfer.py'


def two_level_step(mk, Mf, Mc, tau_fine=False, finter=False, rowsum_one=False, bt_class=None, space_transfer=None):
    S = make_step(mk, nlevels=2, Ms=[Mf, Mc], space_transfer=space_transfer or LinearSpaceTransfer, base_transfer_params=dict(finter=finter), base_transfer_class=bt_class)
    F, G = S.levels
    bt = S.base_transfer
    R = mk.matrix('Rcoll', Mc, Mf)
    if rowsum_one:
        # C11 contract of the time restriction (rows sum to one) built in by substitution
        for n in range(Mc):
            R[n, Mf - 1] = 1 - sum(R[n, m] for m in range(Mf - 1)) if Mf > 1 else 1
    bt.Rcoll = R
    bt.Pcoll = mk.matrix('Pcoll', Mf, Mc)
    for m in range(Mf + 1):
        F.u[m] = mk.vec(f'F.u{m}')
        F.f[m] = mk.vec(f'F.f{m}', 'f')
    if tau_fine:
        for m in range(Mf):
            F.tau[m] = mk.vec(f'F.tau{m}')
    F.status.unlocked = True
    return S, F, G, bt


def Rs(bt, x):
    return bt.space_transfer.restrict(x)


def Ps(bt, x):
    return bt.space_transfer.prolong(x)


class _TB(Contract):
    prop = 'C10'
    label = 'instance-proved'

    def bt_class(self):
        return None
    stubs = ('space_transfer.restrict / prolong [linear uninterpreted maps; linearity = C11 contract]',
             'sweeper.integrate [C02 contract: dt*Q*F as new values]',
             'Problem.eval_f [C12 contract: uninterpreted map, arguments unchanged]')

    def pairs(self, tier):
        top = 3 if tier == 'quick' else 4
        return [(a, b) for a in range(1, top + 1) for b in range(1, top + 1) if b <= a]


class Restrict(_TB):
    name = 'BaseTransfer.restrict'
    target = (BT, 'BaseTransfer.restrict')
    from pySDC.core.errors import UnlockError

    expected_exceptions = (UnlockError,)

    def instances(self, tier):
        out = [dict(Mf=a, Mc=b, tau=t, locked=False) for a, b in self.pairs(tier) for t in (False, True)]
        out.append(dict(Mf=2, Mc=1, tau=False, locked=True))
        return out

    def build(self, inst, mk):
        S, F, G, bt = two_level_step(mk, inst['Mf'], inst['Mc'], tau_fine=inst['tau'], rowsum_one=True)
        stub_integrate(F)
        stub_integrate(G)
        if inst['locked']:
            F.status.unlocked = False
        st = State(S=S, F=F, G=G, bt=bt, inst=inst)
        st.call = bt.restrict
        return st

    def snapshot(self, st):
        return snapshot({'S': st.S})

    def post(self, st, old, result, exc):
        F, G, bt, inst = st.F, st.G, st.bt, st.inst
        Mf, Mc = inst['Mf'], inst['Mc']
        new = snapshot({'S': st.S})
        if inst['locked']:
            yield 'locked_fine_level_rejected', isinstance(exc, self.UnlockError)
            yield from frame_clauses(old, new, frame=[])
            return
        yield 'returns_normally', exc is None
        if exc is not None:
            return
        R = bt.Rcoll
        yield 'u0:restricted_fine_u0', veq(G.u[0], Rs(bt, F.u[0]))
        for n in range(1, Mc + 1):
            yield f'u{n}:Rcoll_times_restricted_fine_nodes', veq(G.u[n], vsum(R[n - 1, m] * Rs(bt, F.u[m + 1]) for m in range(Mf)))
        PG = G.prob
        for n in range(Mc + 1):
            er = PG.find_eval(G.f[n])
            tn = G.status.time if n == 0 else G.status.time + G.params.dt * G.sweep.coll.nodes[n - 1]
            yield f'f{n}:coarse_rhs_of_restricted_value_at_coarse_node_time', er is not None and bool(veq(er.u, G.u[n])) is True and bool(seq(er.t, tn)) is True
        IF, IG = spec_integrate(F), spec_integrate(G)
        for n in range(Mc):
            exp = vsum(R[n, m] * Rs(bt, IF[m]) for m in range(Mf)) - IG[n]
            if inst['tau']:
                exp = exp + vsum(R[n, m] * Rs(bt, F.tau[m]) for m in range(Mf))
            yield f'tau{n}:FAS_correction', veq(G.tau[n], exp)
            # the property: coarse defect right after restriction = restricted fine defect (rows of Rcoll sum to one)
            cdef = G.u[0] + IG[n] + G.tau[n] - G.u[n + 1]
            fdef = [F.u[0] + IF[m] - F.u[m + 1] + (F.tau[m] if inst['tau'] else 0) for m in range(Mf)]
            yield f'coarse_defect_is_restricted_fine_defect[{n}]', veq(cdef, vsum(R[n, m] * Rs(bt, fdef[m]) for m in range(Mf)))
        for n in range(1, Mc + 1):
            yield f'uold{n}:copy', bool(veq(G.uold[n], G.u[n])) is True and G.uold[n] is not G.u[n]
            yield f'fold{n}:copy', bool(veq(G.fold[n], G.f[n])) is True and G.fold[n] is not G.f[n]
        yield 'coarse_unlocked', G.status.unlocked is True
        yield from frame_clauses(old, new, frame=['S.levels[1].u', 'S.levels[1].f', 'S.levels[1].tau', 'S.levels[1].uold', 'S.levels[1].fold',
                                                 'S.levels[1].status.unlocked', 'S.levels[1].prob', 'S.levels[0].sweep.integrate', 'S.levels[1].sweep.integrate'])

    def canary(self, st, old, result, exc):
        if st.inst['locked']:
            yield 'canary:accepts_locked', exc is None
            return
        F, G, bt = st.F, st.G, st.bt
        IF, IG = spec_integrate(F), spec_integrate(G)
        Mf = st.inst['Mf']
        # wrong sign of the coarse integral
        exp = vsum(bt.Rcoll[0, m] * Rs(bt, IF[m]) for m in range(Mf)) + IG[0]
        yield 'canary:tau_sign', veq(G.tau[0], exp + (vsum(bt.Rcoll[0, m] * Rs(bt, F.tau[m]) for m in range(Mf)) if st.inst['tau'] else 0))


class Prolong(_TB):
    name = 'BaseTransfer.prolong'
    target = (BT, 'BaseTransfer.prolong')
    fn = 'prolong'
    from pySDC.core.errors import UnlockError

    expected_exceptions = (UnlockError,)

    def instances(self, tier):
        out = [dict(Mf=a, Mc=b, unchanged=u, locked=False) for a, b in self.pairs(tier) for u in (False, True)]
        out.append(dict(Mf=2, Mc=1, unchanged=False, locked=True))
        return out

    def build(self, inst, mk):
        S, F, G, bt = two_level_step(mk, inst['Mf'], inst['Mc'], tau_fine=True, finter=(self.fn == 'prolong_f'), bt_class=self.bt_class())
        Mc = inst['Mc']
        for m in range(Mc + 1):
            G.u[m] = mk.vec(f'G.u{m}')
            G.f[m] = mk.vec(f'G.f{m}', 'f')
            if inst['unchanged']:
                G.uold[m], G.fold[m] = cp(G.u[m]), cp(G.f[m])
            else:
                G.uold[m], G.fold[m] = mk.vec(f'G.uold{m}'), mk.vec(f'G.fold{m}', 'f')
        G.status.unlocked = not inst['locked']
        st = State(S=S, F=F, G=G, bt=bt, inst=inst)
        st.call = getattr(bt, self.fn)
        return st

    def snapshot(self, st):
        st.old_u = [cp(u) for u in st.F.u]
        st.old_f = [cp(f) for f in st.F.f]
        return snapshot({'S': st.S})

    def post(self, st, old, result, exc):
        F, G, bt, inst = st.F, st.G, st.bt, st.inst
        Mf, Mc = inst['Mf'], inst['Mc']
        new = snapshot({'S': st.S})
        if inst['locked']:
            yield 'locked_coarse_level_rejected', isinstance(exc, self.UnlockError)
            yield from frame_clauses(old, new, frame=[])
            return
        yield 'returns_normally', exc is None
        if exc is not None:
            return
        P = bt.Pcoll
        for n in range(1, Mf + 1):
            corr = vsum(P[n - 1, m] * Ps(bt, G.u[m + 1] - G.uold[m + 1]) for m in range(Mc))
            yield f'u{n}:only_the_coarse_correction_is_added', veq(F.u[n], st.old_u[n] + corr)
            if inst['unchanged']:
                yield f'u{n}:unchanged_coarse_values_change_nothing', veq(F.u[n], st.old_u[n])
            if self.fn == 'prolong':
                er = F.prob.find_eval(F.f[n])
                yield f'f{n}:re_evaluated_at_new_value', er is not None and bool(veq(er.u, F.u[n])) is True and bool(seq(er.t, F.status.time + F.params.dt * F.sweep.coll.nodes[n - 1])) is True
            else:
                fcorr = vsum(P[n - 1, m] * Ps(bt, G.f[m + 1] - G.fold[m + 1]) for m in range(Mc))
                yield f'f{n}:coarse_rhs_correction_added', veq(F.f[n], st.old_f[n] + fcorr)
        yield from frame_clauses(old, new, frame=[f'S.levels[0].u[{n}]' for n in range(1, Mf + 1)] + [f'S.levels[0].f[{n}]' for n in range(1, Mf + 1)] + ['S.levels[0].prob'])

    def canary(self, st, old, result, exc):
        if st.inst['locked']:
            yield 'canary:accepts_locked', exc is None
        elif not st.inst['unchanged']:
            F, G, bt = st.F, st.G, st.bt
            yield 'canary:prolongs_values_not_corrections', veq(F.u[1], st.old_u[1] + vsum(bt.Pcoll[0, m] * Ps(bt, G.u[m + 1]) for m in range(st.inst['Mc'])))
        else:
            yield 'canary:changes_something', Not(veq(st.F.u[1], st.old_u[1]))


class ProlongF(Prolong):
    name = 'BaseTransfer.prolong_f'
    target = (BT, 'BaseTransfer.prolong_f')
    fn = 'prolong_f'


class CycleFixedPoint(_TB):
    """fine level holds its collocation solution (zero fine defect, by construction)  =>  real restrict, real coarse
    sweep (generic_implicit.update_nodes with any lower-triangular QDelta), real prolong leave every fine node value
    unchanged. The coarse solves are decided by the solver contract's uniqueness clause: if the initial guess already
    satisfies guess - a*F(guess,t) = rhs the solve returns it (assumed for the ghost problem)."""

    name = 'BaseTransfer.restrict;coarse sweep;prolong [cycle]'
    target = (BT, 'BaseTransfer.restrict')
    stubs = _TB.stubs + ('Problem.solve_system [C12 contract incl. uniqueness: a guess that satisfies the equation is returned]',)
    native = False

    def instances(self, tier):
        return [dict(Mf=a, Mc=b, tau=t) for a, b in self.pairs(tier) for t in (False, True)]

    def build(self, inst, mk):
        S, F, G, bt = two_level_step(mk, inst['Mf'], inst['Mc'], tau_fine=inst['tau'], rowsum_one=True)
        # fine collocation solution: u_{m+1} := u0 + (dt Q F)_m + tau_m
        IF = spec_integrate(F)
        for m in range(inst['Mf']):
            F.u[m + 1] = F.u[0] + IF[m] + (F.tau[m] if inst['tau'] else 0)
        PG = G.prob
        real_solve = PG.solve_system

        def solve_unique(rhs, a, u0, t):
            from vc.vec import vec_provably_equal, scalar_provably_equal

            for r in PG.evals:
                if vec_provably_equal(r.u, u0):
                    if scalar_provably_equal(r.t, t) and vec_provably_equal(u0 - a * r.f, rhs):
                        st.unique_hits += 1
                        return Vec(u0)
            return real_solve(rhs, a, u0, t)

        PG.solve_system = solve_unique
        st = State(S=S, F=F, G=G, bt=bt, inst=inst, unique_hits=0)

        def call():
            bt.restrict()
            G.sweep.update_nodes()
            bt.prolong()

        st.call = call
        return st

    def snapshot(self, st):
        st.old_u = [cp(u) for u in st.F.u]
        return None

    def post(self, st, old, result, exc):
        yield 'returns_normally', exc is None
        if exc is not None:
            return
        for n in range(st.inst['Mf'] + 1):
            yield f'fine_node{n}_unchanged_by_the_cycle', veq(st.F.u[n], st.old_u[n])
        for n in range(1, st.inst['Mc'] + 1):
            yield f'coarse_node{n}_stays_at_restricted_fine_solution', veq(st.G.u[n], st.G.uold[n])

    def canary(self, st, old, result, exc):
        yield 'canary:coarse_tau_is_zero', veq(st.G.tau[0], 0)


def _stage_order_contracts():
    # down / coarse / up stage order and mid-level sweep counts (mechanism of C10) are the C07 stage contracts
    from contracts.C07_block import ItDown, ItCoarse, ItUp

    return [type(b.__name__ + '_C10', (b,), dict(prop='C10')) for b in (ItDown, ItCoarse, ItUp)]



# ------------------------------------------------------------------------------------------ mass-matrix flavour (finite elements)
BTM = 'pySDC/implementations/transfer_classes/BaseTransfer_mass.py'


class MassSpaceTransfer(LinearSpaceTransfer):
    """adds the third linear map of the finite-element transfers: project (for values), restrict is for residual-like data"""

    def project(self, F):
        if isinstance(F, Vec):
            return Vec({f'Pi[{a}]': c for a, c in F.c.items()}, kind=F.kind)
        import numpy as np

        out = type(F)(F)
        out[...] = 0.6 * np.asarray(F) + 0.15 * np.roll(np.asarray(F), -1, axis=-1)
        return out


def _mass_bt():
    from pySDC.implementations.transfer_classes.BaseTransfer_mass import base_transfer_mass

    return base_transfer_mass


class MassRestrict(_TB):
    """base_transfer_mass.restrict: coarse values are PROJECTED fine values, the FAS correction is built from mass-weighted defects
        tau_c[n] = M_c u_c[n] - dt (Q_c F_c)[n] - sum_m Rcoll[n,m] R( M_f u_f[m] - dt (Q_f F_f)[m] ) (+ sum_m Rcoll[n,m] R tau_f[m])
    and the coarse start value becomes R(M_f u_f[0]) on the finest level; consequence (rows of Rcoll sum to one): the coarse
    mass-weighted defect equals the restricted fine mass-weighted defect"""

    name = 'base_transfer_mass.restrict'
    target = (BTM, 'base_transfer_mass.restrict')
    stubs = _TB.stubs + ('Problem.apply_mass_matrix [linear uninterpreted map]', 'space_transfer.project [linear uninterpreted map]')

    def instances(self, tier):
        return [dict(Mf=a, Mc=b, tau=t) for a, b in self.pairs(tier) for t in (False, True)]

    def build(self, inst, mk):
        S, F, G, bt = two_level_step(mk, inst['Mf'], inst['Mc'], tau_fine=inst['tau'], rowsum_one=True, bt_class=_mass_bt(), space_transfer=MassSpaceTransfer)
        stub_integrate(F)
        stub_integrate(G)
        st = State(S=S, F=F, G=G, bt=bt, inst=inst, call=bt.restrict)
        return st

    def snapshot(self, st):
        return snapshot({'S': st.S})

    def post(self, st, old, result, exc):
        F, G, bt, inst = st.F, st.G, st.bt, st.inst
        Mf, Mc = inst['Mf'], inst['Mc']
        yield 'returns_normally', exc is None
        if exc is not None:
            return
        R, sp = bt.Rcoll, bt.space_transfer
        MF, MG = F.prob.apply_mass_matrix, G.prob.apply_mass_matrix
        u0_proj = sp.project(F.u[0])
        for n in range(1, Mc + 1):
            yield f'u{n}:Rcoll_times_projected_fine_nodes', veq(G.u[n], vsum(R[n - 1, m] * sp.project(F.u[m + 1]) for m in range(Mf)))
        yield 'u0:restricted_mass_weighted_fine_start_value', veq(G.u[0], sp.restrict(MF(F.u[0])))
        PG = G.prob
        er0 = PG.find_eval(G.f[0])
        yield 'f0:coarse_rhs_of_projected_start_value', er0 is not None and bool(veq(er0.u, u0_proj)) is True and bool(seq(er0.t, G.status.time)) is True
        for n in range(1, Mc + 1):
            er = PG.find_eval(G.f[n])
            yield f'f{n}:coarse_rhs_of_coarse_value_at_coarse_node_time', er is not None and bool(veq(er.u, G.u[n])) is True and bool(seq(er.t, G.status.time + G.params.dt * G.sweep.coll.nodes[n - 1])) is True
        IF, IG = spec_integrate(F), spec_integrate(G)
        for n in range(Mc):
            exp = MG(G.u[n + 1]) - IG[n] - vsum(R[n, m] * sp.restrict(MF(F.u[m + 1]) - IF[m]) for m in range(Mf))
            if inst['tau']:
                exp = exp + vsum(R[n, m] * sp.restrict(F.tau[m]) for m in range(Mf))
            yield f'tau{n}:FAS_correction_with_mass_matrices', veq(G.tau[n], exp)
            cdef = G.u[0] + IG[n] + G.tau[n] - MG(G.u[n + 1])
            fdef = [MF(F.u[0]) + IF[m] - MF(F.u[m + 1]) + (F.tau[m] if inst['tau'] else 0) for m in range(Mf)]
            yield f'coarse_defect_is_restricted_fine_defect[{n}]', veq(cdef, vsum(R[n, m] * sp.restrict(fdef[m]) for m in range(Mf)))
        for n in range(1, Mc + 1):
            yield f'uold{n}:copy', bool(veq(G.uold[n], G.u[n])) is True and G.uold[n] is not G.u[n]
            yield f'fold{n}:copy', bool(veq(G.fold[n], G.f[n])) is True and G.fold[n] is not G.f[n]
        yield 'coarse_unlocked', G.status.unlocked is True
        yield from frame_clauses(old, snapshot({'S': st.S}), frame=['S.levels[1].u', 'S.levels[1].f', 'S.levels[1].tau', 'S.levels[1].uold', 'S.levels[1].fold',
                                                                    'S.levels[1].status.unlocked', 'S.levels[1].prob', 'S.levels[0].prob', 'S.levels[0].sweep.integrate', 'S.levels[1].sweep.integrate'])

    def canary(self, st, old, result, exc):
        G, F, bt = st.G, st.F, st.bt
        yield 'canary:start_value_is_the_projection', veq(G.u[0], bt.space_transfer.project(F.u[0]))


class MassProlong(Prolong):
    name = 'base_transfer_mass.prolong'
    target = (BTM, 'base_transfer_mass.prolong')

    def bt_class(self):
        return _mass_bt()


class MassProlongF(ProlongF):
    name = 'base_transfer_mass.prolong_f'
    target = (BTM, 'base_transfer_mass.prolong_f')

    def bt_class(self):
        return _mass_bt()


CONTRACTS = [Restrict, Prolong, ProlongF, CycleFixedPoint, MassRestrict, MassProlong, MassProlongF] + _stage_order_contracts()
UNDECIDED = ['multigrid iteration-matrix clause (one multilevel iteration = multigrid-in-time matrix) is not machine-checked',
             'BaseTransferMPI and three-level cycles are not under contract',
             'concrete space transfer classes (mesh_to_mesh, FFT) enter only through their linearity (C11)']
