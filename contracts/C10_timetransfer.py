"""
C10, premise of the restriction / prolongation contracts (contracts/C10_fas.py works with symbolic Rcoll / Pcoll whose rows
sum to one): the matrices BaseTransfer.__init__ actually builds for a pair of node sets ARE the Lagrange transfer matrices of
exactly these two node sets -- for every pair in a sequence of constructions in one process (equal node counts with
different node sets included), so they cannot depend on which hierarchy was built before.  The check is the one of C11
(contracts/C11_transfer.check_time_transfer); re-exported here so that a change of get_transfer_matrix_Q that breaks the
premise fails an obligation of C10 as well.
"""

from contracts.C11_transfer import check_time_transfer as _c11


def check_time_transfer_matrices(tier, seed):
    r = _c11(tier, seed)
    r['prop'] = 'C10'
    return r


CONTRACTS = []
EXTRAS = [check_time_transfer_matrices]
ASSUMPTIONS = []
