"""
C10, premise of the restriction / prolongation contracts (contracts/C10_fas.py works with symbolic Rcoll / Pcoll whose rows
sum to one): the matrices BaseTransfer.__init__ actually builds for a pair of node sets ARE the Lagrange transfer matrices of
exactly these two node sets -- for every pair in a sequence of constructions in one process (equal node counts with
different node sets included), so they cannot depend on which hierarchy was built before.  The check is the one of C11
(contracts/C11_transfer.check_time_transfer); re-exported here so that a change of get_transfer_matrix_Q that breaks the
premise fails an obligation of C10 as well.
"""

from contracts import C11_transfer as _c11mod
from contracts.C11_transfer import check_time_transfer as _c11


def check_time_transfer_matrices(tier, seed):
    r = _c11(tier, seed)
    r['prop'] = 'C10'
    return r


def _reexport(fn):
    def f(tier, seed):
        r = fn(tier, seed)
        r['prop'] = 'C10'
        return r

    f.__name__ = fn.__name__ + '_C10'
    f.__doc__ = fn.__doc__
    return f


# The FAS contracts work with an abstract LINEAR space transfer (restrict / prolong uninterpreted linear maps).  That the transfer classes
# the property names (Lagrange mesh transfer of several orders, FFT transfers, the NoCoarse transfers) really are such maps -- linear,
# exact on what they promise, prolongation scaled independently of the coarsening ratio, component structure kept -- is C11; its checks on the
# real classes are re-exported so that a change inside a space transfer class also fails an obligation of C10.
SPACE = [_reexport(getattr(_c11mod, n)) for n in ('check_mesh_to_mesh', 'check_fft_transfer', 'check_fft2d_transfer', 'check_nocoarse_transfer')]

CONTRACTS = []
EXTRAS = [check_time_transfer_matrices] + SPACE
ASSUMPTIONS = []
