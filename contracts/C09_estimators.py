r"""
C09 (error estimators feeding the step-size control) -- contracts on

  StoreUOld.post_iteration_processing                      uold[m] is a COPY of u[m] for every node of every level (None stays None)
  EstimateEmbeddedError.estimate_embedded_error_serial     SDC: |uold[-1] - u[-1]| (relative: / |u[-1]|);  RK: end point recomputed, |uend - u_secondary|
  EstimateEmbeddedError.post_iteration_processing          from the first iteration on (RK: always) every level gets max(estimate, eps) as error estimate AND as increment
  EstimateEmbeddedErrorLinearizedNonMPI.post_iteration_processing   difference to the previous step's estimate (buffer), optionally averaged over the slot index
abs(.) of data is the uninterpreted norm of vc.vec (equal vectors, equal norms).
"""

import numpy as np

from vc import sym
from vc.sym import And, Or, Not, Implies, Iff, smax
from vc.vec import Vec
from vc.contract import Contract, State, veq, seq, snapshot, frame_clauses
from contracts.common import cls_of, cp
from contracts.C09_restarts import make_ctrl, find_cc, CCD, _Base

EPS = float(np.finfo(float).eps)
EE = CCD + 'estimate_embedded_error.py'


def _ctrl(mk, cls, params=None, n=1, nlevels=None, sweeper=None, M=2):
    c, tr = make_ctrl(mk, n, nlevels=nlevels, conv={cls: dict(params or {})}, sweeper=sweeper, M=M)
    return c, find_cc(c, cls.__name__)


def _fill(mk, S, with_uold=True):
    for l, L in enumerate(S.levels):
        for m in range(len(L.u)):
            L.u[m] = mk.vec(f'L{l}.u{m}')
            if with_uold:
                L.uold[m] = mk.vec(f'L{l}.uold{m}')


class StoreUOldPost(_Base):
    name = 'StoreUOld.post_iteration_processing'
    target = (CCD + 'store_uold.py', 'StoreUOld.post_iteration_processing')

    def instances(self, tier):
        return [dict(nlevels=nl, hole=h) for nl in (1, 2) for h in (False, True)]

    def build(self, inst, mk):
        c, A = _ctrl(mk, cls_of(CCD + 'store_uold.py', 'StoreUOld'), nlevels=inst['nlevels'])
        S = c.MS[0]
        _fill(mk, S)
        if inst['hole']:
            S.levels[0].u[1] = None
        st = State(c=c, A=A, S=S, us=[[cp(u) for u in L.u] for L in S.levels], objs=[[u for u in L.u] for L in S.levels])
        st.call = lambda: A.post_iteration_processing(c, S)
        return st

    def post(self, st, old, result, exc):
        yield 'returns_normally', exc is None
        if exc is not None:
            return
        for l, L in enumerate(st.S.levels):
            for m in range(len(L.u)):
                if st.us[l][m] is None:
                    yield f'level{l}:uold{m}_is_None_where_u_is', L.uold[m] is None
                else:
                    yield f'level{l}:uold{m}_equals_u', veq(L.uold[m], st.us[l][m])
                    yield f'level{l}:uold{m}_is_a_copy_not_an_alias', L.uold[m] is not L.u[m]
                yield f'level{l}:u{m}_untouched', L.u[m] is st.objs[l][m] and (L.u[m] is None or bool(veq(L.u[m], st.us[l][m])) is True)

    def canary(self, st, old, result, exc):
        yield 'canary:uold_unchanged', veq(st.S.levels[0].uold[0], Vec.atom('L0.uold0'))


class EmbeddedSerial(_Base):
    name = 'EstimateEmbeddedError.estimate_embedded_error_serial'
    target = (EE, 'EstimateEmbeddedError.estimate_embedded_error_serial')
    label = 'proved'

    def instances(self, tier):
        return [dict(kind=k, rel=r) for k in ('SDC', 'RK') for r in (False, True)]

    def build(self, inst, mk):
        cls = cls_of(EE, 'EstimateEmbeddedError')
        sw = ('pySDC/implementations/sweeper_classes/Runge_Kutta.py', 'Heun_Euler') if inst['kind'] == 'RK' else None
        c, A = _ctrl(mk, cls, dict(rel_error=inst['rel']), sweeper=sw)
        S = c.MS[0]
        L = S.levels[0]
        _fill(mk, S, with_uold=inst['kind'] == 'SDC')
        st = State(c=c, A=A, S=S, L=L, inst=inst, calls=[])
        if inst['kind'] == 'RK':
            st.uend, st.usec = mk.vec('uend_new'), mk.vec('usec_new')

            def cep():
                st.calls.append('compute_end_point')
                L.uend, L.sweep.u_secondary = st.uend, st.usec

            L.sweep.compute_end_point = cep  # callee contract: C02 RungeKutta.compute_end_point
            L.uend = mk.vec('uend_stale')
        st.call = lambda: A.estimate_embedded_error_serial(L)
        return st

    def post(self, st, old, result, exc):
        L, inst = st.L, st.inst
        yield 'returns_normally', exc is None
        yield 'sweeper_type_detected', st.A.params.sweeper_type == inst['kind']
        if exc is not None:
            return
        if inst['kind'] == 'SDC':
            d, ref = abs(L.uold[-1] - L.u[-1]), abs(L.u[-1])
        else:
            yield 'RK:end_point_recomputed_first', st.calls == ['compute_end_point']
            d, ref = abs(st.uend - st.usec), abs(st.uend)
        yield 'estimate', seq(result, d / ref if inst['rel'] else d)

    def canary(self, st, old, result, exc):
        yield 'canary:estimate_is_norm_of_u', seq(result, abs(st.L.u[-1]))


class EmbeddedPost(_Base):
    name = 'EstimateEmbeddedError.post_iteration_processing'
    target = (EE, 'EstimateEmbeddedError.post_iteration_processing')
    label = 'proved'
    stubs = ('EstimateEmbeddedError.estimate_embedded_error_serial [contract above; here: arbitrary non-negative value per level]',)

    def instances(self, tier):
        return [dict(kind=k, nlevels=nl) for k in ('SDC', 'RK') for nl in (1, 2)]

    def build(self, inst, mk):
        cls = cls_of(EE, 'EstimateEmbeddedError')
        sw = ('pySDC/implementations/sweeper_classes/Runge_Kutta.py', 'Heun_Euler') if inst['kind'] == 'RK' else None
        c, A = _ctrl(mk, cls, {}, sweeper=sw, nlevels=inst['nlevels'])
        S = c.MS[0]
        A.setup_status_variables(c)
        est = {id(L): mk.real(f'est{l}') for l, L in enumerate(S.levels)}
        for v in est.values():
            mk.assume(v >= 0, 'norm>=0')
        A.estimate_embedded_error_serial = lambda L: est[id(L)]
        S.status.iter = mk.int('iter')
        mk.assume(S.status.iter >= 0, 'iter>=0')
        old = {}
        for l, L in enumerate(S.levels):
            L.status.error_embedded_estimate = mk.real(f'old_e{l}')
            L.status.increment = mk.real(f'old_inc{l}')
            old[id(L)] = (L.status.error_embedded_estimate, L.status.increment)
        st = State(c=c, A=A, S=S, inst=inst, est=est, old=old, call=lambda: A.post_iteration_processing(c, S))
        return st

    def post(self, st, old, result, exc):
        S, inst = st.S, st.inst
        yield 'returns_normally', exc is None
        if exc is not None:
            return
        active = inst['kind'] == 'RK' or bool(S.status.iter > 0)
        for l, L in enumerate(S.levels):
            if active:
                want = smax([st.est[id(L)], EPS])
                yield f'level{l}:estimate_is_max_of_serial_estimate_and_machine_epsilon', seq(L.status.error_embedded_estimate, want)
                yield f'level{l}:increment_is_the_same_value', seq(L.status.increment, want)
            else:
                yield f'level{l}:untouched_before_the_first_iteration', And(seq(L.status.error_embedded_estimate, st.old[id(L)][0]), seq(L.status.increment, st.old[id(L)][1]))

    def canary(self, st, old, result, exc):
        L = st.S.levels[0]
        yield 'canary:estimate_never_written', seq(L.status.error_embedded_estimate, st.old[id(L)][0])


class EmbeddedLinearized(_Base):
    """block Gauss-Seidel flavour: the estimate of a step is | e_serial - e_previous_step | (previous step's serial estimate kept in the
    buffer; with averaged=True: divided by slot+1 and the buffer is left alone), floored at machine epsilon"""

    name = 'EstimateEmbeddedErrorLinearizedNonMPI.post_iteration_processing'
    target = (EE, 'EstimateEmbeddedErrorLinearizedNonMPI.post_iteration_processing')
    label = 'proved'
    stubs = EmbeddedPost.stubs

    def instances(self, tier):
        return [dict(averaged=a, n=n) for a in (False, True) for n in (1, 3)]

    def all_instances(self, tier):
        # several steps AND several levels is rejected by design (NotImplementedError, "serial multi-level or parallel single level")
        return [i for i in _Base.all_instances(self, tier) if not (i['n'] > 1 and i.get('nlevels', 1) > 1)]

    def build(self, inst, mk):
        cls = cls_of(EE, 'EstimateEmbeddedErrorLinearizedNonMPI')
        c, A = _ctrl(mk, cls, dict(averaged=inst['averaged']), n=inst['n'])
        S = c.MS[inst['n'] - 1]
        A.setup_status_variables(c)
        L = S.levels[0]
        est = mk.real('est')
        mk.assume(est >= 0, 'norm>=0')
        A.estimate_embedded_error_serial = lambda L_: est
        A.buffers.e_em_last = mk.real('e_last')
        S.status.iter = mk.int('iter')
        mk.assume(S.status.iter >= 0, 'iter>=0')
        L.status.error_embedded_estimate = mk.real('old_e')
        st = State(c=c, A=A, S=S, L=L, inst=inst, est=est, e_last=A.buffers.e_em_last, old_e=L.status.error_embedded_estimate)
        st.call = lambda: A.post_iteration_processing(c, S)
        return st

    def post(self, st, old, result, exc):
        S, L, A, inst = st.S, st.L, st.A, st.inst
        yield 'returns_normally', exc is None
        if exc is not None:
            return
        if bool(S.status.iter > 0):
            diff = abs(st.est - st.e_last)
            avg = float(S.status.slot + 1) if inst['averaged'] else 1.0
            yield 'estimate_is_the_difference_to_the_previous_step', seq(L.status.error_embedded_estimate, smax([diff / avg, EPS]))
            if inst['averaged']:
                yield 'averaged:buffer_left_alone', seq(A.buffers.e_em_last, st.e_last)
            else:
                yield 'buffer_holds_this_steps_serial_estimate', seq(A.buffers.e_em_last, st.est)
        else:
            yield 'untouched_before_the_first_iteration', And(seq(L.status.error_embedded_estimate, st.old_e), seq(A.buffers.e_em_last, st.e_last))

    def canary(self, st, old, result, exc):
        if not st.inst['averaged']:
            yield 'canary:buffer_never_updated', seq(st.A.buffers.e_em_last, st.e_last)
        else:
            yield 'canary:estimate_not_averaged', seq(st.L.status.error_embedded_estimate, smax([abs(st.est - st.e_last), EPS])) if st.inst['n'] > 1 else False


CONTRACTS = [StoreUOldPost, EmbeddedSerial, EmbeddedPost, EmbeddedLinearized]


# ------------------------------------------------------------------------------------------ bounded: interpolation between restarts (numpy code)
def bounded_interpolate_between_restarts(tier, seed):
    """real controller, real data: after a restart request with a new step size the node values handed to the restarted step are the values of the
    Lagrange interpolant through (step start, old nodes) at the new node times -- exact for polynomial node data of degree <= M --, the step's start
    value u[0] stays BIT-identical (the restarted step must start from the same value), and the bookkeeping flags are consumed"""
    from pySDC.implementations.controller_classes.controller_nonMPI import controller_nonMPI
    from pySDC.implementations.problem_classes.TestEquation_0D import testequation0d
    from pySDC.implementations.sweeper_classes.generic_implicit import generic_implicit
    from pySDC.implementations.convergence_controller_classes.interpolate_between_restarts import InterpolateBetweenRestarts

    rng = np.random.RandomState(seed + 77)
    obs, cases = [], 0
    fails = {k: [] for k in ('interpolant_at_new_node_times', 'start_value_bit_identical', 'flags_consumed', 'no_interpolation_without_restart_or_when_skipped')}
    for M in (2, 3, 4) if tier == 'quick' else (2, 3, 4, 5):
        for quad in ('RADAU-RIGHT', 'LOBATTO', 'GAUSS'):
            for ratio in (0.5, 0.37, 0.9) if tier == 'quick' else (0.5, 0.37, 0.9, 0.1, 1.0):
                d = dict(problem_class=testequation0d, problem_params=dict(lambdas=np.array([-1.0, -2.0 + 1j, 0.5j]), u0=1.0), sweeper_class=generic_implicit,
                         sweeper_params=dict(num_nodes=M, quad_type=quad, QI='IE'), level_params=dict(dt=0.25, restol=-1), step_params=dict(maxiter=3),
                         convergence_controllers={InterpolateBetweenRestarts: {}})
                c = controller_nonMPI(num_procs=1, controller_params=dict(logger_level=40, dump_setup=False), description=d)
                ibr = [x for x in c.convergence_controllers if type(x).__name__ == 'InterpolateBetweenRestarts'][0]
                ibr.setup_status_variables(c)
                S = c.MS[0]
                L = S.levels[0]
                P = L.prob
                L.status.time = 0.3
                S.status.slot, S.status.time_size = 0, 1
                nodes = np.append(0, L.sweep.coll.nodes)
                coef = rng.randn(M + 1, 3) + 1j * rng.randn(M + 1, 3)
                if L.sweep.coll.left_is_node:
                    coef[M] = 0  # the step start is a node: M distinct points carry polynomials of degree M-1
                poly = lambda t: sum(coef[q] * t**q for q in range(M + 1))
                dpoly = lambda t: sum(coef[q] * (t**q) * (q + 1.5) for q in range(M + 1))
                for m in range(M + 1):
                    L.u[m] = P.dtype_u(P.init)
                    L.u[m][:] = poly(nodes[m])
                    L.f[m] = P.dtype_f(P.init)
                    L.f[m][:] = dpoly(nodes[m])
                u0_bytes = np.asarray(L.u[0]).tobytes()
                L.status.dt_new = ratio * L.params.dt
                S.status.restart = True
                cfg = f'M={M},{quad},dt_new/dt={ratio}'
                cases += 1
                ibr.post_iteration_processing(c, S)
                # what restart_block does before the spread: fresh level data with the start value
                keep = P.dtype_u(L.u[0])
                for m in range(1, M + 1):
                    L.u[m] = P.dtype_u(P.init, val=0.0)
                    L.f[m] = P.dtype_f(P.init, val=0.0)
                L.u[0] = keep
                ibr.post_spread_processing(c, S)
                new_nodes = nodes * ratio
                err = max(float(np.max(np.abs(np.asarray(L.u[m]) - poly(new_nodes[m])))) for m in range(M + 1))
                errf = max(float(np.max(np.abs(np.asarray(L.f[m]) - dpoly(new_nodes[m])))) for m in range(M + 1))
                scale = float(np.max(np.abs(coef))) * (M + 1)
                if not (err <= 1e-10 * scale and errf <= 1e-10 * scale * (M + 2)):
                    fails['interpolant_at_new_node_times'].append(dict(config=cfg, err_u=err, err_f=errf))
                if np.asarray(L.u[0]).tobytes() != u0_bytes:
                    fails['start_value_bit_identical'].append(dict(config=cfg))
                if ibr.status.perform_interpolation or ibr.status.skip_interpolation or ibr.status.u_inter or ibr.status.f_inter:
                    fails['flags_consumed'].append(dict(config=cfg))
                # no restart / skip requested: node data is left to the sweeper's predictor
                for mode in ('no_restart', 'skip'):
                    for m in range(M + 1):
                        L.u[m][:] = poly(nodes[m])
                        L.f[m][:] = dpoly(nodes[m])
                    S.status.restart = mode == 'skip'
                    ibr.status.skip_interpolation = mode == 'skip'
                    ibr.post_iteration_processing(c, S)
                    before = [np.asarray(u).copy() for u in L.u]
                    ibr.post_spread_processing(c, S)
                    if any(not np.array_equal(a, np.asarray(b)) for a, b in zip(before, L.u)) or ibr.status.perform_interpolation or ibr.status.skip_interpolation:
                        fails['no_interpolation_without_restart_or_when_skipped'].append(dict(config=cfg, mode=mode))
    for k, bad in fails.items():
        obs.append(dict(name=f'bounded:{k}', status='proved' if not bad else 'refuted', backend='native-run', seconds=0.0, kind='bounded', size=0, model=dict(first=bad[:6]) if bad else None, reason='', path=0, counted=False))
    return dict(contract='bounded:InterpolateBetweenRestarts', prop='C09', inst={}, label='bounded', kind='bounded', obligations=obs, canaries=[], paths=1, status='ok',
                bounded=dict(what='interpolation of node data to the node times of the restarted (shorter) step on real levels and mesh data', bound='M=2..5, three quadrature types, step-size ratios 0.1..1, random complex polynomial node data', cases=cases,
                             failures=sum(1 for o in obs if o['status'] != 'proved')))


EXTRAS = [bounded_interpolate_between_restarts]


# ------------------------------------------------------------------------------------------ bounded: real adaptive runs
def bounded_adaptive_runs(tier, seed):
    """real adaptive runs of controller_nonMPI (embedded / Runge-Kutta / polynomial / extrapolation-within-Q estimators; van der Pol non-stiff and
    stiff, Lorenz) with random tolerances, observed by a recording hook at post_step:
      * an accepted step's error estimate is at most the tolerance unless its retry budget was exhausted
      * a rejected step is retried from the same time with a smaller step size
      * accepted steps tile [t0, Tend] and every block uses one step size
      * the run terminates (advances) or raises ConvergenceError"""
    from pySDC.core.hooks import Hooks
    from pySDC.core.errors import ConvergenceError
    from pySDC.implementations.controller_classes.controller_nonMPI import controller_nonMPI
    from pySDC.implementations.problem_classes.Van_der_Pol_implicit import vanderpol
    from pySDC.implementations.problem_classes.Lorenz import LorenzAttractor
    from pySDC.implementations.sweeper_classes.generic_implicit import generic_implicit
    from pySDC.implementations.sweeper_classes.Runge_Kutta import Cash_Karp, DIRK43
    from pySDC.implementations.convergence_controller_classes.adaptivity import Adaptivity, AdaptivityRK, AdaptivityPolynomialError, AdaptivityExtrapolationWithinQ
    from pySDC.implementations.convergence_controller_classes.basic_restarting import BasicRestartingNonMPI

    rng = np.random.RandomState(seed + 11)
    rec = []

    class _RunAway(BaseException):
        pass

    MAX_STEPS = 20000  # stated bound: an interval 3-5 initial steps long, tolerances >= 1e-7, methods of order >= 3

    class Rec(Hooks):
        def post_step(self, step, level_number):
            if len(rec) > MAX_STEPS:
                raise _RunAway()
            L = step.levels[0]
            est = L.status.get('error_embedded_estimate')
            if est is None:
                est = L.status.get('error_extrapolation_estimate')
            rec.append(dict(t=L.status.time, dt=L.params.dt, restart=bool(step.status.restart), est=None if est is None else float(est), slot=step.status.slot,
                            rir=int(step.status.get('restarts_in_a_row') or 0), dt_new=L.status.dt_new, iter=step.status.iter))

    problems = [('vdp_nonstiff', vanderpol, dict(mu=1.0, u0=np.array([2.0, 0.0]), newton_tol=1e-10, newton_maxiter=50, crash_at_maxiter=False), 0.5, 1e-1),
                ('vdp_stiff', vanderpol, dict(mu=20.0, u0=np.array([2.0, 0.0]), newton_tol=1e-10, newton_maxiter=99, crash_at_maxiter=False), 0.3, 2e-2),
                ('lorenz', LorenzAttractor, dict(newton_tol=1e-10, newton_maxiter=50), 0.3, 2e-2)]
    schemes = [('embedded', generic_implicit, dict(num_nodes=3, quad_type='RADAU-RIGHT', QI='IE'), Adaptivity, {}, 4, -1),
               ('RK_explicit', Cash_Karp, {}, AdaptivityRK, dict(update_order=5), 1, -1),
               ('RK_dirk', DIRK43, {}, AdaptivityRK, dict(update_order=4), 1, -1),
               ('polynomial', generic_implicit, dict(num_nodes=3, quad_type='RADAU-RIGHT', QI='LU'), AdaptivityPolynomialError, {}, 16, 1e-9),
               ('extrapolation_within_Q', generic_implicit, dict(num_nodes=3, quad_type='RADAU-RIGHT', QI='LU'), AdaptivityExtrapolationWithinQ, {}, 16, 1e-9)]
    fails = {k: [] for k in ('accepted_steps_meet_the_tolerance_unless_budget_exhausted', 'rejected_step_retried_from_same_time_with_smaller_step',
                             'accepted_steps_tile_the_interval', 'one_step_size_per_block', 'run_terminates_or_raises_ConvergenceError')}
    cases = 0
    seen = dict(accepted=0, restarts=0, convergence_errors=0, budget_exhausted=0)
    ntol = 2 if tier == 'quick' else 5
    for pname, pcls, pparams, Tend, dt0 in problems:
        for sname, sw, sp, acls, aparams, maxiter, restol in schemes:
            if sname == 'RK_explicit' and pname == 'vdp_stiff':
                continue
            for nprocs in ((1,) if sname.startswith('RK') or tier == 'quick' else (1, 2)):
                for _ in range(ntol):
                    e_tol = float(10 ** rng.uniform(-7, -4))
                    max_restarts = int(rng.choice([2, 5, 10]))
                    d = dict(problem_class=pcls, problem_params=dict(pparams), sweeper_class=sw, sweeper_params=dict(sp), level_params=dict(dt=dt0, restol=restol),
                             step_params=dict(maxiter=maxiter),
                             convergence_controllers={acls: dict(aparams, e_tol=e_tol), BasicRestartingNonMPI: dict(max_restarts=max_restarts, crash_after_max_restarts=False)})
                    cfg = f'{pname}/{sname}/procs={nprocs}/e_tol={e_tol:.2e}/max_restarts={max_restarts}'
                    del rec[:]
                    cases += 1
                    try:
                        c = controller_nonMPI(num_procs=nprocs, controller_params=dict(logger_level=40, hook_class=[Rec], dump_setup=False, mssdc_jac=False), description=d)
                        u0 = c.MS[0].levels[0].prob.u_exact(0.0)
                        c.run(u0=u0, t0=0.0, Tend=Tend)
                    except ConvergenceError:
                        seen['convergence_errors'] += 1
                        continue
                    except _RunAway:
                        fails['run_terminates_or_raises_ConvergenceError'].append(dict(config=cfg, error=f'more than {MAX_STEPS} steps attempted, last t={rec[-1]["t"]!r} dt={rec[-1]["dt"]!r}'))
                        continue
                    except Exception as e:  # anything else is not a documented way to stop
                        fails['run_terminates_or_raises_ConvergenceError'].append(dict(config=cfg, error=repr(e)[:200]))
                        continue
                    # group the records into blocks (records of one block are consecutive with slots 0..k)
                    blocks, cur = [], []
                    for r in rec:
                        if r['slot'] == 0 and cur:
                            blocks.append(cur)
                            cur = []
                        cur.append(r)
                    if cur:
                        blocks.append(cur)
                    accepted = []
                    for bi, b in enumerate(blocks):
                        if any(abs(r['dt'] - b[0]['dt']) > 1e-15 * max(1.0, abs(b[0]['dt'])) for r in b):
                            fails['one_step_size_per_block'].append(dict(config=cfg, block=bi, dts=[r['dt'] for r in b]))
                        first_restart = next((i for i, r in enumerate(b) if r['restart']), None)
                        acc = b if first_restart is None else b[:first_restart]
                        accepted += acc
                        seen['accepted'] += len(acc)
                        seen['restarts'] += first_restart is not None
                        seen['budget_exhausted'] += sum(1 for r in acc if r['rir'] >= max_restarts)
                        for r in acc:
                            if r['est'] is not None and r['est'] > e_tol * (1 + 1e-12) and r['rir'] < max_restarts:
                                fails['accepted_steps_meet_the_tolerance_unless_budget_exhausted'].append(dict(config=cfg, t=r['t'], est=r['est'], restarts_in_a_row=r['rir']))
                        if first_restart is not None and bi + 1 < len(blocks):
                            r, nxt = b[first_restart], blocks[bi + 1][0]
                            if abs(nxt['t'] - r['t']) > 1e-12 or not (nxt['dt'] < r['dt']):
                                fails['rejected_step_retried_from_same_time_with_smaller_step'].append(dict(config=cfg, t=r['t'], dt=r['dt'], next_t=nxt['t'], next_dt=nxt['dt']))
                    t = 0.0
                    ok = True
                    for r in accepted:
                        ok = ok and abs(r['t'] - t) <= 1e-10
                        t = r['t'] + r['dt']
                    if not ok or t < Tend - 1e-9:
                        fails['accepted_steps_tile_the_interval'].append(dict(config=cfg, reached=t, Tend=Tend))
    obs = []
    for k, bad in fails.items():
        obs.append(dict(name=f'bounded:{k}', status='proved' if not bad else 'refuted', backend='native-run', seconds=0.0, kind='bounded', size=0, model=dict(first=bad[:4]) if bad else None, reason='', path=0, counted=False))
    return dict(contract='bounded:adaptive_runs', prop='C09', inst={}, label='bounded', kind='bounded', obligations=obs, canaries=[], paths=1, status='ok',
                bounded=dict(what='real adaptive runs observed at post_step', bound='van der Pol (mu=1, 20), Lorenz; embedded / Cash-Karp / DIRK43 / polynomial / extrapolation-within-Q adaptivity; random tolerances 1e-7..1e-4 and retry budgets', cases=cases, observed=seen,
                             failures=sum(1 for o in obs if o['status'] != 'proved')))


EXTRAS = [bounded_interpolate_between_restarts, bounded_adaptive_runs]
