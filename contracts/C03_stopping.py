"""
C03 -- the reported residual is the true collocation defect; stopping is sound.

compute_residual (base class and the mass-matrix override), CheckConvergence.check_convergence /
check_iteration_status (pure, proved: no size parameter). The it_check part (residual computed after the new u0
arrived, iteration counter, niter) lives in contracts/C07_block.py and is reported under both ids.
"""

from vc import sym
from vc.sym import And, Or, Not, Implies, Iff, smax
from vc.contract import Contract, State, veq, seq, vsum, snapshot, frame_clauses
from contracts.common import make_level, make_step, cls_of, lower, strictly_lower0, cp, ftot

SW = 'pySDC/implementations/sweeper_classes/'
RES_TYPES = ('full_abs', 'last_abs', 'full_rel', 'last_rel')


def spec_integrate(L):
    M, Q, dt = L.sweep.coll.num_nodes, L.sweep.coll.Qmat, L.params.dt
    return [vsum(dt * Q[m + 1, j] * ftot(L.f[j]) for j in range(1, M + 1)) for m in range(M)]


def stub_integrate(L):
    """callee contract of integrate (proved under C02): returns M new values dt*Q*F, changes nothing"""
    L.sweep.integrate = lambda: [x * 1 for x in spec_integrate(L)]


class ComputeResidual(Contract):
    prop = 'C03'
    name = 'Sweeper.compute_residual'
    target = ('pySDC/core/sweeper.py', 'Sweeper.compute_residual')
    sweeper = ('generic_implicit.py', 'generic_implicit')
    kind = 'full'
    stubs = ('integrate [C02 contract: M new values dt*Q*F(U), frame empty]',
             'abs(dtype_u) [uninterpreted non-negative norm, equal vectors give equal norms]')
    from pySDC.core.errors import ParameterError

    expected_exceptions = (ParameterError,)

    def instances(self, tier):
        Ms = (1, 2, 3) if tier == 'quick' else (1, 2, 3, 4, 5)
        out = []
        for M in Ms:
            for tau in (False, True):
                for rt in RES_TYPES + ('bogus',):
                    out.append(dict(M=M, tau=tau, rt=rt, skip=False, resnone=False))
        for resnone in (False, True):
            out.append(dict(M=2, tau=True, rt='full_abs', skip=True, resnone=resnone))
        # history: the same sweeper computed a residual before, at the SAME time and step size but on OTHER values (next iteration of a step
        # in a block after its u[0] was replaced by the predecessor's end value; a second run from the same t0 with another u0)
        out += [dict(i, earlier=True) for i in out if i['M'] <= 2 and i['rt'] in RES_TYPES and not i['skip']]
        return out

    def build(self, inst, mk):
        cls = cls_of(SW + self.sweeper[0], self.sweeper[1])
        skipstages = ('IT_CHECK',) if inst['skip'] else ('IT_FINE',)
        L = make_level(cls, inst['M'], mk, kind=self.kind, tau=inst['tau'],
                       sweeper_params=dict(skip_residual_computation=skipstages),
                       level_params=dict(residual_type=inst['rt']))
        L.status.residual = None if inst['resnone'] else mk.real('L.res_old')
        L.status.updated = True
        for m in range(inst['M']):
            L.residual[m] = mk.vec(f'L.res{m}')
        stub_integrate(L)
        if inst.get('earlier'):
            H = make_level(cls, inst['M'], mk, kind=self.kind, tau=inst['tau'], sweeper_params=dict(skip_residual_computation=skipstages),
                           level_params=dict(residual_type=inst['rt']), name='H')
            H.status.time, H.params.dt = L.status.time, L.params.dt
            H.status.residual, H.status.updated = mk.real('H.res_old'), True
            for m in range(inst['M']):
                H.residual[m] = mk.vec(f'H.res{m}')
            sw, H.level_index = L.sweep, getattr(L, 'level_index', 0)
            H.prob.fix_bc_for_residual = False
            keep = sw.integrate
            sw.level, sw.integrate = H, (lambda: [x * 1 for x in spec_integrate(H)])
            try:
                sw.compute_residual(stage='IT_CHECK')
            finally:
                sw.level, sw.integrate = L, keep
        return State(L=L, M=inst['M'], inst=inst, call=lambda: L.sweep.compute_residual(stage='IT_CHECK'))

    def snapshot(self, st):
        st.old_res = st.L.status.residual
        return snapshot({'L': st.L})

    def defect(self, st, m):
        L = st.L
        d = spec_integrate(L)[m] + L.u[0] - L.u[m + 1]
        if L.tau[m] is not None:
            d = d + L.tau[m]
        return d

    def expected_norm(self, st, rt):
        L, M = st.L, st.M
        norms = [abs(self.defect(st, m)) for m in range(M)]
        if rt == 'full_abs':
            return smax(norms)
        if rt == 'last_abs':
            return norms[-1]
        if rt == 'full_rel':
            return smax(norms) / abs(L.u[0])
        if rt == 'last_rel':
            return norms[-1] / abs(L.u[0])

    def post(self, st, old, result, exc):
        L, M, inst = st.L, st.M, st.inst
        new = snapshot({'L': L})
        if inst['skip']:
            yield 'skip:returns', exc is None
            if inst['resnone']:
                yield 'skip:none_becomes_zero', L.status.residual == 0.0
            else:
                yield 'skip:residual_unchanged', seq(L.status.residual, st.old_res)
            yield from frame_clauses(old, new, frame=['L.status.residual'])
            return
        if inst['rt'] not in RES_TYPES:
            yield 'unknown_type_rejected', isinstance(exc, self.ParameterError)
            return
        yield 'returns_normally', exc is None
        if exc is not None:
            return
        for m in range(M):
            yield f'defect{m + 1}', veq(L.residual[m], self.defect(st, m))
        yield f'norm:{inst["rt"]}', seq(L.status.residual, self.expected_norm(st, inst['rt']))
        yield 'status.updated_cleared', L.status.updated is False
        yield from frame_clauses(old, new, frame=['L.residual', 'L.status.residual', 'L.status.updated', 'L.sweep.integrate'])

    def canary(self, st, old, result, exc):
        inst = st.inst
        if inst['skip'] or inst['rt'] not in RES_TYPES or exc is not None:
            return
        if st.M > 1:
            other = {'full_abs': 'last_abs', 'last_abs': 'full_abs', 'full_rel': 'last_rel', 'last_rel': 'full_rel'}[inst['rt']]
            yield 'canary:other_norm_type', seq(st.L.status.residual, self.expected_norm(st, other))
        else:
            other = {'full_abs': 'full_rel', 'last_abs': 'last_rel', 'full_rel': 'full_abs', 'last_rel': 'last_abs'}[inst['rt']]
            yield 'canary:rel_vs_abs', seq(st.L.status.residual, self.expected_norm(st, other))


class ComputeResidualIMEX(ComputeResidual):
    name = 'Sweeper.compute_residual[imex_1st_order]'
    sweeper = ('imex_1st_order.py', 'imex_1st_order')
    kind = 'imex'

    def instances(self, tier):
        return [i for i in super().instances(tier) if i['M'] <= 2]


class ComputeResidualMass(ComputeResidual):
    """mass-matrix override: defect is M(u0 - u_m) + dtQF + tau on the finest level, u0 - M u_m + dtQF + tau below;
    the norm must still be the configured residual type."""

    name = 'imex_1st_order_mass.compute_residual'
    target = (SW + 'imex_1st_order_mass.py', 'imex_1st_order_mass.compute_residual')
    sweeper = ('imex_1st_order_mass.py', 'imex_1st_order_mass')
    kind = 'imex'
    stubs = ComputeResidual.stubs + ('Problem.apply_mass_matrix [linear map]',)

    def instances(self, tier):
        out = []
        for i in super().instances(tier):
            if i['M'] <= 3:
                for li in (0, 1):
                    out.append(dict(i, level_index=li))
        return out

    def build(self, inst, mk):
        st = super().build(inst, mk)
        st.L.level_index = inst['level_index']
        st.L.prob.fix_bc_for_residual = False
        return st

    def defect(self, st, m):
        L, P = st.L, st.L.prob
        if L.level_index == 0:
            d = spec_integrate(L)[m] + P.apply_mass_matrix(L.u[0] - L.u[m + 1])
        else:
            d = spec_integrate(L)[m] + L.u[0] - P.apply_mass_matrix(L.u[m + 1])
        if L.tau[m] is not None:
            d = d + L.tau[m]
        return d

    def post(self, st, old, result, exc):
        # L.residual is not written by this override; only the norm and the flag are specified
        for nm, c in super().post(st, old, result, exc):
            if nm.startswith('defect'):
                continue
            yield nm, c


# ------------------------------------------------------------------------------------------ check_convergence
CC = 'pySDC/implementations/convergence_controller_classes/check_convergence.py'


class CheckConvergence(Contract):
    prop = 'C03'
    name = 'CheckConvergence.check_convergence'
    target = (CC, 'CheckConvergence.check_convergence')
    label = 'proved'
    special_floats = True  # the native cross-check also draws nan / +-inf / +-0.0 for residual and tolerances (bounded side check)

    def instances(self, tier):
        base = [dict(e_tol=False), dict(e_tol=True), dict(e_tol=True, increment_unset=True)]
        # stopping is decided on the FINEST level: with coarser levels present, their residuals / tolerances / increments are arbitrary other values
        return base + [dict(b, nlevels=nl) for b in base for nl in (2, 3)]

    def build(self, inst, mk):
        lp = dict(e_tol=1.0) if inst['e_tol'] else {}
        nl = inst.get('nlevels', 1)
        if nl == 1:
            S = make_step(mk, M=1, level_params=lp, step_params=dict(maxiter=1), symbolic_level=False)
        else:
            from contracts.ctrl import LinearSpaceTransfer

            S = make_step(mk, M=1, level_params=lp, step_params=dict(maxiter=1), symbolic_level=False, nlevels=nl, space_transfer=LinearSpaceTransfer)
            for l, Lc in enumerate(S.levels[1:], start=1):
                Lc.status.residual = mk.real(f'coarse{l}.residual')
                Lc.params.restol = mk.real(f'coarse{l}.restol')
                Lc.status.sweep = mk.int(f'coarse{l}.sweep')
                if inst['e_tol']:
                    Lc.params.e_tol = mk.real(f'coarse{l}.e_tol')
                    type(Lc.status).add_attr('increment')
                    Lc.status.increment = mk.real(f'coarse{l}.increment')
        L = S.levels[0]
        S.status.iter = mk.int('iter')
        S.params.maxiter = mk.int('maxiter')
        S.status.force_done = mk.bool('force_done')
        S.status.force_continue = mk.bool('force_continue')
        L.status.residual = mk.real('residual')
        L.params.restol = mk.real('restol')
        L.status.sweep = mk.int('sweep')
        if inst['e_tol']:
            L.params.e_tol = mk.real('e_tol')
            type(L.status).add_attr('increment')
            if not inst.get('increment_unset'):
                L.status.increment = mk.real('increment')
        CCc = cls_of(CC, 'CheckConvergence')
        return State(S=S, L=L, inst=inst, call=lambda: CCc.check_convergence(S))

    def snapshot(self, st):
        return snapshot({'S': st.S})

    def disjuncts(self, st):
        S, L = st.S, st.L
        res_ok = And(L.status.residual <= L.params.restol, Or(S.status.iter > 0, L.status.sweep > 0))
        budget = S.status.iter >= S.params.maxiter
        if st.inst['e_tol'] and not st.inst.get('increment_unset'):
            # the increment criterion is only configured together with e_tol; a zero tolerance/increment disables it
            etol = And(L.params.e_tol != 0, L.status.increment != 0, L.status.increment < L.params.e_tol)
        else:
            etol = False
        return res_ok, budget, etol

    def post(self, st, old, result, exc):
        S = st.S
        yield 'returns_normally', exc is None
        if exc is not None:
            return
        res_ok, budget, etol = self.disjuncts(st)
        r = result
        yield 'sound', Implies(r, Or(res_ok, budget, S.status.force_done, etol))
        yield 'complete', Implies(And(Or(res_ok, budget, S.status.force_done, etol), Not(S.status.force_continue)), r)
        yield 'override', Implies(S.status.force_continue, Not(r))
        yield from frame_clauses(old, snapshot({'S': S}), frame=[])

    def canary(self, st, old, result, exc):
        S = st.S
        res_ok, budget, etol = self.disjuncts(st)
        yield 'canary:sound_without_budget', Implies(result, Or(res_ok, S.status.force_done, etol))
        yield 'canary:residual_at_iteration_zero', Implies(st.L.status.residual <= st.L.params.restol, Or(result, S.status.force_continue))


class CheckIterationStatus(CheckConvergence):
    name = 'CheckConvergence.check_iteration_status'
    target = (CC, 'CheckConvergence.check_iteration_status')
    stubs = ('CheckConvergence.check_convergence [contract above, proved in the same run]',)

    def build(self, inst, mk):
        st = super().build(inst, mk)
        CCc = cls_of(CC, 'CheckConvergence')
        C = CCc.__new__(CCc)  # the method does not touch instance state except the debug logger

        class _P:
            useMPI = False
            control_order = 200

        C.params = _P()
        C.logger = None
        C.debug = lambda *a, **k: None
        st.S.status.done = mk.bool('done_old')
        st.call = lambda: C.check_iteration_status(None, st.S)
        return st

    def post(self, st, old, result, exc):
        S = st.S
        yield 'returns_normally', exc is None
        if exc is not None:
            return
        res_ok, budget, etol = self.disjuncts(st)
        fc = old['S.status.force_continue'][1]
        d = S.status.done
        yield 'done:sound', Implies(d, Or(res_ok, budget, S.status.force_done, etol))
        yield 'done:complete', Implies(And(Or(res_ok, budget, S.status.force_done, etol), Not(fc)), d)
        yield 'done:override', Implies(fc, Not(d))
        yield 'force_continue_consumed', S.status.force_continue is False
        yield from frame_clauses(old, snapshot({'S': S}), frame=['S.status.done', 'S.status.force_continue'])

    def canary(self, st, old, result, exc):
        yield 'canary:done_unchanged', Iff(st.S.status.done, old['S.status.done'][1])


def _it_check_under_c03():
    from contracts.C07_block import ItCheck

    return type('ItCheck_C03', (ItCheck,), dict(prop='C03'))


def _logged_iteration_count_under_c03():
    # "the logged iteration count equals the number of iterations actually performed": the record written by DefaultHooks.post_step is the
    # step's iteration counter (C14 contract), the counter counts iterations (it_check contract above)
    from contracts.C14_stats import DefaultPostStep

    return type('DefaultPostStep_C03', (DefaultPostStep,), dict(prop='C03'))


CONTRACTS = [ComputeResidual, ComputeResidualIMEX, ComputeResidualMass, CheckConvergence, CheckIterationStatus, _it_check_under_c03(), _logged_iteration_count_under_c03()]
