r"""
C12 -- every problem class honours the solver contract the sweepers rely on.

The ~50 problem classes call numpy / scipy linear and nonlinear solvers on concrete arrays; none of them is within reach of
the symbolic engine without re-modelling scipy. Following the brief, the solver contract is therefore checked as a
RUN-TIME CONTRACT on every real class that can be imported and instantiated here -- a bounded stand-in with a stated
bound, labelled bounded and never counted as proved:

  solve    u = solve_system(rhs, factor, u0, t):  || u - factor*f_impl(u,t) - rhs || <= tol(class) (relative), for factor in
           {0, 1e-6, 1e-3, 1e-1, 1} (and 1e2 for linear classes), rhs manufactured from an admissible state so that a
           solution exists; arguments rhs / u0 are bit-identical afterwards; the result is a new object
  eval_f   returns a fresh dtype_f, argument unchanged, deterministic
  splits   problems offered in several splittings: the pieces sum to the same right-hand side as the unsplit sibling
  exact    u_exact(t0) reproduces the configured initial condition (u_exact(0) twice identical) and, for ODE problems with a
           closed form, d/dt u_exact = f(u_exact) (central differences, tolerance stated)
"""

import glob
import importlib
import inspect
import os
import signal
import warnings
import numpy as np

REPO = os.environ.get('VERIF_REPO', '/repo')

# small sizes so that the whole sweep stays fast; classes not listed are instantiated with their defaults
PARAMS = {
    'allencahn_periodic_semiimplicit': dict(nvars=32), 'allencahn_periodic_fullyimplicit': dict(nvars=32), 'allencahn_periodic_multiimplicit': dict(nvars=32),
    'allencahn_front_fullyimplicit': dict(nvars=31), 'allencahn_front_semiimplicit': dict(nvars=31), 'allencahn_front_finel': dict(nvars=31),
    'allencahn_fullyimplicit': dict(nvars=(16, 16)), 'allencahn_semiimplicit': dict(nvars=(16, 16)), 'allencahn_semiimplicit_v2': dict(nvars=(16, 16)),
    'allencahn_multiimplicit': dict(nvars=(16, 16)), 'allencahn_multiimplicit_v2': dict(nvars=(16, 16)), 'allencahn2d_imex': dict(nvars=(16, 16)),
    'allencahn2d_imex_stab': dict(nvars=(16, 16), nu=4),
    'generalized_fisher': dict(nvars=31), 'heatNd_forced': dict(nvars=(31,), bc='dirichlet-zero'), 'heatNd_unforced': dict(nvars=(31,), bc='dirichlet-zero'),
    'advectionNd': dict(nvars=(32,), bc='periodic'), 'GenericNDimFinDiff': dict(nvars=(32,), bc='periodic'), 'Quench': dict(nvars=31), 'QuenchIMEX': dict(nvars=31),
    'testequation0d': dict(lambdas=np.array([-1.0 + 0.5j, -0.3 - 2j, -20.0]), u0=1.0), 'test_equation_IMEX': dict(lambdas_implicit=np.array([-1.0 + 0.5j, -3.0]), lambdas_explicit=np.array([0.2j, -0.1]), u0=1.0),
    'Heat1DChebychev': dict(nvars=16), 'Heat1DUltraspherical': dict(nvars=16), 'Heat2DUltraspherical': dict(nx=8, ny=8), 'Burgers1D': dict(N=16), 'Burgers2D': dict(nx=8, nz=8),
    'swfw_scalar': dict(lambda_s=np.array([0.5j, -0.2 + 1j]), lambda_f=np.array([10j, -3.0 + 20j]), u0=1.0),
    'acoustic_1d_imex': dict(nvars=(2, 32)), 'advectiondiffusion1d_imex': dict(nvars=32), 'advectiondiffusion1d_implicit': dict(nvars=32),
}
# classes outside the generic harness, with the reason (reported as uncovered)
SKIP = {
    'GenericNDimFinDiff': 'abstract base: eval_f not implemented', 'polynomial_testequation': 'no solve_system semantics (polynomial in t)',
    'polynomial_testequation_IMEX': 'no solve_system semantics (polynomial in t)', 'ExactDiscontinuousTestODE': 'solve_system returns the exact solution by design, not the implicit equation',
}
SPECTRAL = ('Heat1DChebychev', 'Heat1DUltraspherical', 'Heat2DUltraspherical', 'Burgers1D', 'Burgers2D')
LINEAR = {'testequation0d', 'test_equation_IMEX', 'heatNd_forced', 'heatNd_unforced', 'advectionNd', 'piline', 'buck_converter', 'acoustic_1d_imex', 'advectiondiffusion1d_imex', 'advectiondiffusion1d_implicit'}


EXTERNAL_LIBRARIES = ('cupy', 'mpi4py', 'mpi4py_fft', 'petsc4py', 'firedrake', 'dolfin', 'fenics', 'gusto', 'torch', 'jax')


def discover():
    from pySDC.core.problem import Problem

    found, failed = [], []
    for fn in sorted(glob.glob(f'{REPO}/pySDC/implementations/problem_classes/*.py')):
        mod = 'pySDC.implementations.problem_classes.' + os.path.basename(fn)[:-3]
        try:
            m = importlib.import_module(mod)
        except ModuleNotFoundError as e:
            if (e.name or '').split('.')[0] not in EXTERNAL_LIBRARIES:
                raise  # a module of the library itself is missing: the tree is broken, not "uncovered"
            failed.append((os.path.basename(fn), f'{type(e).__name__}: {str(e)[:60]}'))
            continue
        for n, c in inspect.getmembers(m, inspect.isclass):
            if issubclass(c, Problem) and c.__module__ == mod:
                found.append((n, c))
    return found, failed


def impl_part(f):
    comps = getattr(type(f), 'components', None)
    if comps and 'impl' in comps:
        return f.impl
    return f


def tol_of(P, name):
    for k in ('lin_tol', 'newton_tol', 'lintol', 'solver_tol', 'liniter_tol'):
        v = getattr(P, k, None)
        if isinstance(v, (int, float)) and v > 0:
            return max(float(v) * 50, 1e-9)
    return 1e-9


def rel(a, b):
    a, b = np.asarray(a), np.asarray(b)
    return float(np.max(np.abs(a - b)) / max(1.0, float(np.max(np.abs(b))))) if a.size else 0.0


def ref_state(P, t):
    """an admissible state near time t: the class' own exact / reference solution where it offers one for that time, otherwise a smooth
    modulation of the initial state (several classes provide u_exact only for t = 0)"""
    try:
        return np.asarray(P.u_exact(t))
    except Exception:
        u0 = np.asarray(P.u_exact(0.0))
        return u0 * (1.0 + 0.05 * np.cos(3.0 * t + 0.3 * np.arange(u0.size).reshape(u0.shape))) + 0.01 * np.sin(t + np.arange(u0.size).reshape(u0.shape))


def check_class(name, cls, tier, rng, extra=None, event_time=None, history=True):
    """returns (list of failed clause strings, number of cases, uncovered reason or None); `extra`: non-default constructor parameters;
    `event_time`: the class' switch time attribute is set to it and the solver contract is checked exactly at, just before and just after it"""
    fails, cases = [], 0
    try:
        P = cls(**dict(PARAMS.get(name, {}), **(extra or {})))
        if event_time is not None:
            P.t_switch = event_time
    except Exception as e:
        return [], 0, f'cannot instantiate: {type(e).__name__}: {str(e)[:80]}'
    try:
        t0 = 0.0
        u_ex = P.u_exact(t0)
    except Exception as e:
        return [], 0, f'u_exact(0) not available: {type(e).__name__}'
    mesh_like = isinstance(u_ex, np.ndarray)
    if not mesh_like:
        return [], 0, 'state is not an array type'
    # exact solution: deterministic and a fresh object
    cases += 1
    u_ex2 = P.u_exact(t0)
    if not (np.array_equal(u_ex, u_ex2) and u_ex is not u_ex2 and type(u_ex) is P.dtype_u):
        fails.append('u_exact(0) not reproducible / not a fresh dtype_u')
    # eval_f: fresh object, argument unchanged, deterministic
    u = P.dtype_u(u_ex)
    u[...] = u + 0.01 * rng.randn(*u.shape)
    u0c = np.array(u)
    try:
        f1 = P.eval_f(u, 0.1)
        f2 = P.eval_f(u, 0.1)
    except Exception as e:
        return fails + [f'eval_f raised {type(e).__name__}: {str(e)[:60]}'], cases + 1, None
    cases += 1
    if not (np.array_equal(u, u0c)):
        fails.append('eval_f modified its argument')
    if not (type(f1) is P.dtype_f and f1 is not f2 and np.array_equal(np.asarray(f1), np.asarray(f2)) and not np.shares_memory(f1, u)):
        fails.append('eval_f result is not a fresh deterministic dtype_f')
    comps = getattr(P.dtype_f, 'components', None)
    if comps and 'comp1' in comps and hasattr(P, 'solve_system_1'):
        for which, solver in ((0, P.solve_system_1), (1, P.solve_system_2)):
            for factor in (0.0, 1e-3, 1e-1):
                cases += 1
                us = P.dtype_u(P.u_exact(0.0))
                us[...] = 0.8 * np.asarray(P.u_exact(0.0)) + 0.2 * ref_state(P, 0.05)
                try:
                    fs = P.eval_f(us, 0.0)
                    rhs = P.dtype_u(us)
                    rhs[...] = us - factor * np.asarray(getattr(fs, comps[which]))
                    rhs_c = np.array(rhs)
                    sol = solver(rhs, factor, P.dtype_u(us), 0.0)
                    fsol = P.eval_f(sol, 0.0)
                    r = float(np.max(np.abs(np.asarray(sol) - factor * np.asarray(getattr(fsol, comps[which])) - rhs_c))) / max(1.0, float(np.max(np.abs(rhs_c))))
                    if not np.array_equal(rhs, rhs_c):
                        fails.append(f'solve_system_{which + 1}(factor={factor}) modified rhs')
                    if not r <= max(tol_of(P, name), 1e-8):
                        fails.append(f'solve_system_{which + 1}(factor={factor}): relative defect {r:.2e}')
                except Exception as e:
                    fails.append(f'solve_system_{which + 1}(factor={factor}) raised {type(e).__name__}: {str(e)[:60]}')
        return fails, cases, None
    if not hasattr(P, 'solve_system') or type(P).solve_system is __import__('pySDC.core.problem', fromlist=['Problem']).Problem.solve_system:
        return fails, cases, None
    tol = tol_of(P, name)
    factors = [0.0, 1e-6, 1e-3, 1e-1, 1.0] + ([1e2] if name in LINEAR else [])
    if tier == 'quick':
        factors = [0.0, 1e-3, 1e-1] + ([1e2] if name in LINEAR else [])
    times = (0.0, 0.3) if event_time is None else (event_time, float(np.nextafter(event_time, -np.inf)), float(np.nextafter(event_time, np.inf)), 0.5 * event_time)
    for factor in factors:
        for t in times:
            cases += 1
            # an admissible, smooth state: blend of two exact states (random noise would excite unresolved modes of spectral classes)
            us = P.dtype_u(P.u_exact(0.0))
            us[...] = (0.7 + 0.1 * rng.rand()) * ref_state(P, t) + 0.3 * ref_state(P, t + 0.05)
            try:
                fs = P.eval_f(us, t)
                rhs = P.dtype_u(us)
                rhs[...] = us - factor * np.asarray(impl_part(fs))
                guess = P.dtype_u(P.u_exact(0.0))
                guess[...] = ref_state(P, t)
                rhs_c, guess_c = np.array(rhs), np.array(guess)
                wc = getattr(P, 'work_counters', {}).get('newton')
                n_before = wc.niter if wc is not None else 0
                sol = P.solve_system(rhs, factor, guess, t)
                if wc is not None and getattr(P, 'newton_maxiter', None) is not None and wc.niter - n_before >= P.newton_maxiter:
                    continue  # the class reports non-convergence of its Newton iteration (warning / log): not a silent contract violation
            except Exception as e:
                fails.append(f'solve_system(factor={factor}, t={t}) raised {type(e).__name__}: {str(e)[:60]}')
                continue
            if not (np.array_equal(rhs, rhs_c) and np.array_equal(guess, guess_c)):
                fails.append(f'solve_system(factor={factor}) modified rhs or the initial guess')
            if sol is rhs or sol is guess or np.shares_memory(sol, rhs) or np.shares_memory(sol, guess):
                fails.append(f'solve_system(factor={factor}) returned an alias of an argument')
            if type(sol) is not P.dtype_u:
                fails.append(f'solve_system(factor={factor}) returned {type(sol).__name__}')
                continue
            fsol = P.eval_f(sol, t)
            res = np.asarray(sol) - factor * np.asarray(impl_part(fsol)) - rhs_c
            # boundary / constraint rows are excluded when the class marks them
            mask = getattr(P, 'bc_mask', None)
            r = float(np.max(np.abs(res))) / max(1.0, float(np.max(np.abs(rhs_c))))
            if not r <= tol:
                fails.append(f'solve_system(factor={factor}, t={t}): relative defect {r:.2e} > {tol:.1e}')
            elif name in LINEAR and t == times[0]:
                # linear classes: the contract does not depend on the magnitude of the data (tolerances of the solvers are RELATIVE ones): the same
                # system with right-hand side and initial guess scaled by s is solved to the same relative defect
                for scale in (1e-12, 1e6):
                    cases += 1
                    try:
                        rhs_s, guess_s = P.dtype_u(rhs), P.dtype_u(guess)
                        rhs_s[...] = scale * rhs_c
                        guess_s[...] = scale * guess_c
                        sol_s = P.solve_system(rhs_s, factor, guess_s, t)
                        res_s = np.asarray(sol_s) - factor * np.asarray(impl_part(P.eval_f(sol_s, t))) + factor * np.asarray(impl_part(P.eval_f(0 * sol_s, t))) - scale * rhs_c
                        r_s = float(np.max(np.abs(res_s))) / float(np.max(np.abs(scale * rhs_c)))
                        if not r_s <= tol:
                            fails.append(f'solve_system(factor={factor}) with data scaled by {scale:g}: relative defect {r_s:.2e} > {tol:.1e} (unscaled: {r:.2e})')
                    except Exception as e:
                        fails.append(f'solve_system(factor={factor}) with data scaled by {scale:g} raised {type(e).__name__}: {str(e)[:60]}')
    # history: consecutive solves on the SAME problem object whose factors differ only slightly (anything kept from the previous solve -- a
    # factorisation, a preconditioner, an initial guess -- must not leak into the next one)
    for base in ((1e-6, 1e-1) if tier == 'quick' else (1e-6, 1e-3, 1e-1, 1.0)) if history else ():
        for factor in (base, base * 1.009, base * (1 + 1e-7), base + 1e-9, base):
            cases += 1
            t = 0.3 if event_time is None else 0.5 * event_time
            us = P.dtype_u(P.u_exact(0.0))
            us[...] = (0.7 + 0.1 * rng.rand()) * ref_state(P, t) + 0.3 * ref_state(P, t + 0.05)
            try:
                fs = P.eval_f(us, t)
                rhs = P.dtype_u(us)
                rhs[...] = us - factor * np.asarray(impl_part(fs))
                guess = P.dtype_u(P.u_exact(0.0))
                guess[...] = ref_state(P, t)
                rhs_c = np.array(rhs)
                wc = getattr(P, 'work_counters', {}).get('newton')
                n_before = wc.niter if wc is not None else 0
                sol = P.solve_system(rhs, factor, guess, t)
                if wc is not None and getattr(P, 'newton_maxiter', None) is not None and wc.niter - n_before >= P.newton_maxiter:
                    continue
                fsol = P.eval_f(sol, t)
                res = np.asarray(sol) - factor * np.asarray(impl_part(fsol)) - rhs_c
                r = float(np.max(np.abs(res))) / max(1.0, float(np.max(np.abs(rhs_c))))
                if not r <= tol:
                    fails.append(f'solve_system(factor={factor!r}) right after a solve with a nearly equal factor: relative defect {r:.2e} > {tol:.1e}')
            except Exception as e:
                fails.append(f'solve_system(factor={factor!r}) in a sequence of nearly equal factors raised {type(e).__name__}: {str(e)[:60]}')
    # closed-form solution satisfies the ODE (only for problems whose u_exact is analytic: small finite difference test)
    if name in ('testequation0d', 'test_equation_IMEX', 'logistics_equation', 'nonlinear_ODE_1', 'auzinger', 'ProtheroRobinson', 'Kaps', 'JacobiElliptic', 'ProtheroRobinsonAutonomous', 'ChemicalReaction3Var'):
        try:
            for t in (0.1, 0.37):
                h = 1e-6
                du = (np.asarray(P.u_exact(t + h)) - np.asarray(P.u_exact(t - h))) / (2 * h)
                f = P.eval_f(P.u_exact(t), t)
                ft = np.asarray(f.impl + f.expl) if getattr(type(f), 'components', None) and 'impl' in type(f).components else np.asarray(f)
                cases += 1
                if rel(du, ft) > 1e-4 * max(1.0, float(np.max(np.abs(ft)))):
                    fails.append(f'd/dt u_exact differs from f(u_exact) at t={t}: {rel(du, ft):.2e}')
        except Exception:
            pass
    return fails, cases, None


def split_siblings(rng):
    """pieces of split problems sum to the unsplit right-hand side"""
    out, cases = [], 0
    pairs = [('AllenCahn_1D_FD', 'allencahn_periodic_fullyimplicit', 'allencahn_periodic_semiimplicit', dict(nvars=32)),
             ('AllenCahn_1D_FD', 'allencahn_front_fullyimplicit', 'allencahn_front_semiimplicit', dict(nvars=31)),
             ('AllenCahn_2D_FD', 'allencahn_fullyimplicit', 'allencahn_semiimplicit', dict(nvars=(16, 16))),
             ('AllenCahn_2D_FD', 'allencahn_fullyimplicit', 'allencahn_multiimplicit', dict(nvars=(16, 16))),
             ('Quench', 'Quench', 'QuenchIMEX', dict(nvars=31)),
             ('AllenCahn_2D_FFT', 'allencahn2d_imex', 'allencahn2d_imex_stab', dict(nvars=(16, 16))),
             ('AllenCahn_2D_FFT', 'allencahn2d_imex', 'allencahn2d_imex_stab', dict(nvars=(16, 16), nu=4)),
             ('AllenCahn_2D_FFT', 'allencahn2d_imex', 'allencahn2d_imex_stab', dict(nvars=(16, 16), nu=6, eps=0.08)),
             ('TestEquation_0D', 'testequation0d', 'test_equation_IMEX', None)]
    for modn, a, b, pp in pairs:
        try:
            m = importlib.import_module('pySDC.implementations.problem_classes.' + modn)
            if pp is None:
                lam = np.array([-1.0 + 0.5j, -3.0])
                A, B = getattr(m, a)(lambdas=lam, u0=1.0), getattr(m, b)(lambdas_implicit=0.7 * lam, lambdas_explicit=0.3 * lam, u0=1.0)
            else:
                A, B = getattr(m, a)(**pp), getattr(m, b)(**pp)
            u = A.dtype_u(A.u_exact(0.0))
            u[...] = u + 0.01 * rng.randn(*u.shape)
            fa, fb = A.eval_f(u, 0.2), B.eval_f(B.dtype_u(u), 0.2)
            comps = type(fb).components
            tot = sum(np.asarray(getattr(fb, c)) for c in comps)
            if getattr(type(fa), 'components', None):  # both siblings are split: compare the full right-hand sides
                fa = sum(np.asarray(getattr(fa, c)) for c in type(fa).components)
            cases += 1
            if rel(tot, np.asarray(fa)) > 1e-10:
                out.append(f'{b}: split pieces do not sum to the right-hand side of {a} ({rel(tot, np.asarray(fa)):.2e})')
        except Exception as e:
            out.append(f'{a}/{b}: could not compare ({type(e).__name__}: {str(e)[:60]})')
    return out, cases


class _Timeout(BaseException):
    pass


def _alarm(*a):
    raise _Timeout()


def variants(name, cls):
    """(tag, kwargs for check_class): one-at-a-time perturbations of the float-valued constructor defaults, and event-time histories"""
    out = []
    try:
        sig = inspect.signature(cls.__init__)
    except (TypeError, ValueError):
        return out
    for pn, p in sig.parameters.items():
        if pn in ('self', 'newton_tol', 'lintol', 'lin_tol', 'liniter', 'newton_maxiter', 'solver_tol', 'relative_tolerance', 'eps', 'radius', 'interval', 'L', 'x0', 'xend', 'nu') or pn in PARAMS.get(name, {}):  # nu is an exponent: other values change admissibility
            continue
        d = p.default
        if isinstance(d, float) and np.isfinite(d) and d != 0 and not isinstance(d, bool):
            out.append((f'{pn}={d * 1.7 + 0.13:g}', dict(extra={pn: d * 1.7 + 0.13})))
        elif isinstance(d, int) and not isinstance(d, bool) and pn in ('lam', 'mu', 'alpha', 'Vs', 'Rs', 'k', 'A', 'D', 'eps_param', 'dw', 'lambda0', 'c'):
            out.append((f'{pn}={d + 1}', dict(extra={pn: d + 1})))  # integer-valued parameters stay integers (exponents)
    if len(out) > 8:
        out = out[:8]
    # integer exponents of the Allen-Cahn type reaction terms: an even value other than the default keeps the problem admissible
    nu = sig.parameters.get('nu')
    if nu is not None and isinstance(nu.default, (int, float)) and not isinstance(nu.default, bool) and float(nu.default) == 2.0 and 'nu' not in PARAMS.get(name, {}):
        out.append(('nu=4', dict(extra=dict(nu=4))))
    # a domain that is NOT symmetric about the origin (the defaults all are): solver and right-hand side must agree on where the boundary is
    iv = sig.parameters.get('interval')
    if iv is not None and isinstance(iv.default, tuple) and len(iv.default) == 2 and all(isinstance(v, (int, float)) for v in iv.default) and 'interval' not in PARAMS.get(name, {}):
        a, b = float(iv.default[0]), float(iv.default[1])
        out.append((f'interval=({a + 0.3 * (b - a):g},{b + 0.3 * (b - a):g})', dict(extra=dict(interval=(a + 0.3 * (b - a), b + 0.3 * (b - a))))))
    if name in ('heatNd_unforced', 'heatNd_forced', 'advectionNd'):
        # the solver types, boundary conditions, dimensions and stencil variants the finite-difference base class offers
        out = out[:2]
        for tag, kw in (('GMRES', dict(solver_type='GMRES')), ('CG', dict(solver_type='CG')), ('periodic-2D', dict(nvars=(8, 8), bc='periodic')),
                        ('dirichlet-2D-order4', dict(nvars=(7, 7), bc='dirichlet-zero', order=4)), ('neumann', dict(nvars=(16,), bc='neumann-zero')),
                        ('periodic-order6-GMRES', dict(nvars=(32,), bc='periodic', order=6, solver_type='GMRES'))):
            if name == 'advectionNd' and ('CG' in tag or 'dirichlet' in tag or 'neumann' in tag):
                continue  # CG needs a symmetric operator; the advection class is periodic only
            out.append((tag, dict(extra=kw)))
    if hasattr(cls, 'get_switching_info') and name in ('DiscontinuousTestODE',):
        out.append(('t_switch=1.2', dict(event_time=1.2)))
        out.append(('t_switch=0.7', dict(event_time=0.7)))
    elif hasattr(cls, 'get_switching_info') and 'battery' in name.lower():
        # the branch after the switch (voltage source feeds the circuit) is only reached once a switch time is set (or the capacitor voltage is low):
        # with a set switch time, and with non-default circuit parameters on top of it
        out.append(('t_switch=0.2', dict(event_time=0.2)))
        for pn in ('L', 'Vs', 'Rs'):
            p_ = sig.parameters.get(pn)
            if p_ is not None and isinstance(p_.default, float):
                out.append((f't_switch=0.2,{pn}={p_.default * 1.7 + 0.13:g}', dict(event_time=0.2, extra={pn: p_.default * 1.7 + 0.13})))
    return out


PARTICLES = ('fermi_pasta_ulam_tsingou', 'full_solar_system', 'harmonic_oscillator', 'henon_heiles', 'outer_solar_system', 'penningtrap')


def check_particles(name, cls, rng):
    """second-order (particle) problem classes have no implicit solve; their part of the contract: eval_f (and build_f / boris_solver where offered)
    returns a fresh deterministic result and never modifies the particle data handed in; u_exact(0) is reproducible"""
    fails, cases = [], 0
    kw = dict(omega_B=25.0, omega_E=4.9, u0=np.array([[10, 0, 0], [100, 0, 100], [1], [1]], dtype=object), nparts=1, sig=0.1) if name == 'penningtrap' else {}
    try:
        P = cls(**kw)
    except Exception as e:
        return [], 0, f'cannot instantiate: {type(e).__name__}: {str(e)[:80]}'

    def snap(u):
        return [np.array(getattr(u, a)) for a in ('pos', 'vel', 'q', 'm') if hasattr(u, a)]

    def parts(f):
        return [np.array(getattr(f, a)) for a in ('elec', 'magn') if hasattr(f, a)] or [np.array(f)]

    u = P.u_exact(0.0)
    u2 = P.u_exact(0.0)
    cases += 1
    if not (all(np.array_equal(a, b) for a, b in zip(snap(u), snap(u2))) and u is not u2):
        fails.append('u_exact(0) not reproducible / not a fresh object')
    u.pos[...] = u.pos + 0.01 * rng.randn(*u.pos.shape)
    s0 = snap(u)
    for t in (0.0, 0.37):
        cases += 1
        f1, f2 = P.eval_f(u, t), P.eval_f(u, t)
        if not all(np.array_equal(a, b) for a, b in zip(snap(u), s0)):
            fails.append(f'eval_f(t={t}) modified its argument')
        if not (f1 is not f2 and all(np.array_equal(a, b) for a, b in zip(parts(f1), parts(f2)))):
            fails.append(f'eval_f(t={t}) result is not a fresh deterministic object')
        if hasattr(P, 'build_f'):
            g0 = parts(f1)
            b1, b2 = P.build_f(f1, u, t), P.build_f(f1, u, t)
            if not (np.array_equal(np.asarray(b1), np.asarray(b2)) and all(np.array_equal(a, b) for a, b in zip(parts(f1), g0)) and all(np.array_equal(a, b) for a, b in zip(snap(u), s0))):
                fails.append(f'build_f(t={t}) is not deterministic or modified its arguments')
    return fails, cases, None


def closed_form_particles(name, cls):
    """closed-form trajectories of the particle classes: u_exact(0) is the configured initial state, d/dt pos = vel and d/dt vel = the
    acceleration the class' right-hand side delivers along the trajectory (central differences), for every regime of the parameters"""
    fails, cases = [], 0
    if name == 'harmonic_oscillator':
        # undamped, under-, over- and critically damped (mu/2 == sqrt(k)) with several frequencies and non-trivial initial states
        sets = [dict(k=1.0, mu=0.0, u0=(1, 0)), dict(k=2.0, mu=0.5, u0=(1.0, -0.3)), dict(k=1.0, mu=3.0, u0=(0.7, 0.2)), dict(k=1.0, mu=2.0, u0=(1.0, 0.5)),
                dict(k=4.0, mu=4.0, u0=(1.0, 0.5)), dict(k=2.25, mu=3.0, u0=(-0.4, 1.5)), dict(k=9.0, mu=0.0, u0=(0.0, 2.0))]
    elif name == 'penningtrap':
        sets = [dict(omega_B=25.0, omega_E=4.9, u0=np.array([[10, 0, 0], [100, 0, 100], [1], [1]], dtype=object), nparts=1, sig=0.1)]
    else:
        return fails, cases
    for kw in sets:
        P = cls(**kw)
        tag = ','.join(f'{k}={v}' for k, v in kw.items() if k in ('k', 'mu'))
        cases += 1
        u0 = P.u_exact(0.0)
        if name == 'harmonic_oscillator' and not (np.allclose(np.asarray(u0.pos).ravel(), kw['u0'][0], atol=1e-13) and np.allclose(np.asarray(u0.vel).ravel(), kw['u0'][1], atol=1e-13)):
            fails.append(f'[{tag}] u_exact(0) = ({np.asarray(u0.pos).ravel()[0]:.6g}, {np.asarray(u0.vel).ravel()[0]:.6g}) is not the configured initial state {kw["u0"]}')
        for t in (0.13, 0.9):
            cases += 1
            h = 1e-5
            up, um, uc = P.u_exact(t + h), P.u_exact(t - h), P.u_exact(t)
            dpos = (np.asarray(up.pos) - np.asarray(um.pos)) / (2 * h)
            dvel = (np.asarray(up.vel) - np.asarray(um.vel)) / (2 * h)
            f = P.eval_f(uc, t)
            acc = np.asarray(P.build_f(f, uc, t)) if hasattr(P, 'build_f') else np.asarray(f)
            sc = max(1.0, float(np.max(np.abs(acc))), float(np.max(np.abs(np.asarray(uc.vel)))))
            if float(np.max(np.abs(dpos - np.asarray(uc.vel)))) > 1e-6 * sc:
                fails.append(f'[{tag}] d/dt pos differs from vel of u_exact at t={t}: {float(np.max(np.abs(dpos - np.asarray(uc.vel)))):.2e}')
            if float(np.max(np.abs(dvel - acc))) > 1e-6 * sc:
                fails.append(f'[{tag}] d/dt vel differs from the right-hand side along u_exact at t={t}: {float(np.max(np.abs(dvel - acc))):.2e}')
    return fails, cases


def check_spectral(name, cls, rng):
    """spectral (tau) classes: solve_system(rhs, dt) must return u with  BC(M + dt*L) u = BC(M rhs)  -- the operator rows on the interior
    modes, the boundary / constraint rows instead of the highest modes -- for every solver type, whatever was solved before (the classes
    cache factorisations per dt and evict them), without modifying the arguments. M, L and the boundary-row insertion are the class' own
    (their contracts are C17's); what is under check here is the solve pipeline: preconditioners, caches, transforms."""
    fails, cases = [], 0
    for st_, extra in (('cached_direct', dict(max_cached_factorizations=2)), ('direct', {})):
        for spectral_space in (True, False):
            try:
                P = cls(**dict(PARAMS.get(name, {}), solver_type=st_, spectral_space=spectral_space, **extra))
            except TypeError:
                if not spectral_space:
                    continue  # the class fixes the representation itself
                try:
                    P = cls(**dict(PARAMS.get(name, {}), solver_type=st_, **extra))
                except Exception as e:
                    return [], 0, f'cannot instantiate: {type(e).__name__}: {str(e)[:80]}'
            except Exception as e:
                return [], 0, f'cannot instantiate: {type(e).__name__}: {str(e)[:80]}'
            spectral_space = bool(P.spectral_space)
            u0 = P.dtype_u(P.init)
            u0[...] = np.asarray(P.u_exact(0.0))
            dts = [1e-2, 0.3, 1e-2, 7e-2, 0.3, 1e-2]  # repeated values: cache hits after evictions
            for i, dt in enumerate(dts):
                cases += 1
                rhs = P.dtype_u(u0)
                rhs[...] = np.asarray(u0) * (1.0 + 0.1 * i) + 0.01 * rng.randn(*u0.shape) * (1 if spectral_space else 0)
                rhs_c = np.array(rhs)
                try:
                    sol = P.solve_system(rhs, dt, P.dtype_u(u0))
                except Exception as e:
                    fails.append(f'[{st_},spectral_space={spectral_space}] solve_system(dt={dt}) raised {type(e).__name__}: {str(e)[:60]}')
                    continue
                if not np.array_equal(rhs, rhs_c):
                    fails.append(f'[{st_},spectral_space={spectral_space}] solve_system(dt={dt}) modified rhs')
                rhs_hat = rhs_c if spectral_space else np.asarray(P.spectral.transform(rhs))
                sol_hat = np.asarray(sol) if spectral_space else np.asarray(P.spectral.transform(sol))
                A = P.spectral.put_BCs_in_matrix(P.M + dt * P.L)
                b = np.asarray(P.spectral.put_BCs_in_rhs_hat((P.M @ rhs_hat.flatten()).reshape(rhs_hat.shape))).flatten()
                r = np.asarray(A @ sol_hat.flatten()).flatten() - b
                rel_ = float(np.max(np.abs(r))) / max(1.0, float(np.max(np.abs(b))))
                if not rel_ <= 1e-8:
                    fails.append(f'[{st_},spectral_space={spectral_space}] solve_system(dt={dt}, call {i}): relative defect {rel_:.2e} of BC(M + dt L) u = BC(M rhs)')
    return fails, cases, None


def bounded_problem_contracts(tier, seed, part=0, nparts=1):
    warnings.filterwarnings('ignore')
    rng = np.random.RandomState(seed + 21 + 1000 * part)
    found, failed_imports = discover()
    found = found[part::nparts]  # the classes are spread over `nparts` jobs of the pool
    obs, uncovered, total = [], [], 0
    nvariants = [0]
    spectral_done = []
    for name, cls in found:
        if name in SPECTRAL:
            try:
                fails, cases, why = check_spectral(name, cls, rng)
            except Exception as e:
                fails, cases, why = [], 0, f'harness error {type(e).__name__}: {str(e)[:80]}'
            total += cases
            if why:
                uncovered.append(f'{name}: {why}')
            else:
                obs.append(dict(name=f'bounded:{name}:solve_defect', status='proved' if not fails else 'refuted', backend='runtime-contract', seconds=0.0, kind='bounded', size=0,
                                model=dict(first=fails[:5]) if fails else None, reason='', path=0, counted=False))
                spectral_done.append(name)
            continue
        if name in PARTICLES:
            try:
                fails, cases, why = check_particles(name, cls, rng)
            except Exception as e:
                fails, cases, why = [], 0, f'harness error {type(e).__name__}: {str(e)[:80]}'
            total += cases
            if why:
                uncovered.append(f'{name}: {why}')
            else:
                try:
                    cf, cc = closed_form_particles(name, cls)
                except Exception as e:
                    cf, cc = [f'closed-form check raised {type(e).__name__}: {str(e)[:80]}'], 0
                total += cc
                if cc:
                    obs.append(dict(name=f'bounded:{name}:exact_solution', status='proved' if not cf else 'refuted', backend='runtime-contract', seconds=0.0, kind='bounded', size=0,
                                    model=dict(first=cf[:5]) if cf else None, reason='', path=0, counted=False))
                obs.append(dict(name=f'bounded:{name}:arguments_and_results', status='proved' if not fails else 'refuted', backend='runtime-contract', seconds=0.0, kind='bounded', size=0,
                                model=dict(first=fails[:5]) if fails else None, reason='', path=0, counted=False))
            continue
        if name in SKIP:
            uncovered.append(f'{name}: {SKIP[name]}')
            continue
        try:
            fails, cases, why = check_class(name, cls, tier, rng)
        except Exception as e:
            fails, cases, why = [], 0, f'harness error {type(e).__name__}: {str(e)[:80]}'
        total += cases
        if why:
            uncovered.append(f'{name}: {why}')
            continue
        # non-default constructor parameters, one at a time (a term that vanishes or coincides for the default value must still be right), and
        # the event time of the discontinuous classes set by an earlier event detection (history)
        for tag, kw in variants(name, cls):
            signal.signal(signal.SIGALRM, _alarm)
            signal.alarm(60)
            try:
                f2, c2, why2 = check_class(name, cls, 'quick', rng, history=False, **kw)
            except _Timeout:
                f2, c2, why2 = [], 0, 'time limit'
                uncovered.append(f'{name}[{tag}]: variant skipped after 60 s')
            except Exception as e:
                f2, c2, why2 = [], 0, f'harness error {type(e).__name__}'
            finally:
                signal.alarm(0)
            if why2 is None:
                total += c2
                fails = fails + [f'[{tag}] {x}' for x in f2]
                nvariants[0] += 1
        kinds = dict(solve_defect=[f for f in fails if 'relative defect' in f or 'raised' in f and 'solve_system' in f],
                     arguments_and_results=[f for f in fails if 'modified' in f or 'alias' in f or 'returned' in f or 'fresh' in f or 'reproducible' in f],
                     exact_solution=[f for f in fails if 'u_exact' in f and 'reproducible' not in f])
        rest = [f for f in fails if not any(f in v for v in kinds.values())]
        kinds['arguments_and_results'] += rest
        for kind, bad in kinds.items():
            obs.append(dict(name=f'bounded:{name}:{kind}', status='proved' if not bad else 'refuted', backend='runtime-contract', seconds=0.0, kind='bounded', size=0,
                            model=dict(first=bad[:5]) if bad else None, reason='', path=0, counted=False))
    if part == 0:
        sp, c2 = split_siblings(rng)
        total += c2
        obs.append(dict(name='bounded:split_siblings_sum_to_the_unsplit_rhs', status='proved' if not sp else 'refuted', backend='runtime-contract', seconds=0.0, kind='bounded', size=0,
                        model=dict(first=sp[:5]) if sp else None, reason='', path=0, counted=False))
    return dict(contract='bounded:problem_classes', prop='C12', inst={}, label='bounded', kind='bounded', obligations=obs, canaries=[], paths=1, status='ok',
                bounded=dict(what='solver contract (defect of the returned solution, arguments untouched, fresh results), eval_f contract, split siblings, closed-form solutions',
                             bound=f'part {part + 1} of {nparts}: {len(found)} classes (+ {nvariants[0]} variants with one non-default float parameter or a set event time) x factors incl. 0 x 2 times, random admissible states (seeded)', cases=total, failures=sum(1 for o in obs if o['status'] != 'proved'),
                             covered=sorted(set(o['name'].split(':')[1] for o in obs if o['name'].count(':') >= 2)), spectral_classes_with_the_tau_contract=spectral_done, uncovered=uncovered, not_importable=[f'{a}: {b}' for a, b in failed_imports]))


NPARTS = 8


def _part(i):
    def f(tier, seed):
        return bounded_problem_contracts(tier, seed, part=i, nparts=NPARTS)

    f.__name__ = f'bounded_problem_contracts_part{i}'
    return f


CONTRACTS = []
EXTRAS = [_part(i) for i in range(NPARTS)]
LEVEL = 'exploration'
ASSUMPTIONS = ['scipy / numpy solvers are external', 'this property is decided by a bounded run-time contract only: nothing is counted as proved']
UNDECIDED = ['classes needing cupy, mpi4py, petsc4py, dolfin, firedrake are not importable here', 'boundary / constraint rows are not treated separately (classes under check enforce them inside the operator)']


def dahlquist_symbolic(tier, seed):
    """deductive core: the REAL eval_f / solve_system of the Dahlquist classes run on object meshes of sympy symbols; the solver
    contract u - factor*f_impl(u) = rhs and the right-hand-side law are rational-function identities decided by sympy
    (generic symbols: the singular locus 1 - factor*lambda = 0, which the code special-cases, is excluded)"""
    import sympy as sp
    from pySDC.implementations.problem_classes.TestEquation_0D import testequation0d, test_equation_IMEX

    obs = []

    def ob(name, ok, info=None):
        obs.append(dict(name=name, status='proved' if ok else 'refuted', backend='sympy', seconds=0.0, kind='post', size=0, model=info if not ok else None, reason='', path=0))

    n = 3
    lam = [sp.Symbol(f'lambda{i}') for i in range(n)]
    lamE = [sp.Symbol(f'mu{i}') for i in range(n)]
    fac, t = sp.symbols('factor t')
    rhs_s = [sp.Symbol(f'rhs{i}') for i in range(n)]
    u_s = [sp.Symbol(f'u{i}') for i in range(n)]

    def objmesh(P, vals, cls=None):
        m = (cls or P.dtype_u)((n, None, np.dtype('O')))
        for i, v in enumerate(vals):
            m[i] = v
        return m

    def setro(P, name, val):
        object.__setattr__(P, name, val)

    # --- testequation0d
    P = testequation0d(lambdas=np.array([-1.0, -2.0, -3.0]), u0=1.0)
    P.init = (n, None, np.dtype('O'))
    setro(P, 'lambdas', np.array(lam, dtype=object))
    u, rhs = objmesh(P, u_s), objmesh(P, rhs_s)
    f = P.eval_f(u, t)
    ob('testequation0d.eval_f:is_lambda_times_u', all(sp.simplify(f[i] - lam[i] * u_s[i]) == 0 for i in range(n)) and all(u[i] == u_s[i] for i in range(n)) and f is not u)
    sol = P.solve_system(rhs, fac, u, t)
    ob('testequation0d.solve_system:u_minus_factor_f(u)_equals_rhs', all(sp.simplify(sol[i] - fac * lam[i] * sol[i] - rhs_s[i]) == 0 for i in range(n)))
    ob('testequation0d.solve_system:arguments_untouched_and_result_fresh', all(rhs[i] == rhs_s[i] and u[i] == u_s[i] for i in range(n)) and sol is not rhs and sol is not u)
    sol0 = P.solve_system(rhs, 0, u, t)
    ob('testequation0d.solve_system:zero_factor_returns_rhs', all(sp.simplify(sol0[i] - rhs_s[i]) == 0 for i in range(n)))
    ob('canary:solve_is_not_the_explicit_step', not all(sp.simplify(sol[i] - (1 + fac * lam[i]) * rhs_s[i]) == 0 for i in range(n)))
    # --- test_equation_IMEX
    Q = test_equation_IMEX(lambdas_implicit=np.array([-1.0, -2.0, -3.0]), lambdas_explicit=np.array([0.1, 0.2, 0.3]), u0=1.0)
    Q.init = (n, None, np.dtype('O'))
    setro(Q, 'lambdas_implicit', np.array(lam, dtype=object))
    setro(Q, 'lambdas_explicit', np.array(lamE, dtype=object))
    u, rhs = objmesh(Q, u_s), objmesh(Q, rhs_s)
    f = Q.eval_f(u, t)
    ob('test_equation_IMEX.eval_f:impl_and_expl_parts', all(sp.simplify(f.impl[i] - lam[i] * u_s[i]) == 0 and sp.simplify(f.expl[i] - lamE[i] * u_s[i]) == 0 for i in range(n)))
    sol = Q.solve_system(rhs, fac, u, t)
    ob('test_equation_IMEX.solve_system:u_minus_factor_f_impl(u)_equals_rhs', all(sp.simplify(sol[i] - fac * lam[i] * sol[i] - rhs_s[i]) == 0 for i in range(n)))
    ob('test_equation_IMEX.split_sums_to_unsplit_rhs', all(sp.simplify(f.impl[i] + f.expl[i] - (lam[i] + lamE[i]) * u_s[i]) == 0 for i in range(n)))
    return dict(contract='Dahlquist classes: eval_f / solve_system [symbolic]', prop='C12', inst={}, label='proved (generic symbols, sympy normal form)', kind='contract', obligations=obs, canaries=[], paths=1, status='ok',
                target=('pySDC/implementations/problem_classes/TestEquation_0D.py', 'testequation0d.solve_system'))


EXTRAS = [_part(i) for i in range(NPARTS)] + [dahlquist_symbolic]
LEVEL = 'proof'
