"""
C02 (multistep "sweeper") -- pySDC/implementations/sweeper_classes/Multistep.py.

With a full cache of N previous (t_i, u_i, f_i), equidistant with the current step size (requires):
    u_new solves   u - dt*beta_N*F(u, t+dt) = sum_i ( -alpha_i*u_i + dt*beta_i*f_i ),   guess = newest cached value
    f_new = F(u_new, t+dt);   the cache drops its oldest entry and appends (t+dt, u_new, f_new)
predict(): an empty cache receives (t, u0, F(u0, t)); a non-empty cache is left alone.
AdamsMoultonImplicit2Step.generate_starting_values: one trapezoidal step.
Coefficient tables of the shipped classes: exact for polynomials up to their order (exact rational arithmetic).
"""

from fractions import Fraction

from vc import sym
from vc.sym import And
from vc.vec import Vec
from vc.contract import Contract, State, veq, seq, vsum, snapshot, frame_clauses
from contracts.common import make_level, cls_of, cp

MS = 'pySDC/implementations/sweeper_classes/Multistep.py'


class _MsBase(Contract):
    prop = 'C02'
    label = 'instance-proved'
    native = False
    stubs = ('Problem.eval_f [C12 contract]', 'Problem.solve_system [C12 contract]')

    def mk_level(self, inst, mk, cls='BackwardEuler'):
        N = inst['N']
        L = make_level(cls_of(MS, cls), 1, mk, fill=False)
        sw = L.sweep
        if inst.get('symbolic_coefficients', True):
            sw.alpha = [mk.real(f'alpha{i}') for i in range(N)]
            sw.beta = [mk.real(f'beta{i}') for i in range(N + 1)]
            sw.steps = N
            sw.cache = type(sw.cache)(N)
        L.u[0] = mk.vec('L.u0')
        L.f[0] = mk.vec('L.f0', 'f')
        L.u[1] = mk.vec('L.u1_old')
        L.f[1] = mk.vec('L.f1_old', 'f')
        return L


class MultiStepUpdate(_MsBase):
    name = 'MultiStep.update_nodes'
    target = (MS, 'MultiStep.update_nodes')

    def instances(self, tier):
        return [dict(N=N) for N in ((1, 2, 3) if tier == 'quick' else (1, 2, 3, 4))]

    def build(self, inst, mk):
        L = self.mk_level(inst, mk)
        sw, N = L.sweep, inst['N']
        c = sw.cache
        for i in range(N):
            c.u[i] = mk.vec(f'cache.u{i}')
            c.f[i] = mk.vec(f'cache.f{i}', 'f')
            # equidistant history ending at the start of this step
            c.t[i] = L.status.time - (N - 1 - i) * L.params.dt
        st = State(L=L, N=N, cu=[cp(x) for x in c.u], cf=[cp(x) for x in c.f], ct=list(c.t), call=sw.update_nodes)
        return st

    def post(self, st, old, result, exc):
        L, N, sw, P = st.L, st.N, st.L.sweep, st.L.prob
        dt, tn = L.params.dt, L.status.time + L.params.dt
        yield 'returns_normally', exc is None
        if exc is not None:
            return
        rec = P.find_solve(L.u[1])
        yield 'u1:is_a_solve', rec is not None
        if rec is not None:
            yield 'u1:rhs', veq(rec.rhs, vsum(-1 * sw.alpha[i] * st.cu[i] + dt * sw.beta[i] * st.cf[i] for i in range(N)))
            yield 'u1:factor', seq(rec.factor, dt * sw.beta[N])
            yield 'u1:time', seq(rec.t, tn)
            yield 'u1:guess_is_newest_cached_value', veq(rec.u0, st.cu[N - 1])
        er = P.find_eval(L.f[1])
        yield 'f1:is_eval_f_at_new_value_and_new_time', er is not None and bool(veq(er.u, L.u[1])) is True and bool(seq(er.t, tn)) is True
        c = sw.cache
        yield 'cache:length_kept', len(c.u) == N and len(c.f) == N and len(c.t) == N
        yield 'cache:oldest_dropped_rest_shifted', And(*[And(veq(c.u[i], st.cu[i + 1]), veq(c.f[i], st.cf[i + 1]), seq(c.t[i], st.ct[i + 1])) for i in range(N - 1)]) if N > 1 else True
        yield 'cache:new_entry_appended', And(veq(c.u[N - 1], L.u[1]), veq(c.f[N - 1], L.f[1]), seq(c.t[N - 1], tn))
        yield 'u0_untouched', veq(L.u[0], Vec.atom('L.u0'))

    def canary(self, st, old, result, exc):
        rec = st.L.prob.find_solve(st.L.u[1])
        yield 'canary:rhs_without_history_of_f', veq(rec.rhs, vsum(-1 * st.L.sweep.alpha[i] * st.cu[i] for i in range(st.N)))


class MultiStepPredict(_MsBase):
    name = 'MultiStep.predict'
    target = (MS, 'MultiStep.predict')

    def instances(self, tier):
        return [dict(N=N, filled=f) for N in (1, 2) for f in (False, True)] + [dict(N=N, filled='partial') for N in (2, 3)]

    def build(self, inst, mk):
        L = self.mk_level(inst, mk)
        sw, N = L.sweep, inst['N']
        c = sw.cache
        if inst['filled']:
            for i in range(N - 1 if inst['filled'] == 'partial' else 0, N):
                c.u[i], c.f[i], c.t[i] = mk.vec(f'cache.u{i}'), mk.vec(f'cache.f{i}', 'f'), mk.real(f'cache.t{i}')
        st = State(L=L, N=N, inst=inst, cu=[cp(x) for x in c.u], cf=[cp(x) for x in c.f], ct=list(c.t), call=sw.predict)
        return st

    def post(self, st, old, result, exc):
        L, N, sw, P = st.L, st.N, st.L.sweep, st.L.prob
        c = sw.cache
        yield 'returns_normally', exc is None
        if exc is not None:
            return
        if st.inst['filled']:
            yield 'non_empty_cache_left_alone', all((c.t[i] is None) == (st.ct[i] is None) for i in range(N)) and bool(And(*[And(veq(c.u[i], st.cu[i]), veq(c.f[i], st.cf[i]), seq(c.t[i], st.ct[i])) for i in range(N) if st.ct[i] is not None])) is True and not P.evals
        else:
            er = P.evals[0] if len(P.evals) == 1 else None
            yield 'empty_cache:one_evaluation_at_u0_and_step_start', er is not None and bool(veq(er.u, L.u[0])) is True and bool(seq(er.t, L.status.time)) is True
            yield 'empty_cache:receives_the_initial_condition', And(veq(c.u[N - 1], L.u[0]), veq(c.f[N - 1], L.f[0]), seq(c.t[N - 1], L.status.time)) and all(x is None for x in c.t[:-1])
        yield 'unlocked_and_updated', L.status.unlocked is True and L.status.updated is True

    def canary(self, st, old, result, exc):
        yield 'canary:cache_always_empty', all(x is None for x in st.L.sweep.cache.t) and st.inst['filled'] is not False


class AM2Start(_MsBase):
    name = 'AdamsMoultonImplicit2Step.generate_starting_values'
    target = (MS, 'AdamsMoultonImplicit2Step.generate_starting_values')
    label = 'proved'

    def instances(self, tier):
        return [dict(N=2, symbolic_coefficients=False)]

    def build(self, inst, mk):
        L = self.mk_level(inst, mk, cls='AdamsMoultonImplicit2Step')
        return State(L=L, u0=cp(L.u[0]), f0=cp(L.f[0]), call=L.sweep.generate_starting_values)

    def post(self, st, old, result, exc):
        L, P = st.L, st.L.prob
        yield 'returns_normally', exc is None
        if exc is not None:
            return
        rec = P.find_solve(L.u[1])
        yield 'trapezoidal_step', rec is not None and bool(veq(rec.rhs, st.u0 + L.params.dt / 2 * st.f0)) is True and bool(seq(rec.factor, L.params.dt / 2)) is True and bool(seq(rec.t, L.status.time + L.params.dt)) is True

    def canary(self, st, old, result, exc):
        rec = st.L.prob.find_solve(st.L.u[1])
        yield 'canary:backward_euler_start', veq(rec.rhs, st.u0)


def coefficient_tables(tier, seed):
    """exactness of the shipped alpha/beta tables on monomials (equidistant steps h=1, new time 0): order conditions in Fractions"""
    import importlib

    mod = importlib.import_module('pySDC.implementations.sweeper_classes.Multistep')
    ORDER = dict(AdamsBashforthExplicit1Step=1, BackwardEuler=1, AdamsMoultonImplicit1Step=2, AdamsMoultonImplicit2Step=3)
    obs = []

    def ob(name, ok, model=None):
        obs.append(dict(name=name, status='proved' if ok else 'refuted', backend='exact-rational', seconds=0.0, kind='exact', size=0, model=model, reason='', path=0))

    shipped = [n for n, c in vars(mod).items() if isinstance(c, type) and issubclass(c, mod.MultiStep) and c is not mod.MultiStep]
    ob('every_shipped_multistep_class_has_a_documented_order', sorted(shipped) == sorted(ORDER), dict(shipped=shipped))
    for name, p in ORDER.items():
        c = getattr(mod, name, None)
        if c is None:
            continue
        a = [Fraction(x).limit_denominator(10**6) for x in c.alpha]
        b = [Fraction(x).limit_denominator(10**6) for x in c.beta]
        N = len(a)
        ob(f'{name}:table_sizes', len(b) == N + 1)
        t = [Fraction(i - N) for i in range(N + 1)]  # t_0..t_{N-1} history, t_N = 0 new time
        for q in range(p + 2):
            lhs = t[N] ** q if q else Fraction(1)
            rhs = sum(-a[i] * (t[i] ** q if q else 1) for i in range(N)) + sum(b[i] * (q * t[i] ** (q - 1) if q else 0) for i in range(N + 1))
            if q <= p:
                ob(f'{name}:exact_for_t^{q}', lhs == rhs, dict(lhs=str(lhs), rhs=str(rhs)))
            else:
                ob(f'canary:{name}:not_exact_for_t^{q}', lhs != rhs)
    return dict(contract='lemma:multistep_coefficient_tables', prop='C02', inst={}, label='proved', kind='exact', obligations=obs, canaries=[], paths=1, status='ok')


CONTRACTS = [MultiStepUpdate, MultiStepPredict, AM2Start]
EXTRAS = [coefficient_tables]
