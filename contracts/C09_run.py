"""
C09, premise taken from the block loop: "all steps of a block share one step size" composes the spreader's contract
(C09_restarts / C09_mpi: afterwards every step that took part carries the common step size) with a clause of
controller_nonMPI.run's loop body: the steps of the NEXT block are among the steps the spreader was called for, i.e. a slot
that was switched off near Tend (and therefore kept its stale step size) never joins a later block.  That clause lives in
the loop-cut contract of run() (contracts/C06_tiling.RunBody); it is re-exported here so that a change of run() that
breaks it fails an obligation of C09 as well.
"""

from contracts.C06_tiling import RunBody

KEEP = ('returns_normally', 'block_run_on_the_active_steps', 'prepare_next_block_for_every_step', 'no_new_slots_become_active',
        'inv_preserved:shape', 'inv_preserved:active_slots_is_prefix', 'inv_preserved:active_slot_membership', 'inv_preserved:active_flag',
        'next_block_initialised_with_carried_value')


def _post(self, st, old, result, exc):
    for nm, c in RunBody.post(self, st, old, result, exc):
        if nm.split('[')[0] in KEEP:
            yield nm, c


RunBody_C09 = type('RunBody_C09', (RunBody,), dict(prop='C09', post=_post))

CONTRACTS = [RunBody_C09]
ASSUMPTIONS = []
