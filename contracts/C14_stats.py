r"""
C14 -- statistics are a faithful, uniquely keyed record of the run.

Key/value contracts on the real hook classes (Hooks, DefaultHooks, LogWork, LogSDCIterations, LogSolution, LogRestarts,
LogStepSize, LogEmbeddedErrorEstimate) with symbolic step data (time, dt, iter, sweep, residual, restart counter) and an
ARBITRARY preceding callback (the hook object last saw a different step -- that is what happens inside a block, see the
C07 trace): the record written for step S must be keyed by S's own slot, time, level, iteration and restart count.
filter_stats / sort_stats are checked against their specification exhaustively over a small key domain (bounded).
"""

import itertools
import numpy as np

from vc import sym
from vc.sym import And, Or, Not, Implies, Iff
from vc.contract import Contract, State, veq, seq
from contracts.common import make_step, cls_of

HK = 'pySDC/implementations/hooks/'


def mk_two_steps(mk, nlevels=1):
    """the step S the callback is about, and ANOTHER step T with different slot / counters that the hook saw just before;
    with nlevels > 1 the coarser levels carry arbitrary OTHER step sizes / residuals / sweep counters (records are about the level the callback names)"""
    steps = []
    for name in ('S', 'T'):
        if nlevels > 1:
            from contracts.ctrl import LinearSpaceTransfer

            S = make_step(mk, M=2, name=name, symbolic_level=False, level_params=dict(dt=1.0), nlevels=nlevels, space_transfer=LinearSpaceTransfer)
            for l, Lc in enumerate(S.levels[1:], start=1):
                Lc.params.dt = mk.real(f'{name}.coarse{l}.dt')
                Lc.status.sweep = mk.int(f'{name}.coarse{l}.sweep')
                Lc.status.residual = mk.real(f'{name}.coarse{l}.residual')
        else:
            S = make_step(mk, M=2, name=name, symbolic_level=False, level_params=dict(dt=1.0))
        type(S.status).add_attr('restarts_in_a_row')
        type(S.status).add_attr('restart')
        S.status.slot = 0 if name == 'S' else 1
        S.status.iter = mk.int(f'{name}.iter')
        S.params.maxiter = mk.int(f'{name}.maxiter')  # the budget may be exceeded (forced continuation): records must not depend on it
        S.status.restarts_in_a_row = mk.int(f'{name}.restarts')
        S.status.restart = mk.bool(f'{name}.restart')
        L = S.levels[0]
        L.status.time = mk.real(f'{name}.time')
        L.params.dt = mk.real(f'{name}.dt')
        L.status.sweep = mk.int(f'{name}.sweep')
        L.status.residual = mk.real(f'{name}.residual')
        steps.append(S)
    return steps


def entries(hook, **match):
    out = []
    for k, v in hook.return_stats().items():
        if all(getattr(k, a) == b if not sym.is_sym(getattr(k, a)) and not sym.is_sym(b) else True for a, b in match.items()):
            out.append((k, v))
    return out


class _HookBase(Contract):
    prop = 'C14'
    label = 'proved'
    native = True
    hook = None  # (file, class)
    callback = 'post_step'

    def make_hook(self):
        return cls_of(HK + self.hook[0], self.hook[1])()

    def prime(self, st):
        """history: the hook object was last called back for the OTHER step (as happens for the first step of a block)"""
        st.h.pre_step(st.S, 0)
        st.h.post_iteration(st.T, 0) if hasattr(st.h, 'post_iteration') else None
        st.h.pre_comm(st.T, 0)

    def all_instances(self, tier):
        out = list(self.instances(tier))
        return out + [dict(i, nlevels=2) for i in out if 'nlevels' not in i]

    def build(self, inst, mk):
        S, T = mk_two_steps(mk, nlevels=inst.get('nlevels', 1))
        for X in (S, T):
            for Lc in X.levels[1:]:
                Lc.status.time = X.levels[0].status.time
        st = State(S=S, T=T, L=S.levels[0], h=self.make_hook(), inst=inst)
        self.extra_setup(st, mk)
        st.h.reset_stats()
        self.prime(st)
        st.before = dict(st.h.return_stats())
        st.call = lambda: getattr(st.h, self.callback)(st.S, 0)
        return st

    def extra_setup(self, st, mk):
        pass

    def new_entries(self, st):
        return [(k, v) for k, v in st.h.return_stats().items() if k not in st.before]

    def key_clauses(self, st, k, time, level, it, typ, tag):
        S, L = st.S, st.L
        yield f'{tag}:process_is_the_steps_slot', k.process == S.status.slot
        yield f'{tag}:time', seq(k.time, time)
        yield f'{tag}:level', k.level == level
        yield f'{tag}:iter', seq(k.iter, it)
        yield f'{tag}:type', k.type == typ
        yield f'{tag}:restart_count_of_this_step', seq(k.num_restarts, S.status.restarts_in_a_row)

    def canary(self, st, old, result, exc):
        new = self.new_entries(st)
        if new:
            yield 'canary:keyed_with_other_steps_restart_count', seq(new[0][0].num_restarts, st.T.status.restarts_in_a_row)


class DefaultPostStep(_HookBase):
    name = 'DefaultHooks.post_step'
    target = (HK + 'default_hook.py', 'DefaultHooks.post_step')
    hook = ('default_hook.py', 'DefaultHooks')

    def post(self, st, old, result, exc):
        S, L = st.S, st.L
        yield 'returns_normally', exc is None
        if exc is not None:
            return
        new = self.new_entries(st)
        by = {}
        for k, v in new:
            by.setdefault(k.type, []).append((k, v))
        # the records the property needs are there; further record types (a hook may log more) are none of this clause's business
        yield 'record_types', {'niter', 'residual_post_step', '_recomputed'} <= set(by)
        if not {'niter', 'residual_post_step', '_recomputed'} <= set(by):
            return
        yield 'exactly_one_niter_and_one_residual_record', len(by['niter']) == 1 and len(by['residual_post_step']) == 1
        k, v = by['niter'][0]
        yield from self.key_clauses(st, k, L.status.time, -1, S.status.iter, 'niter', 'niter')
        yield 'niter:value_is_the_iteration_counter', seq(v, S.status.iter)
        k, v = by['residual_post_step'][0]
        yield from self.key_clauses(st, k, L.status.time, 0, -1, 'residual_post_step', 'residual')
        yield 'residual:value_is_the_levels_residual', seq(v, L.status.residual)
        rc = by['_recomputed']
        yield 'recomputed_markers_at_start_and_end_time', len(rc) <= 2 and all(bool(seq(v, S.status.restart)) is True or v is S.status.restart for _, v in rc)
        for k, v in rc:
            yield 'recomputed:restart_count', seq(k.num_restarts, S.status.restarts_in_a_row)
            yield 'recomputed:time', Or(seq(k.time, L.status.time), seq(k.time, L.status.time + L.params.dt))


class DefaultPostIteration(_HookBase):
    name = 'DefaultHooks.post_iteration'
    target = (HK + 'default_hook.py', 'DefaultHooks.post_iteration')
    hook = ('default_hook.py', 'DefaultHooks')
    callback = 'post_iteration'

    def post(self, st, old, result, exc):
        S, L = st.S, st.L
        yield 'returns_normally', exc is None
        if exc is not None:
            return
        new = [(k, v) for k, v in self.new_entries(st) if k.type == 'residual_post_iteration']
        yield 'one_record', len(new) == 1
        if len(new) == 1:
            k, v = new[0]
            yield from self.key_clauses(st, k, L.status.time, -1, S.status.iter, 'residual_post_iteration', 'res')
            yield 'value_is_the_levels_residual', seq(v, L.status.residual)


class _OneRecord(_HookBase):
    typ = None
    at_end = False

    def value(self, st):
        raise NotImplementedError

    def post(self, st, old, result, exc):
        S, L = st.S, st.L
        yield 'returns_normally', exc is None
        if exc is not None:
            return
        new = [(k, v) for k, v in self.new_entries(st) if k.type == self.typ]  # exactly one record OF THIS TYPE (other types are not this clause's business)
        yield 'exactly_one_record', len(new) == 1
        if len(new) != 1:
            return
        k, v = new[0]
        yield from self.key_clauses(st, k, L.status.time + L.params.dt if self.at_end else L.status.time, 0, S.status.iter, self.typ, self.typ)
        val = self.value(st)
        yield 'value', (v is val) if not isinstance(val, (int, float)) and not sym.is_sym(val) else seq(v, val)


class LogRestartsPostStep(_OneRecord):
    name = 'LogRestarts.post_step'
    target = (HK + 'log_restarts.py', 'LogRestarts.post_step')
    hook = ('log_restarts.py', 'LogRestarts')
    typ = 'restart'

    def extra_setup(self, st, mk):
        st.S.status.restart = st.inst.get('flag', True)

    def instances(self, tier):
        return [dict(flag=True), dict(flag=False)]

    def value(self, st):
        return int(st.inst['flag'])


class LogStepSizePostStep(_OneRecord):
    name = 'LogStepSize.post_step'
    target = (HK + 'log_step_size.py', 'LogStepSize.post_step')
    hook = ('log_step_size.py', 'LogStepSize')
    typ = 'dt'

    def value(self, st):
        return st.L.params.dt


class LogIterationsPostStep(_OneRecord):
    name = 'LogSDCIterations.post_step'
    target = (HK + 'log_work.py', 'LogSDCIterations.post_step')
    hook = ('log_work.py', 'LogSDCIterations')
    typ = 'k'
    at_end = True

    def value(self, st):
        return st.S.status.iter


class LogSolutionPostStep(_OneRecord):
    name = 'LogSolution.post_step'
    target = (HK + 'log_solution.py', 'LogSolution.post_step')
    hook = ('log_solution.py', 'LogSolution')
    typ = 'u'
    at_end = True
    stubs = ('sweeper.compute_end_point [C02 contract: new uend object]',)

    def extra_setup(self, st, mk):
        L = st.L

        def cep():
            L.uend = mk.vec('uend_fresh')
            st.computed = L.uend

        L.sweep.compute_end_point = cep
        L.uend = mk.vec('uend_stale')
        st.stale = L.uend

    def value(self, st):
        return getattr(st, 'computed', object())

    def post(self, st, old, result, exc):
        yield from super().post(st, old, result, exc)
        new = self.new_entries(st)
        if len(new) == 1:
            yield 'logged_value_is_the_end_value_computed_in_this_call_not_a_stale_one', new[0][1] is not st.stale


class LogEmbeddedErrorPostStep(_OneRecord):
    name = 'LogEmbeddedErrorEstimate.post_step'
    target = (HK + 'log_embedded_error_estimate.py', 'LogEmbeddedErrorEstimate.post_step')
    hook = ('log_embedded_error_estimate.py', 'LogEmbeddedErrorEstimate')
    typ = 'error_embedded_estimate'
    at_end = True

    def extra_setup(self, st, mk):
        type(st.L.status).add_attr('error_embedded_estimate')
        st.L.status.error_embedded_estimate = mk.real('e_est')
        mk.assume(st.L.status.error_embedded_estimate > 0, 'estimate present')

    def value(self, st):
        return st.L.status.error_embedded_estimate


class LogWorkPostStep(_HookBase):
    """recorded work = counter at post_step - counter at pre_step of the SAME slot, keyed by the step's own restart count"""

    name = 'LogWork.post_step'
    target = (HK + 'log_work.py', 'LogWork.post_step')
    hook = ('log_work.py', 'LogWork')

    def extra_setup(self, st, mk):
        from pySDC.core.problem import WorkCounter

        for S, n in ((st.S, 'S'), (st.T, 'T')):
            P = S.levels[0].prob
            P.work_counters = {'rhs': WorkCounter(), 'newton': WorkCounter()}
            for k in P.work_counters:
                P.work_counters[k].niter = mk.int(f'{n}.{k}_at_pre_step')
        st.more = {k: mk.int(f'more_{k}') for k in ('rhs', 'newton')}
        st.earlier = {k: mk.int(f'earlier_{k}') for k in ('rhs', 'newton')}
        st.between = {k: mk.int(f'between_{k}') for k in ('rhs', 'newton')}
        st.earlier_time = mk.real('S.time_of_the_earlier_step')

    def instances(self, tier):
        return [dict(history=h) for h in ('fresh hook', 'earlier step of the same slot', 'earlier run and work outside any step')]

    def prime(self, st):
        if st.inst['history'] != 'fresh hook':
            # the hook object has seen a complete step of the SAME slot before (an earlier block, or an earlier run() of the same controller)
            t_now = st.L.status.time
            st.L.status.time = st.earlier_time
            st.h.pre_step(st.S, 0)
            for k, c in st.S.levels[0].prob.work_counters.items():
                c.niter = c.niter + st.earlier[k]
            st.h.post_step(st.S, 0)
            st.L.status.time = t_now
        if st.inst['history'] == 'earlier run and work outside any step':
            # evaluations made between two runs (user code, u_exact, error hooks ...) belong to no step
            st.h.post_run(st.S, 0)
            for k, c in st.S.levels[0].prob.work_counters.items():
                c.niter = c.niter + st.between[k]
            st.h.pre_run(st.S, 0)
        st.h.pre_step(st.T, 0)
        st.h.pre_step(st.S, 0)
        # work happens between pre_step and post_step; the hook also sees callbacks of the other step in between
        for k, c in st.S.levels[0].prob.work_counters.items():
            c.niter = c.niter + st.more[k]
        for k, c in st.T.levels[0].prob.work_counters.items():
            c.niter = c.niter + 5
        st.h.post_iteration(st.T, 0)

    def post(self, st, old, result, exc):
        S, L = st.S, st.L
        yield 'returns_normally', exc is None
        if exc is not None:
            return
        new = [(k, v) for k, v in self.new_entries(st) if k.type in ('work_newton', 'work_rhs')]
        yield 'one_record_per_counter', sorted(k.type for k, _ in new) == ['work_newton', 'work_rhs']
        for k, v in new:
            yield from self.key_clauses(st, k, L.status.time + L.params.dt, 0, S.status.iter, k.type, k.type)
            yield f'{k.type}:value_is_work_since_pre_step_of_this_slot', seq(v, st.more[k.type[5:]])


# ------------------------------------------------------------------------------------------------ base class bookkeeping
class HooksBase(Contract):
    prop = 'C14'
    name = 'Hooks.add_to_stats/increment_stats/reset_stats + callbacks'
    target = ('pySDC/core/hooks.py', 'Hooks.add_to_stats')
    label = 'proved'
    native = True

    def instances(self, tier):
        from contracts.ctrl import HOOK_NAMES

        return [dict(cb=n) for n in HOOK_NAMES] + [dict(cb='increment'), dict(cb='reset'), dict(cb='none_step')]

    def build(self, inst, mk):
        from pySDC.core.hooks import Hooks

        S, T = mk_two_steps(mk)
        h = Hooks()
        st = State(S=S, T=T, h=h, inst=inst, v=mk.real('value'), w=mk.real('value2'))
        cb = inst['cb']

        def call():
            h.pre_step(T, 0)
            if cb == 'increment':
                h.pre_step(S, 0)
                h.increment_stats(value=st.v, process=0, type='x')
                h.increment_stats(value=st.w, process=0, type='x')
                h.increment_stats(value=st.w, initialize=7, process=1, type='x')
            elif cb == 'reset':
                h.add_to_stats(value=st.v, process=0, type='x')
                h.reset_stats()
            elif cb == 'none_step':
                # history inside the instance (must not depend on what else ran in this process): ANOTHER hook object and this one have
                # recorded entries with every field given before
                h0 = Hooks()
                h0.pre_step(T, 0)
                h0.add_to_stats(value=st.w, process=3, time=S.time, level=0, iter=S.status.iter, sweep=1, type='y')
                h.add_to_stats(value=st.w, process=2, time=T.time, level=1, iter=T.status.iter, sweep=2, type='y')
                h.reset_stats()
                h.post_setup(None, None)
                h.add_to_stats(value=st.v, process=0, type='x')
            else:
                kw = dict(add_to_stats=True) if cb == 'post_comm' else {}
                getattr(h, cb)(S, 0, **kw)
                h.add_to_stats(value=st.v, process=3, time=S.time, level=0, iter=S.status.iter, sweep=1, type='x')
            return h.return_stats()

        st.call = call
        return st

    def post(self, st, old, result, exc):
        cb = st.inst['cb']
        yield 'returns_normally', exc is None
        if exc is not None:
            return
        if cb == 'reset':
            yield 'reset_empties_the_record', result == {}
            return
        if cb == 'increment':
            ks = sorted(result, key=lambda k: k.process)
            yield 'two_keys', len(ks) == 2
            yield 'increment_adds', seq(result[ks[0]], st.v + st.w)
            yield 'initialize_used_for_new_key', result[ks[1]] == 7
            yield 'restart_count_in_key', seq(ks[0].num_restarts, st.S.status.restarts_in_a_row)
            return
        yield 'one_record', len(result) == 1
        (k, v), = result.items()
        yield 'value_stored', v is st.v
        if cb == 'none_step':
            yield 'no_step_means_zero_restarts', k.num_restarts == 0
            yield 'unspecified_fields_are_None', k.time is None and k.level is None and k.iter is None and k.sweep is None
        else:
            yield 'every_callback_refreshes_the_restart_count_from_the_step_it_is_called_for', seq(k.num_restarts, st.S.status.restarts_in_a_row)
            yield 'given_fields_stored', k.process == 3 and k.type == 'x' and k.level == 0 and k.sweep == 1

    def canary(self, st, old, result, exc):
        if st.inst['cb'] not in ('reset', 'increment', 'none_step'):
            (k, v), = result.items()
            yield 'canary:stale_restart_count', seq(k.num_restarts, st.T.status.restarts_in_a_row)
        elif st.inst['cb'] == 'reset':
            yield 'canary:not_empty', result != {}
        else:
            yield 'canary:three_records', len(result) == 3


class ReturnStats(Contract):
    prop = 'C14'
    name = 'Controller.return_stats'
    target = ('pySDC/core/controller.py', 'Controller.return_stats')
    label = 'instance-proved'
    native = True

    def build(self, inst, mk):
        from contracts import ctrl
        from pySDC.implementations.hooks.log_restarts import LogRestarts

        c, tr = ctrl.make_controller(mk, 1)
        hs = c.hooks
        st = State(c=c, hs=hs, a=mk.real('a'), b=mk.real('b'))
        hs[0].add_to_stats(value=st.a, process=0, type='x')
        h2 = LogRestarts()
        h2.add_to_stats(value=st.b, process=0, type='y')
        c._Controller__hooks = hs + [h2]
        st.call = c.return_stats
        return st

    def post(self, st, old, result, exc):
        yield 'returns_normally', exc is None
        if exc is None:
            yield 'union_of_all_hook_records', sorted(k.type for k in result) == ['x', 'y'] and set(result.values()) == {st.a, st.b}

    def canary(self, st, old, result, exc):
        yield 'canary:first_hook_only', len(result) == 1


# ------------------------------------------------------------------------------------------------ filter / sort (bounded)
def spec_filter(stats, recomputed=None, **kw):
    res = {k: v for k, v in stats.items() if all(getattr(k, a) == b for a, b in kw.items() if b is not None)}
    if recomputed is not None:
        # only the highest restart generation per (time, type) survives ...
        best = {}
        for k in res:
            best[(k.time, k.type)] = max(best.get((k.time, k.type), 0), k.num_restarts)
        res = {k: v for k, v in res.items() if k.num_restarts == best[(k.time, k.type)] or not any(q.time == k.time and q.num_restarts > 0 for q in res)}
        # ... and entries at a time whose surviving `_recomputed` marker is true are removed
        if kw.get('type') != '_recomputed':
            marks = {k: v for k, v in stats.items() if k.type == '_recomputed'}
            bestm = {}
            for k in marks:
                bestm[k.time] = max(bestm.get(k.time, 0), k.num_restarts)
            bad_times = {k.time for k, v in marks.items() if v and (k.num_restarts == bestm[k.time] or not any(q.time == k.time and q.num_restarts > 0 for q in marks))}
            res = {k: v for k, v in res.items() if k.time not in bad_times}
    return res


def bounded_filter_sort(tier, seed):
    from pySDC.core.hooks import Entry
    from pySDC.helpers.stats_helper import filter_stats, sort_stats, get_sorted, get_list_of_types

    def E(p, t, ty, nr):
        return Entry(process=p, process_sweeper=None, time=t, level=0, iter=1, sweep=1, type=ty, num_restarts=nr)

    def Mk(t, nr):  # the restart markers as DefaultHooks writes them: no slot, level, iteration or sweep
        return Entry(process=-1, process_sweeper=None, time=t, level=-1, iter=-1, sweep=-1, type='_recomputed', num_restarts=nr)

    keys = [E(p, t, ty, nr) for p in (0, 1) for t in (0.0, 0.5) for ty in ('u', '_recomputed') for nr in (0, 1, 2)] + [Mk(t, nr) for t in (0.0, 0.5) for nr in (0, 1, 2)]
    top = 3 if tier == 'quick' else 4
    n = bad = 0
    first = []
    rng = np.random.RandomState(seed)
    combos = []
    for r in range(0, top + 1):
        cs = list(itertools.combinations(range(len(keys)), r))
        if len(cs) > 1500:
            cs = [cs[i] for i in rng.choice(len(cs), 1500, replace=False)]
        combos += cs
    for idx in combos:
        stats = {}
        for j, i in enumerate(idx):
            k = keys[i]
            stats[k] = (bool((i + j) % 2) if k.type == '_recomputed' else float(i))
        for kw in (dict(), dict(type='u'), dict(type='u', time=0.5), dict(process=1), dict(type='u', recomputed=False), dict(recomputed=False), dict(type='_recomputed', recomputed=False),
                   # recomputed values filtered out TOGETHER with further keys (the markers carry none of them)
                   dict(type='u', recomputed=False, process=0), dict(type='u', recomputed=False, level=0), dict(recomputed=False, process=1), dict(type='u', recomputed=False, time=0.5),
                   dict(type='u', recomputed=False, iter=1, sweep=1)):
            n += 1
            got = filter_stats(dict(stats), **kw)
            want = spec_filter(stats, **kw)
            if got != want:
                bad += 1
                if len(first) < 3:
                    first.append(dict(stats={str(k): v for k, v in stats.items()}, kwargs=str(kw), got=[str(k) for k in got], want=[str(k) for k in want]))
        for sortby in ('time', 'num_restarts', 'process'):
            n += 1
            s = sort_stats(stats, sortby)
            ok = [a for a, _ in s] == sorted(getattr(k, sortby) for k in stats) and sorted(map(str, (v for _, v in s))) == sorted(map(str, stats.values()))
            ok = ok and get_sorted(stats, sortby=sortby, type='u') == sort_stats(filter_stats(stats, type='u'), sortby)
            if not ok:
                bad += 1
                if len(first) < 3:
                    first.append(dict(sort=sortby, stats=[str(k) for k in stats]))
        n += 1
        if sorted(get_list_of_types(stats)) != sorted(set(k.type for k in stats)):
            bad += 1
    # keys that differ by little: matching is exact, never "close enough" (times of neighbouring small steps late in a run)
    near = [(1000.0, 1000.0005), (1000.0, 1000.0 + 2.0 ** -40), (1e-9, 2e-9), (0.1 + 0.2, 0.3), (5.0, np.nextafter(5.0, 6.0)), (0.0, 1e-300)]
    for ta, tb in near:
        for nr_b in (0, 1):
            stats = {E(0, ta, 'u', 0): 1.0, E(0, tb, 'u', nr_b): 2.0, E(0, ta, '_recomputed', 0): False, E(0, tb, '_recomputed', nr_b): False}
            for kw in (dict(type='u', time=ta), dict(type='u', time=tb), dict(time=tb), dict(type='u', recomputed=False), dict(recomputed=False)):
                n += 1
                got, want = filter_stats(dict(stats), **kw), spec_filter(stats, **kw)
                if got != want:
                    bad += 1
                    if len(first) < 3:
                        first.append(dict(stats={str(k): v for k, v in stats.items()}, kwargs=str(kw), got=[str(k) for k in got], want=[str(k) for k in want]))
    ob = dict(name='bounded:filter_sort_match_specification', status='proved' if not bad else 'refuted', backend='enumeration', seconds=0.0, kind='bounded', size=0,
              model=dict(first=first) if bad else None, reason='', path=0, counted=False)
    return dict(contract='bounded:stats_helper.filter_stats/sort_stats', prop='C14', inst={}, label='bounded', kind='bounded', obligations=[ob], canaries=[], paths=1, status='ok',
                bounded=dict(what='filter_stats (plain keys and recomputed=False) / sort_stats / get_sorted / get_list_of_types against their specification',
                             bound=f'dictionaries with <= {top} entries over 30 keys (2 slots x 2 times x 2 types x 3 restart generations, plus slot-less restart markers), 12 keyword combinations', cases=n, failures=bad))


class _ErrBase(_HookBase):
    """error logging hooks: records keyed by the step's END time, own slot, level, iteration, restart count; the value is the norm of
    (reference solution at that time - freshly computed end value); local error: reference started from a COPY of the step's start value at the step's start time"""

    stubs = ('sweeper.compute_end_point [C02 contract: new uend object]', 'Problem.u_exact(t[, u_init, t_init]) [uninterpreted reference solution; arguments recorded]',
             'abs(dtype_u) [uninterpreted norm]')
    callback = 'post_step'
    suffix = '_post_step'

    def extra_setup(self, st, mk):
        from contracts.common import cp

        L = st.L

        def cep():
            L.uend = mk.vec('uend_fresh')
            st.computed = cp(L.uend)

        L.sweep.compute_end_point = cep
        L.uend = mk.vec('uend_stale')
        L.u[0] = mk.vec('u0')
        st.u0_obj, st.u0 = L.u[0], cp(L.u[0])
        st.exact_calls = []

        def u_exact(t=None, u_init=None, t_init=None, **kw):
            r = mk.vec(f'uex{len(st.exact_calls)}')
            st.exact_calls.append(dict(t=t, u_init=None if u_init is None else cp(u_init), u_init_obj=u_init, t_init=t_init, out=cp(r)))
            return r

        L.prob.u_exact = u_exact

    def make_hook(self):
        return cls_of(HK + 'log_errors.py', self._inst['cls'])()

    def build(self, inst, mk):
        self._inst = inst
        self.callback = inst['cb']
        return _HookBase.build(self, inst, mk)

    def prime(self, st):
        # history: the hook object was last called back for the OTHER step
        st.h.pre_step(st.S, 0)
        st.h.pre_comm(st.T, 0)

    def by_type(self, st):
        out = {}
        for k, v in self.new_entries(st):
            out.setdefault(k.type, []).append((k, v))
        return out


class LogGlobalError(_ErrBase):
    name = 'LogGlobalErrorPostStep.post_step / LogGlobalErrorPostIter.post_iteration'
    target = (HK + 'log_errors.py', 'LogError.log_global_error')

    def instances(self, tier):
        return [dict(cls='LogGlobalErrorPostStep', cb='post_step', suffix='_post_step'), dict(cls='LogGlobalErrorPostIter', cb='post_iteration', suffix='_post_iteration')]

    def post(self, st, old, result, exc):
        S, L, sfx = st.S, st.L, st.inst['suffix']
        yield 'returns_normally', exc is None
        if exc is not None:
            return
        by = self.by_type(st)
        by.pop('_recomputed', None)
        by.pop('niter', None)
        by.pop('residual_post_step', None)
        by.pop('residual_post_iteration', None)
        yield 'record_types', {f'e_global{sfx}', f'e_global_rel{sfx}'} <= set(by) and all(len(by[t]) == 1 for t in (f'e_global{sfx}', f'e_global_rel{sfx}') if t in by)
        if not {f'e_global{sfx}', f'e_global_rel{sfx}'} <= set(by):
            return
        yield 'reference_solution_asked_at_the_end_time_of_the_step', len(st.exact_calls) == 1 and bool(seq(st.exact_calls[0]['t'], L.status.time + L.params.dt)) is True and st.exact_calls[0]['u_init'] is None
        if len(st.exact_calls) != 1:
            return
        ref = st.exact_calls[0]['out']
        k, v = by[f'e_global{sfx}'][0]
        yield from self.key_clauses(st, k, L.status.time + L.params.dt, 0, S.status.iter, f'e_global{sfx}', 'abs')
        yield 'abs:value_is_norm_of_reference_minus_fresh_end_value', seq(v, abs(ref - st.computed))
        k, v = by[f'e_global_rel{sfx}'][0]
        yield from self.key_clauses(st, k, L.status.time + L.params.dt, 0, S.status.iter, f'e_global_rel{sfx}', 'rel')
        yield 'rel:value_is_relative_to_the_reference', seq(v, abs(ref - st.computed) / abs(ref))

    def canary(self, st, old, result, exc):
        by = self.by_type(st)
        k, v = by[f"e_global{st.inst['suffix']}"][0]
        yield 'canary:keyed_at_start_time', seq(k.time, st.L.status.time)


class LogLocalError(_ErrBase):
    name = 'LogLocalErrorPostStep.post_step / LogLocalErrorPostIter.post_iteration'
    target = (HK + 'log_errors.py', 'LogError.log_local_error')
    def instances(self, tier):
        return [dict(cls='LogLocalErrorPostStep', cb='post_step', suffix='_post_step'), dict(cls='LogLocalErrorPostIter', cb='post_iteration', suffix='_post_iteration')]

    def post(self, st, old, result, exc):
        S, L, sfx = st.S, st.L, st.inst['suffix']
        yield 'returns_normally', exc is None
        if exc is not None:
            return
        by = self.by_type(st)
        recs = by.get(f'e_local{sfx}', [])
        yield 'one_local_error_record', len(recs) == 1
        if len(recs) != 1:
            return
        yield 'reference_started_from_the_steps_start_value_and_time', (len(st.exact_calls) == 1 and bool(seq(st.exact_calls[0]['t'], L.status.time + L.params.dt)) is True and st.exact_calls[0]['u_init'] is not None
                                                                        and bool(veq(st.exact_calls[0]['u_init'], st.u0)) is True and bool(seq(st.exact_calls[0]['t_init'], L.status.time)) is True)
        if len(st.exact_calls) != 1:
            return
        yield 'reference_gets_a_copy_of_the_start_value', st.exact_calls[0]['u_init_obj'] is not st.u0_obj and L.u[0] is st.u0_obj and bool(veq(L.u[0], st.u0)) is True
        k, v = recs[0]
        yield from self.key_clauses(st, k, L.status.time + L.params.dt, 0, S.status.iter, f'e_local{sfx}', 'local')
        yield 'value_is_norm_of_reference_minus_fresh_end_value', seq(v, abs(st.exact_calls[0]['out'] - st.computed))

    def canary(self, st, old, result, exc):
        yield 'canary:no_reference_call', len(st.exact_calls) == 0


class LogGlobalErrorPostRun(_ErrBase):
    """LogGlobalErrorPostRun: post_step remembers the END time and the restart count of the step whose solution was stored; between that callback and
    post_run the convergence controllers change the step size and reset the restart counter (arbitrary new values here); post_run on the LAST step then
    records e_global_post_run / e_global_rel_post_run keyed by the REMEMBERED end time and restart count (the key under which the solution of that step
    is filed), value = norm of (end value - reference solution at the remembered time); other steps / levels record nothing"""

    name = 'LogGlobalErrorPostRun.post_step + post_run'
    target = (HK + 'log_errors.py', 'LogGlobalErrorPostRun.post_run')
    callback = 'post_run'

    def instances(self, tier):
        return [dict(cls='LogGlobalErrorPostRun', cb='post_run', last=True, level=0), dict(cls='LogGlobalErrorPostRun', cb='post_run', last=False, level=0),
                dict(cls='LogGlobalErrorPostRun', cb='post_run', last=True, level=1)]

    def build(self, inst, mk):
        st = _ErrBase.build(self, inst, mk)
        st.call = lambda: st.h.post_run(st.S, inst['level'])
        return st

    def prime(self, st):
        S, T, L, mk = st.S, st.T, st.L, st.mk
        S.status.last, T.status.last = st.inst['last'], False
        st.h.pre_run(S, 0)
        st.h.pre_step(T, 0)
        st.h.pre_step(S, 0)
        st.h.post_step(T, 0)
        st.h.post_step(S, 0)  # the last step of the block reports last
        st.t_end, st.restarts = L.status.time + L.params.dt, S.status.restarts_in_a_row
        # prepare_next_block of the convergence controllers: new step size, restart counter reset / changed
        L.params.dt = mk.real('dt_after_the_last_step')
        S.status.restarts_in_a_row = mk.int('restarts_after_the_last_step')
        T.levels[0].params.dt = mk.real('T.dt_after_the_last_step')
        st.h.post_run(T, 0) if not T.status.last else None

    def extra_setup(self, st, mk):
        _ErrBase.extra_setup(self, st, mk)
        st.mk = mk

    def post(self, st, old, result, exc):
        S, L = st.S, st.L
        yield 'returns_normally', exc is None
        if exc is not None:
            return
        by = self.by_type(st)
        for junk in ('_recomputed', 'niter', 'residual_post_step', 'residual_post_iteration', 'timing_run', 'timing_setup'):
            by.pop(junk, None)
        if not (st.inst['last'] and st.inst['level'] == 0):
            yield 'only_the_last_step_on_level_0_records', not any(t.startswith('e_global') for t in by)
            return
        yield 'record_types', {t for t in by if t.startswith('e_global')} == {'e_global_post_run', 'e_global_rel_post_run'} and all(len(v) == 1 for t, v in by.items() if t.startswith('e_global'))
        if {t for t in by if t.startswith('e_global')} != {'e_global_post_run', 'e_global_rel_post_run'}:
            return
        yield 'reference_solution_asked_at_the_remembered_end_time', len(st.exact_calls) == 1 and bool(seq(st.exact_calls[0]['t'], st.t_end)) is True and st.exact_calls[0]['u_init'] is None
        if len(st.exact_calls) != 1:
            return
        ref = st.exact_calls[0]['out']
        for typ, val in (('e_global_post_run', abs(L.uend - ref)), ('e_global_rel_post_run', abs(L.uend - ref) / abs(ref))):
            k, v = by[typ][0]
            yield f'{typ}:process_is_the_steps_slot', k.process == S.status.slot
            yield f'{typ}:time_is_the_end_time_remembered_at_post_step', seq(k.time, st.t_end)
            yield f'{typ}:level', k.level == 0
            yield f'{typ}:restart_count_is_the_one_remembered_at_post_step', seq(k.num_restarts, st.restarts)
            yield f'{typ}:value', seq(v, val)

    def canary(self, st, old, result, exc):
        by = self.by_type(st)
        if 'e_global_post_run' in by:
            yield 'canary:keyed_with_the_new_step_size', seq(by['e_global_post_run'][0][0].time, st.L.status.time + st.L.params.dt)
        else:
            yield 'canary:records_something', any(t.startswith('e_global') for t in by)


class AddHook(Contract):
    """Controller.add_hook: a hook class is instantiated and appended unless an instance of EXACTLY that class is registered already
    (a registered subclass or superclass instance is a different hook and does not suppress it); the registered hooks are otherwise untouched"""

    prop = 'C14'
    name = 'Controller.add_hook'
    target = ('pySDC/core/controller.py', 'Controller.add_hook')
    label = 'instance-proved'
    native = False

    def instances(self, tier):
        return [dict(present=p) for p in ('none', 'same', 'subclass', 'superclass', 'subclass_and_same')]

    def build(self, inst, mk):
        from pySDC.core.hooks import Hooks
        from contracts import ctrl

        c, tr = ctrl.make_controller(mk, 1)

        class Base(Hooks):
            pass

        class Mid(Base):
            pass

        class Sub(Mid):
            pass

        pre = dict(none=[], same=[Mid], subclass=[Sub], superclass=[Base], subclass_and_same=[Sub, Mid])[inst['present']]
        c._Controller__hooks = list(c.hooks) + [k() for k in pre]
        st = State(c=c, inst=inst, Mid=Mid, before=list(c.hooks), call=lambda: c.add_hook(Mid))
        # the parameter object holds the USER's hook list (the constructor stores that very list back into the user's dictionary)
        st.param_list = c.params.hook_class
        st.param_list_before = list(c.params.hook_class)
        return st

    def post(self, st, old, result, exc):
        c, inst = st.c, st.inst
        yield 'returns_normally', exc is None
        if exc is not None:
            return
        had = inst['present'] in ('same', 'subclass_and_same')
        now = list(c.hooks)
        yield 'registered_hooks_kept_in_order', now[: len(st.before)] == st.before and all(a is b for a, b in zip(now, st.before))
        if had:
            yield 'already_registered:nothing_added', len(now) == len(st.before)
        else:
            yield 'not_registered:one_instance_of_exactly_that_class_appended', len(now) == len(st.before) + 1 and type(now[-1]) is st.Mid
        yield 'exactly_one_instance_of_the_class_afterwards', sum(1 for h in now if type(h) is st.Mid) == 1
        # frame: hooks added later (by convergence controllers, by the user) do not leak into the parameters, which are shared with the caller's dictionary
        yield 'frame:hook_list_of_the_parameters_untouched', c.params.hook_class is st.param_list and list(st.param_list) == st.param_list_before

    def canary(self, st, old, result, exc):
        yield 'canary:never_adds', len(st.c.hooks) == len(st.before) and st.inst['present'] not in ('same', 'subclass_and_same')


CONTRACTS = [AddHook, LogGlobalError, LogLocalError, LogGlobalErrorPostRun, HooksBase, DefaultPostStep, DefaultPostIteration, LogRestartsPostStep, LogStepSizePostStep, LogIterationsPostStep,
             LogSolutionPostStep, LogEmbeddedErrorPostStep, LogWorkPostStep, ReturnStats]
EXTRAS = [bounded_filter_sort]
UNDECIDED = ['uniqueness of keys across accepted steps follows from C06 (strictly increasing start times) and C09 (restart counter): composition not machine-checked',
             'log_errors hooks need an exact solution: not under contract', 'LogToFile / LogToPickleFile write files: see C16']
