r"""
C09 (MPI flavours, per rank, sequential semantics) -- BasicRestartingMPI.determine_restart / prepare_next_block.

Restart requests travel down the ranks as a message (restart, budget_exhausted, crash) from rank j to j+1:
    first rank : budget_exhausted := restarts_in_a_row >= max_restarts;   restart' := restart and not budget_exhausted;
                 crash := budget_exhausted and restart and crash_after_max_restarts
    other ranks: receive (e, m, c) from the predecessor (unless it is done already -- then the values received last are used);
                 restart' := (restart or e) and not m;   crash := c
    every rank but the last forwards (restart', m, crash);   crash -> ConvergenceError
By induction over the ranks this is the serial contract of BasicRestartingNonMPI.determine_restart (restart'_j = some rank <= j asked and the
budget of the first step is not exhausted).  prepare_next_block: the retry counter of the step that will sit in slot k of the next block is
(old counter + 1 if it asked for a restart else 0) of the step in slot k + restart_from, sent by that rank and received by rank k.
Point-to-point buffers are numpy arrays, so the received flags are enumerated (all 8 triples); own flags and counters are symbolic.
"""

import itertools
import numpy as np

from vc import sym
from vc.sym import And, Or, Not, Implies, Iff
from vc.contract import Contract, State, seq
from contracts.C06_mpi import setup as mpi_setup, GhostComm, ghost_mpi4py

BR = 'pySDC/implementations/convergence_controller_classes/basic_restarting.py'


class P2PComm(GhostComm):
    """adds buffer-based point-to-point calls; what arrives is fixed per proof instance"""

    incoming = None

    def Recv(self, buffer, source=None, tag=None, **kw):
        buf = buffer[0]
        buf[:] = self.incoming
        self.log.append(('Recv', source, tag, np.array(buf)))

    def Send(self, buffer, dest=None, tag=None, **kw):
        self.log.append(('Send', dest, tag, np.array(buffer[0])))

    def Isend(self, buffer, dest=None, tag=None, **kw):
        self.log.append(('Isend', dest, tag, np.array(buffer[0])))


class _Base(Contract):
    prop = 'C09'
    label = 'instance-proved'
    native = False
    stubs = ('mpi4py communicator [ghost: sequential contracts; incoming point-to-point data enumerated]',)
    assumptions = ('per-rank sequential semantics; message matching across ranks is C08 (not applicable)',)

    def rs(self):
        return [(0, 1), (0, 2), (1, 2), (1, 3), (2, 3)]

    def all_instances(self, tier):
        # also on two-level steps whose coarse level holds arbitrary OTHER step sizes / proposals (decisions read the finest level)
        out = list(self.instances(tier))
        return out + [dict(i, nlevels=2) for i in out if i['size'] <= 2 and 'nlevels' not in i]

    def get(self, mk, inst):
        st = mpi_setup(mk, dict(rank=inst['rank'], size=inst['size'], nlevels=inst.get('nlevels', 1)))
        for l, Lc in enumerate(st.S.levels[1:], start=1):
            Lc.params.dt = mk.real(f'coarse{l}.dt')
            mk.assume(Lc.params.dt > 0, 'dt>0')
            Lc.status.dt_new = mk.real(f'coarse{l}.dt_new')
            mk.assume(Lc.status.dt_new > 0, 'proposal>0')
            Lc.params.dt_initial = mk.real(f'coarse{l}.dt_initial')
        st.inst = inst
        B = next(c for c in st.real_ccs if type(c).__name__ == 'BasicRestartingMPI')
        st.B = B
        S = st.S
        r, n = inst['rank'], inst['size']
        st.comm = P2PComm(r, n, mk, st.log, name='active')
        S.status.slot, S.status.time_size = r, n
        S.status.first, S.status.last = r == 0, r == n - 1
        type(S.status).add_attr('restarts_in_a_row')
        for L in S.levels:
            L.status.time = 0.5  # only formatted into log messages
        return st


class DetermineRestartMPI(_Base):
    name = 'BasicRestartingMPI.determine_restart'
    target = (BR, 'BasicRestartingMPI.determine_restart')
    from pySDC.core.errors import ConvergenceError

    expected_exceptions = (ConvergenceError,)

    def instances(self, tier):
        out = []
        for r, n in self.rs():
            for crash_cfg in (True, False):
                if r == 0:
                    out.append(dict(rank=r, size=n, crash_cfg=crash_cfg, incoming=None, prev_done=False))
                else:
                    for inc in itertools.product((False, True), repeat=3):
                        out.append(dict(rank=r, size=n, crash_cfg=crash_cfg, incoming=list(inc), prev_done=False))
                    out.append(dict(rank=r, size=n, crash_cfg=crash_cfg, incoming=None, prev_done=True))
        return out

    def build(self, inst, mk):
        st = self.get(mk, inst)
        S, B = st.S, st.B
        B.params.crash_after_max_restarts = inst['crash_cfg']
        B.params.restart_from_first_step = False
        B.params.max_restarts = mk.int('max_restarts')
        S.status.restarts_in_a_row = mk.int('restarts_in_a_row')
        S.status.restart = mk.bool('restart')
        S.status.prev_done = inst['prev_done']
        st.restart_old = S.status.restart
        st.comm.incoming = np.array(inst['incoming'], dtype=bool) if inst['incoming'] is not None else None
        # what the buffers held from the last call (used when nothing is received)
        st.buf_e, st.buf_m = mk.bool('buffer_restart_earlier'), mk.bool('buffer_max_reached')
        B.buffers.restart_earlier, B.buffers.max_restart_reached = st.buf_e, st.buf_m
        st.call = lambda: B.determine_restart(st.c, S, comm=st.comm)
        return st

    def post(self, st, old, result, exc):
        S, B, inst, log = st.S, st.B, st.inst, st.log
        r, n = inst['rank'], inst['size']
        recvs = [e for e in log if e[0] == 'Recv']
        sends = [e for e in log if e[0] in ('Send', 'Isend')]
        if r == 0:
            reached = S.status.restarts_in_a_row >= B.params.max_restarts
            e_in, m_in = False, reached
            crash = And(reached, st.restart_old, inst['crash_cfg'])
            yield 'first_rank_receives_nothing', not recvs
        elif inst['prev_done']:
            e_in, m_in, crash = st.buf_e, st.buf_m, False
            yield 'predecessor_done:nothing_received', not recvs
        else:
            yield 'receives_once_from_the_predecessor', len(recvs) == 1 and recvs[0][1] == r - 1
            e_in, m_in, crash = (bool(x) for x in inst['incoming'])
        yield 'ConvergenceError_iff_crash_flag', Iff(isinstance(exc, self.ConvergenceError), crash)
        want = And(Or(st.restart_old, e_in), Not(m_in))
        yield 'restart_is_(own_or_earlier)_and_budget_not_exhausted', Iff(S.status.restart, want)
        if r < n - 1:
            yield 'forwards_one_message_to_the_next_rank', len(sends) == 1 and sends[0][1] == r + 1
            if len(sends) == 1:
                b = sends[0][3]
                yield 'message_is_(restart,budget_exhausted,crash)', And(Iff(bool(b[0]), want), Iff(bool(b[1]), m_in), Iff(bool(b[2]), crash))
        else:
            yield 'last_rank_sends_nothing', not sends

    def canary(self, st, old, result, exc):
        if st.inst['rank'] == 0 or st.inst['prev_done'] or st.inst['incoming'][0] or st.inst['incoming'][1]:
            yield 'canary:restart_flag_unchanged', Iff(st.S.status.restart, st.restart_old)


class PrepareNextBlockMPI(_Base):
    name = 'BasicRestartingMPI.prepare_next_block'
    target = (BR, 'BasicRestartingMPI.prepare_next_block')

    def instances(self, tier):
        out = []
        for r, n in self.rs():
            for k in range(n):  # first restarted rank (n = nobody)
                for restart in (False, True):
                    if restart != (r >= k):
                        continue  # requests are upward closed (determine_restart): rank r asked iff r >= k
                    out.append(dict(rank=r, size=n, restart_from=k, restart=restart, rir=2, incoming=5))
            out.append(dict(rank=r, size=n, restart_from=n - 1 if r < n - 1 else n - 1, restart=False, rir=2, incoming=5, nobody=True))
        return out

    def build(self, inst, mk):
        st = self.get(mk, inst)
        S, B = st.S, st.B
        r, n, k = inst['rank'], inst['size'], inst['restart_from']
        S.status.restart = inst['restart']
        S.status.restarts_in_a_row = inst['rir']
        st.comm.incoming = np.array([inst['incoming']])
        nobody = inst.get('nobody', False)

        def allgather(x):
            # the other ranks contribute their slot if they asked for a restart, time_size - 1 otherwise
            vals = [(j if (j >= k and not nobody) else n - 1) for j in range(n)]
            vals[r] = x
            st.log.append(('allgather', x, vals))
            return vals

        st.comm.allgather = allgather
        st.call = lambda: B.prepare_next_block(st.c, S, n, mk.real('time'), mk.real('Tend'), comm=st.comm)
        return st

    def post(self, st, old, result, exc):
        S, inst, log = st.S, st.inst, st.log
        r, n = inst['rank'], inst['size']
        yield 'returns_normally', exc is None
        if exc is not None:
            return
        ag = [e for e in log if e[0] == 'allgather']
        yield 'contributes_slot_if_restarted_else_last_slot', len(ag) == 1 and ag[0][1] == (r if inst['restart'] else n - 1)
        k = min(ag[0][2]) if ag else None
        sends = [e for e in log if e[0] in ('Send', 'Isend')]
        recvs = [e for e in log if e[0] == 'Recv']
        if r >= k:
            yield 'counter_sent_to_the_rank_that_takes_over_my_step', len(sends) == 1 and sends[0][1] == r - k and int(sends[0][3][0]) == (inst['rir'] + 1 if inst['restart'] else 0)
        else:
            yield 'accepted_steps_send_nothing', not sends
        if r + k < n:
            yield 'counter_received_from_the_rank_whose_step_i_take_over', len(recvs) == 1 and recvs[0][1] == r + k and S.status.restarts_in_a_row == inst['incoming']
        else:
            yield 'fresh_step_starts_with_zero_retries', not recvs and S.status.restarts_in_a_row == 0

    def canary(self, st, old, result, exc):
        yield 'canary:counter_unchanged', st.S.status.restarts_in_a_row == st.inst['rir']


CONTRACTS = [DetermineRestartMPI, PrepareNextBlockMPI]


# ------------------------------------------------------------------------------------------ SpreadStepSizesBlockwiseMPI
SS = 'pySDC/implementations/convergence_controller_classes/spread_step_sizes.py'


class SpreadComm(P2PComm):
    def bcast(self, x, root=0):
        if isinstance(x, list) and root != self.rank:
            self.n += 1
            r = [self.mk.real(f'{self.name}.bc_list{self.n}_{i}') for i in range(len(x))]
            for v in r:
                self.mk.assume(v > 0, 'broadcast step sizes are positive')
            self.log.append(('bcast', self, x, root, r))
            return r
        return super().bcast(x, root)


class SpreadStepSizesMPI(_Base):
    """per rank: the step size of the next block is what the rank `spread_from` broadcasts (first restarted rank, or the one with the smallest
    proposal at or after it, or the last rank when nobody restarts); that rank contributes min(its proposal or its step size, max(dt_max, dt_initial))
    with dt_max = (Tend - block end time)/size when the run is told to hit Tend exactly; every level of the step gets the broadcast value"""

    name = 'SpreadStepSizesBlockwiseMPI.prepare_next_block'
    target = (SS, 'SpreadStepSizesBlockwiseMPI.prepare_next_block')

    def instances(self, tier):
        out = []
        for r, n in self.rs():
            for first_restarted in list(range(n)) + [None]:
                for overwrite in (True, False):
                    for sffr in (True, False):
                        out.append(dict(rank=r, size=n, k=first_restarted, overwrite=overwrite, spread_from_first_restarted=sffr))
        return out

    def build(self, inst, mk):
        st = self.get(mk, inst)
        S = st.S
        r, n, k = inst['rank'], inst['size'], inst['k']
        C = next(c for c in st.real_ccs if type(c).__name__ == 'SpreadStepSizesBlockwiseMPI')
        st.C = C
        C.params.overwrite_to_reach_Tend = inst['overwrite']
        C.params.spread_from_first_restarted = inst['spread_from_first_restarted']
        comm = SpreadComm(r, n, mk, st.log, name='active')
        st.comm = comm
        L = S.levels[0]
        L.params.dt = mk.real('dt_mine')
        L.status.dt_new = mk.real('dt_new_mine')
        mk.assume(L.params.dt > 0, 'dt>0')
        mk.assume(L.status.dt_new > 0, 'proposal>0')
        L.params.dt_initial = mk.real('dt_initial')
        st.dt, st.dt_new, st.dt_initial = L.params.dt, L.status.dt_new, L.params.dt_initial
        S.status.restart = k is not None and r >= k
        st.others_new = {}

        def allgather(x):
            if isinstance(x, (bool, np.bool_)):
                vals = [(k is not None and j >= k) for j in range(n)]
            else:
                vals = []
                for j in range(n):
                    if j == r:
                        vals.append(x)
                    else:
                        v = mk.real(f'dt_new_of_rank{j}')
                        mk.assume(v > 0, 'proposal>0')
                        st.others_new[j] = v
                        vals.append(v)
            st.log.append(('allgather', x, vals))
            return vals

        comm.allgather = allgather
        st.tend, st.Tend = mk.real('tend'), mk.real('Tend')
        st.call = lambda: C.prepare_next_block(st.c, S, n, st.tend, st.Tend, comm=comm)
        return st

    def post(self, st, old, result, exc):
        S, inst, log = st.S, st.inst, st.log
        r, n, k = inst['rank'], inst['size'], inst['k']
        yield 'returns_normally', exc is None
        if exc is not None:
            return
        ag = [e for e in log if e[0] == 'allgather']
        yield 'restart_flags_and_proposals_gathered', len(ag) == 2 and ag[0][1] is S.status.restart and ag[1][1] is st.dt_new
        if len(ag) != 2:
            return
        props = ag[1][2]
        restart_at = k if k is not None else n - 1
        if k is None or inst['spread_from_first_restarted']:
            src = restart_at
        else:
            # the (first) rank with the smallest proposal among the restarted ones, decided on this path
            src = restart_at + min(range(n - restart_at), key=lambda j: (not all(bool(props[restart_at + j] <= props[restart_at + i]) for i in range(n - restart_at)), j))
        bl = [e for e in log if e[0] == 'bcast' and isinstance(e[2], list)]
        yield 'step_sizes_broadcast_from_the_spreading_rank', len(bl) == 1 and bl[0][3] == src
        if len(bl) != 1:
            return
        if inst['overwrite']:
            bs = [e for e in log if e[0] == 'bcast' and not isinstance(e[2], list)]
            yield 'limit_to_reach_Tend_broadcast_from_the_restart_rank', len(bs) == 1 and bs[0][3] == restart_at and bool(seq(bs[0][2], (st.Tend - st.tend) / n)) is True
            dt_max = bs[0][4] if bs else None
        else:
            dt_max = None
        if r == src:
            cap = sym.smax([dt_max, st.dt_initial]) if dt_max is not None else None
            want = sym.smin([st.dt_new, cap]) if cap is not None else st.dt_new
            yield 'spreading_rank_contributes_its_limited_proposal', seq(bl[0][2][0], want)
        yield 'every_level_gets_the_broadcast_step_size', And(*[seq(L.params.dt, bl[0][4][i]) for i, L in enumerate(S.levels)])

    def canary(self, st, old, result, exc):
        yield 'canary:step_size_unchanged', seq(st.S.levels[0].params.dt, st.dt)


CONTRACTS = [DetermineRestartMPI, PrepareNextBlockMPI, SpreadStepSizesMPI]
