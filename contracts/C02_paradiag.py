"""
C02 for the diagonal / ParaDiag sweepers (pySDC/implementations/sweeper_classes/ParaDiagSweepers.py).

 * check_sweeper_symbolic (from contracts/C15_paradiag.py, re-exported): on the REAL QDiagonalization.update_nodes / mat_vec over
   sympy scalars, one application solves (G - dt*lambda*Q) y = rhs EXACTLY (rational-function identity decided by sympy) for
   symbolic S, w, G_inv with Q G_inv = S diag(w) S^-1, both ignore_ic modes, diagonal and full G_inv; the local solves use the factors w_m*dt.
 * bounded_update_after_set_G_inv: the matrices the update works with are the sweeper's CURRENT ones: after any sequence of
   set_G_inv(G_new) calls on an existing sweeper, the real update_nodes (numpy eig / inv inside computeDiagonalization) solves
   (inv(G_new) x I - dt Q x A) y = rhs for the LAST matrix handed over (complex diagonal A, both ignore_ic modes, real mesh data).
   Numerical => bounded, not counted as proved.
"""

import numpy as np

from contracts.C15_paradiag import check_sweeper_symbolic as _c15_symbolic


def check_paradiag_sweeper_symbolic(tier, seed):
    r = _c15_symbolic(tier, seed)
    r['prop'] = 'C02'
    return r


def bounded_update_after_set_G_inv(tier, seed):
    from pySDC.core.level import Level
    from pySDC.implementations.problem_classes.TestEquation_0D import testequation0d
    from pySDC.implementations.sweeper_classes.ParaDiagSweepers import QDiagonalization, QDiagonalizationIMEX

    rng = np.random.RandomState(seed + 21)
    fails = dict(update_solves_the_system_of_the_current_G_inv=[], G_inv_is_the_matrix_handed_over=[])
    cases = 0
    for cls in (QDiagonalization, QDiagonalizationIMEX):
        for M in (1, 2, 3) if tier == 'quick' else (1, 2, 3, 4):
            for ignore_ic in (False, True):
                for quad in ('RADAU-RIGHT', 'LOBATTO') if M > 1 else ('RADAU-RIGHT',):
                    lam = rng.randn(3) * 2 - 1 + 1j * rng.randn(3)
                    L = Level(problem_class=testequation0d, problem_params=dict(lambdas=lam, u0=1.0), sweeper_class=cls,
                              sweeper_params=dict(num_nodes=M, quad_type=quad, ignore_ic=ignore_ic, update_f_evals=False), level_params=dict(dt=0.1), level_index=0)
                    sw, P = L.sweep, L.prob
                    Q = np.array(sw.coll.Qmat[1:, 1:])
                    dt = float(rng.uniform(0.01, 0.5))
                    L.params.dt = dt
                    L.status.time = float(rng.randn())
                    L.status.unlocked = True
                    for call in range(3):  # history: the sweeper exists already, the matrix is replaced again and again
                        Gi = np.eye(M) + 0.4 * rng.randn(M, M) + (0.2j * rng.randn(M, M) if call else 0)
                        sw.set_G_inv(Gi)
                        cases += 1
                        if sw.params.G_inv is not Gi:
                            fails['G_inv_is_the_matrix_handed_over'].append(dict(sweeper=cls.__name__, M=M, call=call + 1))
                        L.u[0] = P.u_init
                        L.u[0][:] = rng.randn(3) + 1j * rng.randn(3)
                        for m in range(M):
                            L.residual[m] = P.u_init
                            L.residual[m][:] = rng.randn(3) + 1j * rng.randn(3)
                            L.u[m + 1] = P.u_init
                            L.increment[m] = None
                        rhs = np.array([np.asarray(L.residual[m]) if ignore_ic else np.asarray(L.u[0]) for m in range(M)])
                        sw.update_nodes()
                        y = np.array([np.asarray(L.increment[m] if ignore_ic else L.u[m + 1]) for m in range(M)])
                        G = np.linalg.inv(Gi)
                        # (G x I - dt Q x diag(lam)) y = rhs, component by component of the diagonal operator
                        err = max(float(np.max(np.abs((G - dt * lam[k] * Q) @ y[:, k] - rhs[:, k]))) for k in range(3))
                        scale = 1 + float(np.max(np.abs(y))) * (1 + float(np.linalg.cond(Gi)))
                        if not err < 1e-9 * scale:
                            fails['update_solves_the_system_of_the_current_G_inv'].append(dict(sweeper=cls.__name__, M=M, quad=quad, ignore_ic=ignore_ic, call=call + 1, defect=err))
    obs = [dict(name=f'bounded:{k}', status='proved' if not bad else 'refuted', backend='native-run', seconds=0.0, kind='bounded', size=0, model=dict(first=bad[:6]) if bad else None,
                reason='', path=0, counted=False) for k, bad in fails.items()]
    return dict(contract='bounded:QDiagonalization.set_G_inv + update_nodes', prop='C02', inst={}, label='bounded', kind='bounded', obligations=obs, canaries=[], paths=1, status='ok',
                bounded=dict(what='real update_nodes after 1..3 successive set_G_inv calls on an existing sweeper against the dense system of the last G_inv', bound='M=1..4, two node sets, both ignore_ic modes, QDiagonalization and QDiagonalizationIMEX, random complex diagonal operators and dense complex G_inv',
                             cases=cases, failures=sum(1 for o in obs if o['status'] != 'proved')))


CONTRACTS = []
EXTRAS = [check_paradiag_sweeper_symbolic, bounded_update_after_set_G_inv]
ASSUMPTIONS = ['numpy.linalg.eig / inv inside QDiagonalization.computeDiagonalization (its own assert S diag(w) S^-1 = A is part of the code)']
