r"""
C04 -- k iterations give order min(k, p); Runge-Kutta sweepers attain their order.

The REAL sweeper functions (predict -> k x update_nodes -> compute_end_point) run on the Dahlquist law over the exact
power-series carrier (vc/ghost/series.py): the result is R_k(z) * u0 with R_k in Q[[z]]/z^(N+1) computed exactly from the
concrete matrices CollBase / get_Qdelta_* deliver (floats lifted to exact rationals). Obligation per configuration:
   | coeff_j(R_k) - 1/j! | <= 1e-10   for all j <= min(k, p)        (p = coll.order; all z at once, since coefficients
are compared; the allowance covers the rounding already present in the float matrix entries).
Converged clause: after enough sweeps R equals the collocation stability function 1 + z w^T (I - zQ)^{-1} 1 (series identity).
RK classes: coefficients match exp through the documented order; IMEX pairs in two variables; embedded pairs:
valuation(uend - u_secondary) >= get_update_order().
This is proof by exact evaluation per configuration: exhaustive over the enumerated grid, no symbolic matrices.
"""

from fractions import Fraction
import itertools
import importlib
from fractions import Fraction as Fr
import numpy as np

from vc.ghost import series as S

SW = 'pySDC.implementations.sweeper_classes.'
TOL = Fraction(1, 10**10)

NODE_TYPES = ['LEGENDRE', 'EQUID', 'CHEBY-1', 'CHEBY-2', 'CHEBY-3', 'CHEBY-4']
QUAD_TYPES = ['RADAU-RIGHT', 'LOBATTO', 'GAUSS', 'RADAU-LEFT']
IMPLICIT = ['IE', 'LU', 'LU2', 'GS', 'MIN', 'MIN3', 'MIN-SR-NS', 'MIN-SR-S', 'MIN-SR-FLEX', 'IEpar', 'Qpar', 'TRAP', 'TRAPAR', 'PIC', 'VDHS', 'LDU', 'DNODES']
EXPLICIT = ['EE', 'PIC', 'LF', 'SOE']


def _ob(name, ok, info=None):
    return dict(name=name, status='proved' if ok else 'refuted', backend='exact-series', seconds=0.0, kind='bounded', size=0,
                model=info if not ok else None, reason='', path=0)


def make_level(sweeper, sparams, kind):
    from pySDC.core.level import Level

    L = Level(problem_class=S.DahlquistSeries, problem_params=dict(kind=kind), sweeper_class=sweeper, sweeper_params=dict(sparams),
              level_params=dict(dt=1.0), level_index=0)
    L.status.time = 0.0
    L.u[0] = S.mesh(None, 1)
    return L


def run_sdc(sweeper, sparams, kind, kmax):
    """yields (k, R_k series, p)"""
    L = make_level(sweeper, sparams, kind)
    sw = L.sweep
    p = sw.coll.order
    S.N_MAX[0] = min(p, kmax) + 1
    sw.predict()
    for k in range(1, kmax + 1):
        L.status.sweep = k
        sw.updateVariableCoeffs(k)
        sw.update_nodes()
        sw.compute_end_point()
        yield k, L.uend, p, L


def order_ok(R, upto, two_var=False, scale=1):
    """Taylor coefficients of R against exp(scale*(zI+zE)) up to total degree `upto` (scale = step size relative to the unit step)"""
    from fractions import Fraction

    c = Fraction(scale)
    for n in range(0, upto + 1):
        for i in range(n + 1):
            j = n - i
            if not two_var and j:
                continue
            if abs(R.coeff(i, j) - S.exp_coeff(i, j) * c ** (i + j)) > TOL * max(1, c ** (i + j)):
                return False, dict(degree=(i, j), coeff=float(R.coeff(i, j)), exp=float(S.exp_coeff(i, j) * c ** (i + j)))
    return True, None


def sdc_configs(tier):
    if tier == 'quick':
        for nt in ('LEGENDRE', 'EQUID'):
            for qt in ('RADAU-RIGHT', 'LOBATTO', 'GAUSS', 'RADAU-LEFT'):
                for M in (1, 2, 3, 4):
                    if qt == 'RADAU-LEFT' and (M < 2 or M > 3):
                        continue
                    yield nt, qt, M
    else:
        for nt in NODE_TYPES:
            for qt in QUAD_TYPES:
                for M in range(1, 8):
                    yield nt, qt, M


def _accepts(sweeper, sparams, kind):
    try:
        make_level(sweeper, sparams, kind)
        return True, None
    except Exception as e:  # name not accepted by this sweeper (triangularity assertion, unknown to qmat for this M ...)
        return False, repr(e)[:80]


def check_sdc(kind, tier, seed, part, nparts):
    from pySDC.implementations.sweeper_classes.generic_implicit import generic_implicit
    from pySDC.implementations.sweeper_classes.explicit import explicit
    from pySDC.implementations.sweeper_classes.imex_1st_order import imex_1st_order

    obs, skipped = [], []
    cfgs = list(sdc_configs(tier))[part::nparts]
    quickI = ['IE', 'LU', 'MIN-SR-S', 'MIN-SR-NS', 'MIN-SR-FLEX', 'Qpar', 'TRAP', 'PIC', 'LDU']
    for nt, qt, M in cfgs:
        if M < 2 and qt in ('LOBATTO',):
            continue
        base = dict(num_nodes=M, quad_type=qt, node_type=nt)
        if kind == 'implicit':
            variants = [(generic_implicit, dict(base, QI=q), 'full', q) for q in (quickI if tier == 'quick' else IMPLICIT)]
        elif kind == 'explicit':
            variants = [(explicit, dict(base, QE=q), 'full', q) for q in EXPLICIT]
        else:
            variants = [(imex_1st_order, dict(base, QI=qi, QE=qe), 'imex', f'{qi}+{qe}') for qi in (['IE', 'LU', 'MIN-SR-S', 'PIC'] if tier == 'quick' else ['IE', 'LU', 'MIN-SR-S', 'MIN-SR-NS', 'Qpar', 'TRAP', 'PIC', 'IEpar']) for qe in EXPLICIT]
        for sw, sp, pk, tag in variants:
            for coll_update in (False, True):
                sp2 = dict(sp, do_coll_update=coll_update)
                ok, why = _accepts(sw, sp2, pk)
                if not ok:
                    skipped.append(f'{nt}/{qt}/M={M}/{tag}: {why}')
                    break
                p = None
                Lv = make_level(sw, sp2, pk)
                mats = [getattr(Lv.sweep, a) for a in ('QI', 'QE') if hasattr(Lv.sweep, a)]
                if not all(np.isfinite(np.asarray(m, dtype=float)).all() for m in mats):
                    obs.append(_ob(f'sdc[{kind},{nt},{qt},M={M},{tag},coll_update={coll_update}]:preconditioner_entries_are_finite', False,
                                   dict(sweeper_params=str(sp2), QDelta=str(np.asarray(mats[0]).tolist())[:300])))
                    continue
                try:
                    for k, R, p, L in run_sdc(sw, sp2, pk, None if False else 40 if False else (make_level(sw, sp2, pk).sweep.coll.order + 2)):
                        good, info = order_ok(R, min(k, p), two_var=(pk == 'imex'))
                        obs.append(_ob(f'sdc[{kind},{nt},{qt},M={M},{tag},coll_update={coll_update},k={k}]:order_min(k,p={p})', good, info))
                except Exception as e:
                    obs.append(_ob(f'sdc[{kind},{nt},{qt},M={M},{tag},coll_update={coll_update}]:runs', False, dict(error=repr(e)[:200])))
    return obs, skipped


def _pack(name, obs, what, bound, skipped=()):
    fails = [o for o in obs if o['status'] != 'proved']
    return dict(contract=name, prop='C04', inst={}, label='exhaustive over the enumerated grid', kind='exact', obligations=obs, canaries=[], paths=1, status='ok',
                bounded=dict(what=what, bound=bound, cases=len(obs), failures=len(fails), not_accepted_by_sweeper=list(skipped)[:40]))


def _mk_sdc(kind, part, nparts):
    def f(tier, seed):
        obs, skipped = check_sdc(kind, tier, seed, part, nparts)
        if part == 0:
            # canary: order k+1 after k sweeps must NOT hold in general (IE, 3 Radau nodes, k=1)
            from pySDC.implementations.sweeper_classes.generic_implicit import generic_implicit

            for k, R, p, L in run_sdc(generic_implicit, dict(num_nodes=3, quad_type='RADAU-RIGHT', QI='IE'), 'full', 1):
                good, _ = order_ok(R, 2)
                obs.append(_ob('canary:one_IE_sweep_is_not_second_order', not good))
        return _pack(f'sdc_order[{kind}]#{part}', obs, f'order min(k,p) of k real {kind} sweeps + end point on the Dahlquist law (exact series)',
                     'node families x quadrature types x node counts x preconditioner names x both end-point modes x k = 1..p+2 (quick: subset)', skipped)

    f.__name__ = f'sdc_order_{kind}_{part}'
    return f


def collocation_limit(tier, seed):
    """iterating to convergence yields exactly the stability function of the collocation method:
    R_inf(z) = 1 + z w^T (I - z Q)^{-1} 1 as a series; SDC with k >= N+... sweeps of IE reproduces it through degree N
    (each sweep fixes one more coefficient: the iteration matrix is z * (I - z QD)^{-1} (Q - QD))."""
    from pySDC.implementations.sweeper_classes.generic_implicit import generic_implicit

    obs = []
    for nt, qt, M in [('LEGENDRE', 'RADAU-RIGHT', 2), ('LEGENDRE', 'RADAU-RIGHT', 3), ('LEGENDRE', 'LOBATTO', 3), ('EQUID', 'RADAU-RIGHT', 3), ('LEGENDRE', 'GAUSS', 2)] + ([('CHEBY-2', 'LOBATTO', 4), ('LEGENDRE', 'RADAU-LEFT', 3)] if tier != 'quick' else []):
        for q in ('IE', 'LU', 'MIN-SR-S'):
            sp = dict(num_nodes=M, quad_type=qt, node_type=nt, QI=q)
            L0 = make_level(generic_implicit, sp, 'full')
            Q = L0.sweep.coll.Qmat[1:, 1:]
            w = L0.sweep.coll.weights
            N = 8
            # series of (I - zQ)^{-1} 1 = sum_n z^n Q^n 1, exactly
            Qf = [[Fraction(float(x)) for x in row] for row in Q]
            vec = [Fraction(1)] * M
            coeffs = [Fraction(1)]
            for n in range(N):
                coeffs.append(sum(Fraction(float(w[i])) * vec[i] for i in range(M)))
                vec = [sum(Qf[i][j] * vec[j] for j in range(M)) for i in range(M)]
            S.N_MAX[0] = N
            L = make_level(generic_implicit, dict(sp, do_coll_update=True), 'full')
            L.sweep.predict()
            for k in range(1, N + 2):
                L.sweep.update_nodes()
            L.sweep.compute_end_point()
            bad = [n for n in range(N + 1) if abs(L.uend.coeff(n) - coeffs[n]) > TOL]
            obs.append(_ob(f'converged[{nt},{qt},M={M},{q}]:equals_collocation_stability_function_through_degree_{N}', not bad, dict(degrees=bad)))
    return _pack('sdc_converged_limit', obs, 'series of the iterated sweep equals 1 + z w^T (I - zQ)^{-1} 1', 'selected node sets, 3 preconditioners, degree 8')


RK_ORDER = dict(ForwardEuler=1, BackwardEuler=1, CrankNicolson=2, ExplicitMidpointMethod=2, ImplicitMidpointMethod=2, RK4=4, Heun_Euler=2, Cash_Karp=5,
                DIRK43=4, DIRK43_2=3, EDIRK4=4, ESDIRK53=5, ESDIRK43=4, ARK548L2SAERK=5, ARK548L2SAESDIRK=5, ARK548L2SAESDIRK2=5, ARK548L2SAERK2=5,
                ARK324L2SAERK=3, ARK324L2SAESDIRK=3, IMEXEuler=1, IMEXEulerStifflyAccurate=1, ARK54=5, ARK548L2SA=5, ARK32=3, ARK2=2, ARK3=3)


def check_rk(tier, seed):
    """every class of Runge_Kutta.py: real predict/update_nodes/compute_end_point on the Dahlquist law"""
    mod = importlib.import_module(SW + 'Runge_Kutta')
    obs = []
    for name, p in RK_ORDER.items():
        cls = getattr(mod, name, None)
        if cls is None:
            obs.append(_ob(f'rk[{name}]:class_exists', False))
            continue
        imex = issubclass(cls, mod.RungeKuttaIMEX)
        S.N_MAX[0] = p + 2
        try:
            L = make_level(cls, {}, 'imex' if imex else 'full')
            L.status.sweep = 1
            L.sweep.predict()
            L.sweep.update_nodes()
            L.sweep.compute_end_point()
        except Exception as e:
            obs.append(_ob(f'rk[{name}]:runs', False, dict(error=repr(e)[:200])))
            continue
        good, info = order_ok(L.uend, p, two_var=imex)
        obs.append(_ob(f'rk[{name}]:matches_exp_through_order_{p}', good, info))
        higher, _ = order_ok(L.uend, p + 1, two_var=imex)
        obs.append(dict(_ob(f'rk[{name}]:order_is_exactly_{p}_(informational)', True), counted=False, note=f'order {p + 1} also holds' if higher else 'sharp'))
        # history: the SAME level and sweeper object take further steps with other step sizes (nothing scaled with an earlier step size may survive)
        for c in (Fr(1, 2), Fr(2)):
            try:
                L.params.dt = float(c)
                L.status.time = L.status.time + 1.0
                L.u[0] = S.mesh(None, 1)
                L.status.sweep = 1
                L.sweep.predict()
                L.sweep.update_nodes()
                L.sweep.compute_end_point()
            except Exception as e:
                obs.append(_ob(f'rk[{name}]:further_step_with_dt={float(c)}:runs', False, dict(error=repr(e)[:200])))
                break
            good2, info2 = order_ok(L.uend, p, two_var=imex, scale=c)
            obs.append(_ob(f'rk[{name}]:further_step_on_the_same_sweeper_with_dt={float(c)}_matches_exp_through_order_{p}', good2, info2))
        if cls.is_embedded():
            uo = cls.get_update_order()
            diff = L.uend - L.sweep.u_secondary
            small = all(abs(v) <= TOL for (i, j), v in diff.c.items() if i + j < uo)
            obs.append(_ob(f'rk[{name}]:primary_minus_embedded_vanishes_below_update_order_{uo}', small,
                           dict(lowest=[(k, float(v)) for k, v in sorted(diff.c.items()) if abs(v) > TOL][:3])))
    # canary
    L = make_level(mod.ForwardEuler, {}, 'full')
    S.N_MAX[0] = 3
    L.status.sweep = 1
    L.sweep.predict()
    L.sweep.update_nodes()
    L.sweep.compute_end_point()
    good, _ = order_ok(L.uend, 2)
    obs.append(_ob('canary:forward_euler_is_not_second_order', not good))
    return _pack('rk_order', obs, 'Taylor coefficients of the real RK step on the Dahlquist law (two variables for IMEX pairs), embedded difference valuation',
                 f'{len(RK_ORDER)} classes of Runge_Kutta.py')


NPARTS = 6
EXTRAS = [_mk_sdc(kind, part, NPARTS) for kind in ('implicit', 'explicit', 'imex') for part in range(NPARTS)] + [collocation_limit, check_rk]
CONTRACTS = []
ASSUMPTIONS = ['qmat delivers the matrices (their values are used as data; nothing about qmat is assumed beyond determinism)',
               'floats of the matrices are lifted to exact rationals; allowance 1e-10 per Taylor coefficient for the rounding already present in them']
UNDECIDED = ['Runge_Kutta_Nystrom classes are not under contract', 'the extraction "on a circle of complex z" of the property is replaced by exact coefficient comparison (all z at once)']
