"""
C02 (IMEX Runge-Kutta sweepers and RungeKutta.integrate) -- pySDC/implementations/sweeper_classes/Runge_Kutta.py.

RungeKuttaIMEX, stage by stage (A = implicit tableau, AE = explicit tableau, c = nodes, F = FI + FE):
    U_m - dt*A[m,m]*FI(U_m, t + c_m dt) = u0 + dt*sum_{j<m} ( A[m,j]*FI(U_j) + AE[m,j]*FE(U_j) )     (direct value iff A[m,m] = 0)
    end value = last stage iff BOTH tableaux are stiffly accurate, else u0 + dt*sum_m ( b_m*FI_m + bE_m*FE_m );
    embedded pairs: secondary value with the second weight rows.
u0 is never modified (the code starts the stage right-hand side from the u0 object itself).
The tableau entries are symbolic; `allclose` (stiff-accuracy test) is answered by the instance flag as in C02_sweep.
"""

import importlib

import numpy as onp

from vc import sym
from vc.sym import And
from vc.vec import Vec
from vc.contract import Contract, State, veq, seq, vsum, snapshot, frame_clauses
from vc.ghost.problem import AbstractProblem, VecIMEX
from contracts.common import make_level, lower, strictly_lower0, cp
from contracts.C02_sweep import NpAllclose, _SweepBase, RKF, SW


class imex_mesh(VecIMEX):
    """a VecIMEX whose TYPE NAME is 'imex_mesh' (RungeKutta.get_full_f dispatches on the type name)"""


class IMEXRKProblem(AbstractProblem):
    def __init__(self, **kw):
        kw['kind'] = 'imex'
        super().__init__(**kw)
        self.dtype_f = imex_mesh

    def eval_f(self, u, t, *a, **k):
        return imex_mesh(super().eval_f(u, t, *a, **k))

    @property
    def f_init(self):
        return imex_mesh()

    def find_eval(self, f):
        from vc.vec import vec_syntactic_equal

        for r in self.evals:
            if hasattr(f, 'impl') and vec_syntactic_equal(r.f.impl, f.impl) and vec_syntactic_equal(r.f.expl, f.expl):
                return r
        return None


class _IMEXBase(Contract):
    prop = 'C02'
    label = 'instance-proved'
    native = False
    stubs = _SweepBase.stubs

    CLASSES = {('plain', 1): 'IMEXEuler', ('plain', 2): 'IMEXEulerStifflyAccurate', ('embedded', 4): 'ARK32'}

    def rk_instances(self, tier):
        out = []
        for (kind, M), cname in self.CLASSES.items():
            for gi in (False, True):
                for ge in (False, True):
                    out.append(dict(cls=cname, M=M, embedded=(kind == 'embedded'), gsaI=gi, gsaE=ge))
        return out

    def mk_rk_level(self, inst, mk):
        mod = importlib.import_module('pySDC.implementations.sweeper_classes.Runge_Kutta')
        cls = getattr(mod, inst['cls'])
        mod.np = onp
        L = make_level(cls, inst['M'], mk, fill=False, sweeper_params={}, problem_class=IMEXRKProblem)
        sw, M = L.sweep, inst['M']
        assert sw.coll.num_nodes == M and cls.is_embedded() == inst['embedded'], (sw.coll.num_nodes, M)
        coll, collE = sw.coll, sw.coll_explicit
        coll.Qmat = mk.matrix('L.A', M + 1, M + 1, lower)
        collE.Qmat = mk.matrix('L.AE', M + 1, M + 1, lambda i, j: i >= 1 and 1 <= j < i)
        coll.nodes = onp.array([0] + [mk.real(f'L.c_{i}') for i in range(M)], dtype=object)
        if inst['embedded']:
            coll.weights = onp.array([list(mk.vector('L.b', M)), list(mk.vector('L.bhat', M))], dtype=object)
            collE.weights = onp.array([list(mk.vector('L.bE', M)), list(mk.vector('L.bEhat', M))], dtype=object)
        else:
            coll.weights = mk.vector('L.b', M)
            collE.weights = mk.vector('L.bE', M)
        wI = coll.weights[0] if inst['embedded'] else coll.weights
        wE = collE.weights[0] if inst['embedded'] else collE.weights
        if inst['gsaI']:
            for j in range(M):
                coll.Qmat[M, j + 1] = wI[j]
        if inst['gsaE']:
            for j in range(M):
                collE.Qmat[M, j + 1] = wE[j]
        sw.QI, sw.QE = coll.Qmat, collE.Qmat

        # allclose(Q[-1,1:], weights) of a tableau: answered by the flag of THAT tableau
        class Shim(NpAllclose):
            def allclose(shim, a, b, *args, **kw):
                a = onp.asarray(a, dtype=object).ravel()
                if _is_row(a, coll.Qmat[M, 1:]):
                    return inst['gsaI']
                if _is_row(a, collE.Qmat[M, 1:]):
                    return inst['gsaE']
                raise sym.Unsupported('allclose on something that is not the last row of a tableau')

        mod.np = Shim(None)
        L.u[0] = mk.vec('L.u0')
        L.status.sweep = 1
        return L


def _is_row(a, row):
    return len(a) == len(row) and all(x is y for x, y in zip(a, row))


class IMEXRKUpdateNodes(_IMEXBase):
    name = 'RungeKuttaIMEX.update_nodes'
    target = (SW + RKF, 'RungeKuttaIMEX.update_nodes')

    def instances(self, tier):
        return self.rk_instances(tier)

    def build(self, inst, mk):
        L = self.mk_rk_level(inst, mk)
        L.sweep.predict()
        return State(L=L, M=inst['M'], inst=inst, u0=cp(L.u[0]), u0_obj=L.u[0], call=L.sweep.update_nodes)

    def post(self, st, old, result, exc):
        L, M, sw, P = st.L, st.M, st.L.sweep, st.L.prob
        dt, A, AE, c = L.params.dt, sw.coll.Qmat, sw.coll_explicit.Qmat, sw.coll.nodes
        yield 'returns_normally', exc is None
        if exc is not None:
            return
        for m in range(M):
            tm = L.status.time + dt * c[m + 1]
            rhs = cp(st.u0) + vsum(dt * (A[m + 1, j] * L.f[j].impl + AE[m + 1, j] * L.f[j].expl) for j in range(1, m + 1))
            rec = P.find_solve(L.u[m + 1])
            if rec is not None:
                yield f'stage{m + 1}:solve_rhs', veq(rec.rhs, rhs)
                yield f'stage{m + 1}:solve_factor', seq(rec.factor, dt * A[m + 1, m + 1])
                yield f'stage{m + 1}:solve_time', seq(rec.t, tm)
            else:
                yield f'stage{m + 1}:explicit_value', veq(L.u[m + 1], rhs)
                yield f'stage{m + 1}:explicit_only_if_diagonal_zero', seq(A[m + 1, m + 1], 0)
            last_skipped = (m == M - 1) and st.inst['gsaI'] and st.inst['gsaE'] and not st.inst['embedded']
            if last_skipped:
                yield f'f{m + 1}:not_needed_when_both_tableaux_are_stiffly_accurate', And(veq(L.f[m + 1].impl, 0), veq(L.f[m + 1].expl, 0))
            else:
                er = P.find_eval(L.f[m + 1])
                yield f'f{m + 1}:is_eval_f_at_stage_value_and_time', er is not None and bool(veq(er.u, L.u[m + 1])) is True and bool(seq(er.t, tm)) is True
        yield 'status.updated', L.status.updated is True
        yield 'u0_untouched', L.u[0] is st.u0_obj and bool(veq(L.u[0], st.u0)) is True

    def canary(self, st, old, result, exc):
        L, M, P = st.L, st.M, st.L.prob
        if M > 1:
            rec = P.find_solve(L.u[M])
            yield 'canary:last_stage_ignores_explicit_part', veq(rec.rhs if rec is not None else L.u[M], cp(st.u0) + vsum(L.params.dt * L.sweep.coll.Qmat[M, j] * L.f[j].impl for j in range(1, M)))
        else:
            yield 'canary:stage_is_u0_plus_f', veq(L.u[1], st.u0 + L.params.dt * L.f[1].impl)


class IMEXRKEndPoint(_IMEXBase):
    name = 'RungeKuttaIMEX.compute_end_point'
    target = (SW + RKF, 'RungeKuttaIMEX.compute_end_point')

    def instances(self, tier):
        return self.rk_instances(tier) + [dict(cls='IMEXEuler', M=1, embedded=False, gsaI=False, gsaE=False, fresh=True)]

    def build(self, inst, mk):
        L = self.mk_rk_level(inst, mk)
        M = inst['M']
        if not inst.get('fresh'):
            for m in range(1, M + 1):
                L.u[m] = mk.vec(f'L.U{m}')
                f = imex_mesh()
                f.impl, f.expl = mk.vec(f'L.KI{m}', 'f'), mk.vec(f'L.KE{m}', 'f')
                L.f[m] = f
        from contracts.common import plant_earlier_end_value

        st = State(L=L, M=M, inst=inst, u0=cp(L.u[0]), call=L.sweep.compute_end_point)
        st.old_u = [cp(u) for u in L.u]
        st.old_f = [cp(f) for f in L.f]
        return plant_earlier_end_value(st, L, mk.vec('L.uend_old'))

    def post(self, st, old, result, exc):
        L, M, sw, inst = st.L, st.M, st.L.sweep, st.inst
        dt = L.params.dt
        yield 'returns_normally', exc is None
        if exc is not None:
            return
        from contracts.common import earlier_end_value_clause

        yield earlier_end_value_clause(st, L)
        if inst.get('fresh'):
            yield 'no_stages_yet:end_value_is_u0', veq(L.uend, st.u0) and L.uend is not L.u[0]
            return
        W, WE = sw.coll.weights, sw.coll_explicit.weights
        b, bE = (W[0], WE[0]) if inst['embedded'] else (W, WE)
        if inst['gsaI'] and inst['gsaE']:
            yield 'stiffly_accurate:end_value_is_last_stage', veq(L.uend, st.old_u[M])
        else:
            yield 'end_value_is_u0_plus_weighted_stages', veq(L.uend, cp(st.u0) + vsum(dt * (b[k] * st.old_f[k + 1].impl + bE[k] * st.old_f[k + 1].expl) for k in range(M)))
        if inst['embedded']:
            yield 'embedded_solution_uses_second_weights', veq(sw.u_secondary, cp(st.u0) + vsum(dt * (W[1][k] * st.old_f[k + 1].impl + WE[1][k] * st.old_f[k + 1].expl) for k in range(M)))
        yield 'stages_untouched', And(*[veq(L.u[m], st.old_u[m]) for m in range(M + 1)])

    def canary(self, st, old, result, exc):
        if st.inst.get('fresh'):
            yield 'canary:end_value_zero', veq(st.L.uend, 0)
        else:
            yield 'canary:end_value_is_u0', veq(st.L.uend, st.u0)


class IMEXRKIntegrate(_IMEXBase):
    name = 'RungeKuttaIMEX.integrate'
    target = (SW + RKF, 'RungeKuttaIMEX.integrate')

    def instances(self, tier):
        return [i for i in self.rk_instances(tier) if not i['gsaI'] and not i['gsaE']]

    def build(self, inst, mk):
        L = self.mk_rk_level(inst, mk)
        M = inst['M']
        for m in range(1, M + 1):
            f = imex_mesh()
            f.impl, f.expl = mk.vec(f'L.KI{m}', 'f'), mk.vec(f'L.KE{m}', 'f')
            L.f[m] = f
        sw = L.sweep
        # full (not triangular) tableaux for the integration contract
        sw.coll.Qmat = mk.matrix('L.Afull', M + 1, M + 1, lambda i, j: i >= 1 and j >= 1)
        sw.coll_explicit.Qmat = mk.matrix('L.AEfull', M + 1, M + 1, lambda i, j: i >= 1 and j >= 1)
        st = State(L=L, M=M, inst=inst, call=L.sweep.integrate)
        st.old_f = [cp(f) for f in L.f]
        return st

    def post(self, st, old, result, exc):
        L, M, sw = st.L, st.M, st.L.sweep
        yield 'returns_M_values', exc is None and len(result) == M
        if exc is not None:
            return
        for m in range(1, M + 1):
            yield f'row{m}', veq(result[m - 1], vsum(L.params.dt * (sw.coll.Qmat[m, j] * st.old_f[j].impl + sw.coll_explicit.Qmat[m, j] * st.old_f[j].expl) for j in range(1, M + 1)))

    def canary(self, st, old, result, exc):
        yield 'canary:explicit_part_with_implicit_tableau', veq(result[0], vsum(st.L.params.dt * st.L.sweep.coll.Qmat[1, j] * (st.old_f[j].impl + st.old_f[j].expl) for j in range(1, st.M + 1)))


class RKIntegrate(Contract):
    """RungeKutta.integrate: dt * A * F with the full right-hand side (mesh or imex_mesh data)"""

    prop = 'C02'
    name = 'RungeKutta.integrate'
    target = (SW + RKF, 'RungeKutta.integrate')
    label = 'instance-proved'
    native = False

    def instances(self, tier):
        return [dict(cls='RK4', M=4, data='mesh'), dict(cls='CrankNicolson', M=2, data='mesh'), dict(cls='CrankNicolson', M=2, data='imex_mesh')]

    def build(self, inst, mk):
        from vc.ghost.problem import RKAbstractProblem, mesh

        mod = importlib.import_module('pySDC.implementations.sweeper_classes.Runge_Kutta')
        mod.np = onp
        M = inst['M']
        L = make_level(getattr(mod, inst['cls']), M, mk, fill=False, sweeper_params={}, problem_class=RKAbstractProblem if inst['data'] == 'mesh' else IMEXRKProblem)
        L.sweep.coll.Qmat = mk.matrix('L.A', M + 1, M + 1, lambda i, j: i >= 1 and j >= 1)
        for m in range(1, M + 1):
            if inst['data'] == 'mesh':
                L.f[m] = mesh(mk.vec(f'L.K{m}', 'f'))
            else:
                f = imex_mesh()
                f.impl, f.expl = mk.vec(f'L.KI{m}', 'f'), mk.vec(f'L.KE{m}', 'f')
                L.f[m] = f
        st = State(L=L, M=M, inst=inst, call=L.sweep.integrate)
        st.old_f = [cp(f) for f in L.f]
        return st

    def post(self, st, old, result, exc):
        L, M, sw = st.L, st.M, st.L.sweep
        yield 'returns_M_values', exc is None and len(result) == M
        if exc is not None:
            return
        full = (lambda f: f) if st.inst['data'] == 'mesh' else (lambda f: f.impl + f.expl)
        for m in range(1, M + 1):
            yield f'row{m}:dtAF', veq(result[m - 1], vsum(L.params.dt * sw.coll.Qmat[m, j] * full(st.old_f[j]) for j in range(1, M + 1)))

    def canary(self, st, old, result, exc):
        yield 'canary:row_is_zero', veq(result[0], 0)


CONTRACTS = [IMEXRKUpdateNodes, IMEXRKEndPoint, IMEXRKIntegrate, RKIntegrate]
