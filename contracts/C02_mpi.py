r"""
C02 (node-parallel sweepers, per rank, sequential semantics) -- generic_implicit_MPI and imex_1st_order_MPI.

Rank r administers node r+1. Ghost communicator (see contracts/C06_mpi.py); collectives obey their sequential contracts:
    Reduce(send, recv, root, SUM)  : on the root recv := send + OTHERS (an arbitrary value: the sum of the other ranks' contributions)
    Allreduce(send, recv, SUM)     : recv := send + OTHERS on every rank
    allreduce(x, MAX)              : a value >= x;   bcast / Bcast: unchanged on the root, arbitrary elsewhere
Per-rank contracts:
    integrate      for every target row m this rank contributes exactly  dt*Q[m+1,r+1]*F_{r+1}  to root m (so the reduced sums are the rows of dt*Q*F)
    update_nodes   u_{r+1} solves  u - dt*QD[r+1,r+1]*F_I(u, t_{r+1}) = u0 + (dt*Q*F)_{r} - dt*QD[r+1,r+1]*F_I,{r+1} + tau_r ; only node r+1 is touched
                   REQUIRES a diagonal preconditioner (the classes are meant for those; off-diagonal entries are ignored by the code)
    compute_end_point / compute_residual: copy or quadrature end value; residual of the own node reduced by max / taken from the last rank
Whether the ranks' calls match up (same order of collectives on all ranks) is part of C08 and not addressed here.
"""

import numpy as np

from vc import sym
from vc.sym import And, Or, Not, Implies, Iff
from vc.vec import Vec
from vc.contract import Contract, State, veq, seq, vsum, snapshot, frame_clauses
from vc.ghost.problem import AbstractProblem, VecIMEX
from contracts.common import make_level, cp, ftot
from contracts.C06_mpi import ghost_mpi4py, GhostComm

SW = 'pySDC/implementations/sweeper_classes/'


class SweepComm(GhostComm):
    """communicator of the node-parallel sweepers: buffer collectives on Vec"""

    def _others(self, like, tag):
        self.n += 1
        return self.mk.vec(f'{self.name}.{tag}{self.n}')

    def Reduce(self, send, recv, root=0, op=None):
        others = None
        if root == self.rank:
            others = self._others(send, f'others_reduce[{root}]')
            recv[:] = send + others
        self.log.append(('Reduce', Vec(send), recv, root, op, others))

    def Allreduce(self, send, recv, op=None):
        others = self._others(send, 'others_allreduce')
        recv[:] = send + others
        self.log.append(('Allreduce', Vec(send), recv, op, others))

    def Bcast(self, buf, root=0):
        new = None
        if root != self.rank:
            new = self._others(buf, f'bcast_buf[{root}]')
            buf[:] = new
        self.log.append(('Bcast', buf, root, new))

    def allreduce(self, x, op=None):
        self.n += 1
        g = self.mk.real(f'{self.name}.allreduce{self.n}')
        self.mk.assume(g >= x, 'allreduce(MAX) >= own contribution')
        self.log.append(('allreduce', x, op, g))
        return g


def load(modname):
    import importlib
    import sys

    full = f'pySDC.implementations.sweeper_classes.{modname}'
    if full in sys.modules:
        return sys.modules[full]
    with ghost_mpi4py():
        return importlib.import_module(full)


class _MPISweep(Contract):
    prop = 'C02'
    label = 'instance-proved'
    native = False
    module, cls, kind = 'generic_implicit_MPI', 'generic_implicit_MPI', 'full'
    stubs = ('mpi4py communicator [ghost: sequential contracts of Reduce / Allreduce / allreduce / bcast / Bcast]', 'Problem.eval_f / solve_system [C12 contracts]')
    assumptions = ('per-rank sequential semantics of the collectives; matching of the ranks\' calls is C08 (not applicable)',
                   'requires: diagonal preconditioner (off-diagonal entries of QI are ignored by these classes)')

    def rm(self, tier):
        return [(r, M) for M in ((1, 2, 3) if tier == 'quick' else (1, 2, 3, 4)) for r in range(M)]

    def mk_level(self, inst, mk, quad='RADAU-RIGHT', coll_update=None):
        mod = load(self.module)
        M, r = inst['M'], inst['rank']
        log = []
        comm = SweepComm(r, M, mk, log, name='nodes')
        sp = dict(comm=comm)
        if self.kind == 'imex':
            sp['QE'] = 'PIC'
        with ghost_mpi4py():
            L = make_level(getattr(mod, self.cls), M, mk, kind=self.kind, tau=inst.get('tau', False), quad=quad, do_coll_update=coll_update, sweeper_params=sp)
        sw = L.sweep
        QI = np.zeros((M + 1, M + 1), dtype=object)
        for i in range(1, M + 1):
            QI[i, i] = mk.real(f'L.QI_{i}_{i}')
        sw.QI = QI
        return L, comm, log

    def fI(self, f):
        return f.impl if self.kind == 'imex' else f

    def snap(self, st):
        st.old_u = [cp(u) for u in st.L.u]
        st.old_f = [cp(f) for f in st.L.f]
        st.old_tau = [cp(t) for t in st.L.tau]


class MPIIntegrate(_MPISweep):
    name = 'generic_implicit_MPI.integrate'
    target = (SW + 'generic_implicit_MPI.py', 'generic_implicit_MPI.integrate')

    def instances(self, tier):
        return [dict(rank=r, M=M, last_only=lo) for r, M in self.rm(tier) for lo in (False, True)]

    def build(self, inst, mk):
        L, comm, log = self.mk_level(inst, mk)
        st = State(L=L, comm=comm, log=log, inst=inst, call=lambda: L.sweep.integrate(last_only=inst['last_only']))
        self.snap(st)
        return st

    def post(self, st, old, result, exc):
        L, inst, log = st.L, st.inst, st.log
        M, r = inst['M'], inst['rank']
        Q, dt = L.sweep.coll.Qmat, L.params.dt
        yield 'returns_normally', exc is None
        if exc is not None:
            return
        targets = [M - 1] if inst['last_only'] else list(range(M))
        red = [e for e in log if e[0] == 'Reduce']
        yield 'one_reduction_per_target_row_in_order', [e[3] for e in red] == targets
        if [e[3] for e in red] != targets:
            return
        for e in red:
            m = e[3]
            yield f'row{m + 1}:my_contribution_is_dt_Q[row,my_node]_F[my_node]', veq(e[1], dt * Q[m + 1, r + 1] * ftot(st.old_f[r + 1]))
            yield f'row{m + 1}:receive_buffer_only_on_the_root', (e[2] is result) if m == r else (e[2] is None)
        if r in targets:
            own = next(e for e in red if e[3] == r)
            yield 'result_is_my_row_of_the_reduced_sum', veq(result, dt * Q[r + 1, r + 1] * ftot(st.old_f[r + 1]) + own[5])
        else:
            yield 'result_is_zero_when_my_row_was_not_requested', veq(result, 0)
        yield 'node_data_untouched', And(*[veq(L.u[m], st.old_u[m]) for m in range(M + 1)])

    def canary(self, st, old, result, exc):
        e = [x for x in st.log if x[0] == 'Reduce'][0]
        yield 'canary:contribution_uses_transposed_entry', veq(e[1], st.L.params.dt * st.L.sweep.coll.Qmat[st.inst['rank'] + 1, e[3] + 1] * ftot(st.old_f[st.inst['rank'] + 1])) if st.inst['M'] > 1 and e[3] != st.inst['rank'] else False


class MPIUpdateNodes(_MPISweep):
    name = 'generic_implicit_MPI.update_nodes'
    target = (SW + 'generic_implicit_MPI.py', 'generic_implicit_MPI.update_nodes')

    def instances(self, tier):
        return [dict(rank=r, M=M, tau=t) for r, M in self.rm(tier) for t in (False, True)]

    def build(self, inst, mk):
        L, comm, log = self.mk_level(inst, mk)
        st = State(L=L, comm=comm, log=log, inst=inst, call=L.sweep.update_nodes)
        self.snap(st)
        return st

    def snapshot(self, st):
        return snapshot({'L': st.L})

    def post(self, st, old, result, exc):
        L, inst, log, P = st.L, st.inst, st.log, st.L.prob
        M, r = inst['M'], inst['rank']
        sw, dt = L.sweep, L.params.dt
        Q = sw.coll.Qmat
        yield 'returns_normally', exc is None
        if exc is not None:
            return
        red = [e for e in log if e[0] == 'Reduce']
        yield 'all_rows_reduced', [e[3] for e in red] == list(range(M))
        own = next((e for e in red if e[3] == r), None)
        if own is None:
            return
        for e in red:
            yield f'row{e[3] + 1}:my_contribution', veq(e[1], dt * Q[e[3] + 1, r + 1] * ftot(st.old_f[r + 1]))
        total = dt * Q[r + 1, r + 1] * ftot(st.old_f[r + 1]) + own[5]  # (dt*Q*F)_r by the Reduce contract
        rhs = cp(st.old_u[0]) + total - dt * sw.QI[r + 1, r + 1] * self.fI(st.old_f[r + 1])
        if st.old_tau[r] is not None:
            rhs = rhs + st.old_tau[r]
        rec = P.find_solve(L.u[r + 1])
        yield 'my_node:is_a_solve', rec is not None and len(P.solves) == 1
        if rec is not None:
            tm = L.status.time + dt * sw.coll.nodes[r]
            yield 'my_node:solve_rhs', veq(rec.rhs, rhs)
            yield 'my_node:solve_factor', seq(rec.factor, dt * sw.QI[r + 1, r + 1])
            yield 'my_node:solve_time', seq(rec.t, tm)
            yield 'my_node:solve_guess', veq(rec.u0, st.old_u[r + 1])
            er = P.find_eval(L.f[r + 1])
            yield 'my_node:rhs_re_evaluated', er is not None and bool(veq(er.u, L.u[r + 1])) is True and bool(seq(er.t, tm)) is True
        yield 'status.updated', L.status.updated is True
        yield from frame_clauses(old, snapshot({'L': L}), frame=[f'L.u[{r + 1}]', f'L.f[{r + 1}]', 'L.status.updated', 'L.prob', 'L.sweep.params.comm'])

    def canary(self, st, old, result, exc):
        rec = st.L.prob.find_solve(st.L.u[st.inst['rank'] + 1])
        yield 'canary:rhs_without_u0', veq(rec.rhs, rec.rhs - st.old_u[0])


class MPIEndPoint(_MPISweep):
    name = 'generic_implicit_MPI.compute_end_point'
    target = (SW + 'generic_implicit_MPI.py', 'generic_implicit_MPI.compute_end_point')

    def instances(self, tier):
        out = []
        for r, M in self.rm(tier):
            out.append(dict(rank=r, M=M, tau=False, mode='copy'))
            for t in (False, True):
                out.append(dict(rank=r, M=M, tau=t, mode='quadrature'))
        return out

    def build(self, inst, mk):
        L, comm, log = self.mk_level(inst, mk, coll_update=(inst['mode'] == 'quadrature'))
        if inst['tau']:
            # the full-interval correction lives on the last rank only
            if inst['rank'] < inst['M'] - 1:
                L.tau[-1] = mk.vec('stale_tau_last')
        from contracts.common import plant_earlier_end_value

        st = State(L=L, comm=comm, log=log, inst=inst, call=L.sweep.compute_end_point)
        plant_earlier_end_value(st, L, mk.vec('L.uend_old'))
        self.snap(st)
        return st

    def post(self, st, old, result, exc):
        L, inst, log = st.L, st.inst, st.log
        M, r = inst['M'], inst['rank']
        sw, dt = L.sweep, L.params.dt
        yield 'returns_normally', exc is None
        if exc is None:
            from contracts.common import earlier_end_value_clause

            yield earlier_end_value_clause(st, L)
        if exc is not None:
            return
        if inst['mode'] == 'copy':
            bc = [e for e in log if e[0] == 'Bcast']
            yield 'end_value_broadcast_from_the_last_rank', len(bc) == 1 and bc[0][2] == M - 1 and bc[0][1] is L.uend
            if r == M - 1:
                yield 'last_rank:end_value_is_a_copy_of_its_node', bool(veq(L.uend, st.old_u[M])) is True and L.uend is not L.u[M]
            else:
                yield 'other_ranks:end_value_is_what_was_broadcast', len(bc) == 1 and bc[0][3] is not None and bool(veq(L.uend, bc[0][3])) is True
        else:
            ar = [e for e in log if e[0] == 'Allreduce']
            yield 'one_allreduce_with_my_weighted_rhs', len(ar) == 1 and bool(veq(ar[0][1], dt * sw.coll.weights[r] * ftot(st.old_f[r + 1]))) is True
            if len(ar) != 1:
                return
            exp = cp(st.old_u[0]) + dt * sw.coll.weights[r] * ftot(st.old_f[r + 1]) + ar[0][4]
            if inst['tau']:
                bc = [e for e in log if e[0] == 'Bcast']
                yield 'full_interval_correction_broadcast_from_the_last_rank', len(bc) == 1 and bc[0][2] == M - 1
                if len(bc) == 1:
                    exp = exp + (st.old_tau[M - 1] if r == M - 1 else bc[0][3])
            yield 'end_value_is_u0_plus_reduced_quadrature_plus_correction', veq(L.uend, exp)
        yield 'end_value_is_a_new_object', all(L.uend is not u for u in L.u)
        yield 'node_data_untouched', And(*[veq(L.u[m], st.old_u[m]) for m in range(M + 1)])

    def canary(self, st, old, result, exc):
        yield 'canary:end_value_is_u0', veq(st.L.uend, st.old_u[0])


class MPIResidual(_MPISweep):
    name = 'SweeperMPI.compute_residual'
    target = (SW + 'generic_implicit_MPI.py', 'SweeperMPI.compute_residual')

    def instances(self, tier):
        return [dict(rank=r, M=M, tau=t, rt=rt) for r, M in self.rm(tier) if M <= 2 or r in (0, M - 1) for t in (False, True) for rt in ('full_abs', 'last_abs', 'full_rel', 'last_rel')]

    def build(self, inst, mk):
        L, comm, log = self.mk_level(inst, mk)
        L.params.residual_type = inst['rt']
        L.status.residual = mk.real('res_old')
        L.status.updated = True
        st = State(L=L, comm=comm, log=log, inst=inst, call=lambda: L.sweep.compute_residual(stage='IT_FINE'))
        self.snap(st)
        return st

    def post(self, st, old, result, exc):
        L, inst, log = st.L, st.inst, st.log
        M, r, rt = inst['M'], inst['rank'], inst['rt']
        sw, dt = L.sweep, L.params.dt
        Q = sw.coll.Qmat
        yield 'returns_normally', exc is None
        if exc is not None:
            return
        red = [e for e in log if e[0] == 'Reduce']
        last = rt.startswith('last')
        yield 'rows_reduced', [e[3] for e in red] == ([M - 1] if last else list(range(M)))
        own = next((e for e in red if e[3] == r), None)
        total = (dt * Q[r + 1, r + 1] * ftot(st.old_f[r + 1]) + own[5]) if own is not None else Vec()
        defect = total + st.old_u[0] - st.old_u[r + 1]
        if st.old_tau[r] is not None:
            defect = defect + st.old_tau[r]
        mine = abs(defect) / abs(st.old_u[0]) if rt.endswith('rel') else abs(defect)
        if last:
            bc = [e for e in log if e[0] == 'bcast']
            yield 'last:norm_broadcast_from_the_last_rank', len(bc) == 1 and bc[0][3] == M - 1
            if len(bc) == 1:
                if r == M - 1:
                    yield 'last:the_last_rank_contributes_the_norm_of_its_defect', seq(bc[0][2], mine)
                yield 'residual_is_the_broadcast_value', seq(L.status.residual, bc[0][4])
        else:
            ar = [e for e in log if e[0] == 'allreduce']
            yield 'full:max_reduction_of_my_defect_norm', len(ar) == 1 and bool(seq(ar[0][1], mine)) is True
            if len(ar) == 1:
                yield 'residual_is_the_reduced_maximum', seq(L.status.residual, ar[0][3])
        yield 'status.updated_cleared', L.status.updated is False

    def canary(self, st, old, result, exc):
        yield 'canary:residual_unchanged', seq(st.L.status.residual, sym.Real('res_old'))


def _imex(base, nm):
    return type('IMEX_' + base.__name__, (base,), dict(module='imex_1st_order_MPI', cls='imex_1st_order_MPI', kind='imex', name=f'imex_1st_order_MPI.{nm}',
                                                       target=(SW + 'imex_1st_order_MPI.py', f'imex_1st_order_MPI.{nm}')))


CONTRACTS = [MPIIntegrate, MPIUpdateNodes, MPIEndPoint, MPIResidual, _imex(MPIIntegrate, 'integrate'), _imex(MPIUpdateNodes, 'update_nodes'), _imex(MPIEndPoint, 'compute_end_point')]
