r"""
C09 (further step-size controllers of adaptivity.py) -- contracts on

  AdaptivityResidual.get_new_step_size                           halve / double on residual thresholds
  AdaptivityExtrapolationWithinQ / AdaptivityPolynomialError / AdaptivityCollocation.get_new_step_size
                                                                 proposal = beta*dt*(e_tol/e_est)^(1/order) with the documented order, only once
                                                                 the collocation problem is converged
  AdaptivityForConvergedCollocationProblems.determine_restart    converged: accepted only if e_est <= e_tol (restart otherwise); not converged in
                                                                 the iteration budget / growing or exploding residual: restart with dt/factor
  AdaptivityCollocation.determine_restart
The convergence test (CheckConvergence.check_convergence, contract under C03) is a stub answering an arbitrary flag.
"""

import numpy as np

from vc import sym
from vc.sym import And, Or, Not, Implies, Iff, Ite, smin, smax
from vc.contract import Contract, State, veq, seq, snapshot, frame_clauses
from contracts.common import cls_of
from contracts.C09_restarts import make_ctrl, find_cc, CCD, _Base, adaptivity_ctrl

AD = CCD + 'adaptivity.py'


def _sym_level(mk, c, A):
    S = c.MS[0]
    L = S.levels[0]
    L.params.dt = mk.real('dt')
    mk.assume(L.params.dt > 0, 'dt>0')
    A.params.e_tol = mk.real('e_tol')
    mk.assume(A.params.e_tol > 0, 'e_tol>0')
    if hasattr(A.params, 'beta'):
        A.params.beta = mk.real('beta')
    L.status.dt_new = mk.real('dt_new_old')
    return S, L


class ResidualStepSize(_Base):
    """at the last iteration: residual above the upper threshold (or above restol when use_restol) and decreasing allowed -> dt_new <= dt/2
    (and not above an earlier proposal); residual below the lower threshold and increasing allowed -> dt_new >= 2*dt; otherwise no proposal"""

    name = 'AdaptivityResidual.get_new_step_size'
    target = (AD, 'AdaptivityResidual.get_new_step_size')
    label = 'proved'

    def instances(self, tier):
        return [dict(mods=m, planned=p, use_restol=u) for m in (('increase', 'decrease'), ('decrease',), ('increase',), ()) for p in (True, False) for u in (False, True)]

    def build(self, inst, mk):
        c, A = adaptivity_ctrl(mk, 'AdaptivityResidual', extra=dict(e_tol=1.0, e_tol_low=0.1, max_restarts=5))
        S, L = _sym_level(mk, c, A)
        A.params.e_tol_low = mk.real('e_tol_low')
        mk.assume(A.params.e_tol_low <= A.params.e_tol, 'lower threshold below upper')
        A.params.allowed_modifications = list(inst['mods'])
        A.params.use_restol = inst['use_restol']
        L.params.restol = mk.real('restol')
        L.status.residual = mk.real('res')
        mk.assume(L.status.residual >= 0, 'res>=0')
        if not inst['planned']:
            L.status.dt_new = None
        S.status.iter = mk.int('iter')
        S.params.maxiter = mk.int('maxiter')
        st = State(c=c, A=A, S=S, L=L, inst=inst, old=L.status.dt_new, call=lambda: A.get_new_step_size(c, S))
        return st

    def snapshot(self, st):
        return snapshot({'S': st.S})

    def post(self, st, old, result, exc):
        S, L, A, inst = st.S, st.L, st.A, st.inst
        yield 'returns_normally', exc is None
        if exc is not None:
            return
        res, dt = L.status.residual, L.params.dt
        at_end = bool(S.status.iter == S.params.maxiter)
        # thresholds are specified strictly; behaviour exactly ON a threshold is left open (either reading of the docstring is fine)
        too_big = bool(Or(res > A.params.e_tol, And(res > L.params.restol, inst['use_restol']))) if at_end else False
        on_upper = bool(Or(seq(res, A.params.e_tol), And(seq(res, L.params.restol), inst['use_restol']))) if at_end and not too_big else False
        blocked = too_big and 'decrease' in inst['mods']
        too_small = bool(res < A.params.e_tol_low) if at_end and not blocked else False
        on_lower = bool(seq(res, A.params.e_tol_low)) if at_end and not blocked and not too_small else False
        new = L.status.dt_new
        unchanged = (new is None and st.old is None) or (new is not None and st.old is not None and bool(seq(new, st.old)) is True)
        if blocked:
            yield 'residual_too_large:step_at_most_halved', And(new <= dt / 2, (new <= st.old) if st.old is not None else True)
            yield 'residual_too_large:proposal_is_half_step_or_earlier_plan', Or(seq(new, dt / 2), seq(new, st.old) if st.old is not None else False)
        elif on_upper and 'decrease' in inst['mods']:
            pass
        elif too_small and 'increase' in inst['mods']:
            yield 'residual_small:step_at_least_doubled', And(new >= 2 * dt, (new >= st.old) if st.old is not None else True)
            yield 'residual_small:proposal_is_double_step_or_earlier_plan', Or(seq(new, 2 * dt), seq(new, st.old) if st.old is not None else False)
        elif on_lower and 'increase' in inst['mods']:
            pass
        else:
            yield 'no_proposal_otherwise', unchanged
        yield from frame_clauses(old, snapshot({'S': S}), frame=['S.levels[0].status.dt_new'])

    def canary(self, st, old, result, exc):
        if st.inst['mods'] == ('increase', 'decrease'):
            yield 'canary:never_changes', (st.L.status.dt_new is st.old) if st.old is None else seq(st.L.status.dt_new, st.old)


class ConvergedStepSize(_Base):
    """proposal only once the collocation problem counts as converged; then beta*dt*(e_tol/e_est)^(1/order) with
    order = num_nodes (+1 with high_Taylor_order) [extrapolation within Q], the estimator's order [polynomial error],
    1 + the smaller order of the last two collocation problems [collocation switching]"""

    name = 'Adaptivity{ExtrapolationWithinQ,PolynomialError,Collocation}.get_new_step_size'
    target = (AD, 'AdaptivityExtrapolationWithinQ.get_new_step_size')
    label = 'proved'
    stubs = ('CheckConvergence.check_convergence [C03 contract; here: arbitrary flag]', 'AdaptivityBase.compute_optimal_step_size [contract in C09_restarts]')

    def instances(self, tier):
        return [dict(cls='AdaptivityExtrapolationWithinQ', high=False), dict(cls='AdaptivityExtrapolationWithinQ', high=True),
                dict(cls='AdaptivityPolynomialError'), dict(cls='AdaptivityCollocation', have=2), dict(cls='AdaptivityCollocation', have=1)]

    def build(self, inst, mk):
        extra = dict(e_tol=1e-5)
        if inst['cls'] == 'AdaptivityExtrapolationWithinQ':
            extra['high_Taylor_order'] = inst['high']
        if inst['cls'] == 'AdaptivityCollocation':
            extra['adaptive_coll_params'] = dict(num_nodes=[2, 3])
        c, A = adaptivity_ctrl(mk, inst['cls'], extra=extra, M=3, level_params=dict(restol=1e-8))
        S, L = _sym_level(mk, c, A)
        st = State(c=c, A=A, S=S, L=L, inst=inst, old=L.status.dt_new)
        st.e_est = mk.real('e_est')
        mk.assume(st.e_est > 0, 'e_est>0')
        if inst['cls'] == 'AdaptivityCollocation':
            st.conv = inst['have'] == 2
            st.orders = [mk.int('order_a'), mk.int('order_b')][: inst['have']]
            for o in st.orders:
                mk.assume(o >= 1, 'order>=1')
            A.status.order = list(st.orders)
            A.status.error = [(0.0, mk.real('e_first')), (0.0, st.e_est)][: inst['have']]
        else:
            st.conv = mk.bool('converged')
            A.check_convergence = lambda S_: st.conv
            if inst['cls'] == 'AdaptivityExtrapolationWithinQ':
                L.status.error_extrapolation_estimate = st.e_est
            else:
                for nm in ('error_embedded_estimate', 'order_embedded_estimate'):  # registered by EstimatePolynomialError.setup_status_variables
                    type(L.status).add_attr(nm)
                L.status.error_embedded_estimate = st.e_est
                L.status.order_embedded_estimate = mk.int('order_est')
                mk.assume(L.status.order_embedded_estimate >= 1, 'order>=1')
        st.call = lambda: A.get_new_step_size(c, S)
        return st

    def snapshot(self, st):
        return snapshot({'S': st.S})

    def post(self, st, old, result, exc):
        S, L, A, inst = st.S, st.L, st.A, st.inst
        yield 'returns_normally', exc is None
        if exc is not None:
            return
        if bool(st.conv):
            if inst['cls'] == 'AdaptivityExtrapolationWithinQ':
                order = L.sweep.coll.num_nodes + (1 if inst['high'] else 0)
            elif inst['cls'] == 'AdaptivityPolynomialError':
                order = L.status.order_embedded_estimate
            else:
                order = smin(st.orders[0], st.orders[1]) + 1
            yield 'proposal_is_the_formula_with_the_documented_order', seq(L.status.dt_new, A.params.beta * L.params.dt * (A.params.e_tol / st.e_est) ** (1.0 / order))
        else:
            yield 'no_proposal_before_convergence', seq(L.status.dt_new, st.old)
        yield from frame_clauses(old, snapshot({'S': S}), frame=['S.levels[0].status.dt_new'])

    def canary(self, st, old, result, exc):
        yield 'canary:always_proposes', Not(seq(st.L.status.dt_new, st.old))


class ConvergedRestart(_Base):
    """AdaptivityForConvergedCollocationProblems.determine_restart:
    converged and still above the residual tolerance at the iteration limit (and not converged by increment) -> restart, forced stop, dt/factor on every level, no interpolation
    converged otherwise -> restart iff e_est > e_tol  (so an accepted step has e_est <= e_tol)
    not converged: single step in the block with a residual that grew since the last call (iter > 0, abort flag) or residual above residual_max_tol -> as first case
    the residual is remembered for the next call"""

    name = 'AdaptivityForConvergedCollocationProblems.determine_restart'
    target = (AD, 'AdaptivityForConvergedCollocationProblems.determine_restart')
    label = 'proved'
    stubs = ('CheckConvergence.check_convergence [C03 contract; here: arbitrary flag]',)

    def instances(self, tier):
        out = [dict(restart_at_maxiter=r, abort=a, interpolate=i) for r in (True, False) for a in (True, False) for i in (True, False)]
        # the increment criterion of the finest level (e_tol configured on the level): "converged by increment" suppresses the restart at the iteration limit
        out += [dict(restart_at_maxiter=True, abort=a, interpolate=False, increment=True) for a in (True, False)]
        return out

    def build(self, inst, mk):
        lp = dict(restol=1e-8)
        if inst.get('increment'):
            lp['e_tol'] = 1.0
        c, A = adaptivity_ctrl(mk, 'AdaptivityExtrapolationWithinQ', extra=dict(e_tol=1e-5, restart_at_maxiter=inst['restart_at_maxiter'], abort_at_growing_residual=inst['abort'],
                                                                                    interpolate_between_restarts=inst['interpolate']), M=3, level_params=lp)
        S, L = _sym_level(mk, c, A)
        st = State(c=c, A=A, S=S, L=L, inst=inst)
        if inst.get('increment'):
            for l, Lv in enumerate(S.levels):
                type(Lv.status).add_attr('increment')
                Lv.params.e_tol = mk.real('level_e_tol' if l == 0 else f'coarse{l}.level_e_tol')
                Lv.status.increment = mk.real('increment' if l == 0 else f'coarse{l}.increment')
        st.conv = mk.bool('converged')
        A.check_convergence = lambda S_: st.conv
        st.e_est = mk.real('e_est')
        L.status.error_extrapolation_estimate = st.e_est
        L.status.residual = mk.real('res')
        L.params.restol = mk.real('restol')
        A.res_last_iter = mk.real('res_last')
        A.params.residual_max_tol = mk.real('res_max')
        A.params.factor_if_not_converged = mk.real('factor')
        mk.assume(A.params.factor_if_not_converged > 1, 'factor>1')
        S.status.iter = mk.int('iter')
        mk.assume(S.status.iter >= 0, 'iter>=0')
        S.status.time_size = 1 if inst.get('single', True) else 2
        S.status.restart = mk.bool('restart_old')
        S.status.force_done = mk.bool('force_done_old')
        st.old_restart, st.old_force, st.old_dtnew = S.status.restart, S.status.force_done, L.status.dt_new
        st.res_last = A.res_last_iter
        if inst['interpolate']:
            A.interpolator.status.skip_interpolation = False
        st.call = lambda: A.determine_restart(c, S)
        return st

    def post(self, st, old, result, exc):
        S, L, A, inst = st.S, st.L, st.A, st.inst
        yield 'returns_normally', exc is None
        if exc is not None:
            return
        res = L.status.residual
        conv = bool(st.conv)
        if conv:
            by_increment = inst.get('increment') and bool(And(L.params.e_tol != 0, L.status.increment != 0, L.status.increment < L.params.e_tol))
            nonconv = inst['restart_at_maxiter'] and bool(res > L.params.restol) and not by_increment
        else:
            nonconv = (inst['abort'] and bool(And(st.res_last < res, S.status.iter > 0))) or bool(res > A.params.residual_max_tol)
        if nonconv:
            yield 'not_converged:restart_with_forced_stop', And(S.status.restart, S.status.force_done)
            yield 'not_converged:step_size_divided_by_factor_on_every_level', And(*[seq(Lv.status.dt_new, Lv.params.dt / A.params.factor_if_not_converged) for Lv in S.levels])
            yield 'not_converged:retry_is_smaller', L.status.dt_new < L.params.dt
            if inst['interpolate']:
                yield 'not_converged:interpolation_skipped', A.interpolator.status.skip_interpolation is True
        else:
            if conv:
                yield 'converged:estimate_above_tolerance_restarts', Implies(st.e_est > A.params.e_tol, S.status.restart)
                yield 'converged:restart_only_if_already_requested_or_estimate_reaches_tolerance', Implies(S.status.restart, Or(st.old_restart, st.e_est >= A.params.e_tol))
                yield 'converged:existing_request_kept', Implies(st.old_restart, S.status.restart)
                yield 'converged:accepted_step_has_estimate_at_most_tolerance', Implies(Not(S.status.restart), st.e_est <= A.params.e_tol)
            else:
                yield 'still_iterating:restart_flag_untouched', Iff(S.status.restart, st.old_restart)
            yield 'no_forced_stop', Iff(S.status.force_done, st.old_force)
            yield 'no_step_size_change', seq(L.status.dt_new, st.old_dtnew)
        yield 'residual_remembered_for_next_call', seq(A.res_last_iter, res)

    def canary(self, st, old, result, exc):
        yield 'canary:never_restarts', Iff(st.S.status.restart, st.old_restart)


class CollocationRestart(_Base):
    name = 'AdaptivityCollocation.determine_restart'
    target = (AD, 'AdaptivityCollocation.determine_restart')
    label = 'proved'

    def instances(self, tier):
        return [dict(have=h) for h in (1, 2)]

    def build(self, inst, mk):
        c, A = adaptivity_ctrl(mk, 'AdaptivityCollocation', extra=dict(e_tol=1e-5, adaptive_coll_params=dict(num_nodes=[2, 3])), M=3, level_params=dict(restol=1e-8))
        S, L = _sym_level(mk, c, A)
        st = State(c=c, A=A, S=S, L=L, inst=inst, e_est=mk.real('e_est'))
        A.status.order = [3, 5][: inst['have']]
        A.status.error = [(0.0, mk.real('e_first')), (0.0, st.e_est)][: inst['have']]
        S.status.restart = mk.bool('restart_old')
        st.old_restart = S.status.restart
        st.call = lambda: A.determine_restart(c, S)
        return st

    def post(self, st, old, result, exc):
        S, A = st.S, st.A
        yield 'returns_normally', exc is None
        if exc is not None:
            return
        if st.inst['have'] == 2:
            yield 'all_collocation_problems_done:estimate_above_tolerance_restarts', Implies(st.e_est > A.params.e_tol, S.status.restart)
            yield 'all_collocation_problems_done:restart_only_if_already_requested_or_estimate_reaches_tolerance', Implies(S.status.restart, Or(st.old_restart, st.e_est >= A.params.e_tol))
            yield 'all_collocation_problems_done:existing_request_kept', Implies(st.old_restart, S.status.restart)
        else:
            yield 'collocation_problems_pending:restart_flag_untouched', Iff(S.status.restart, st.old_restart)

    def canary(self, st, old, result, exc):
        if st.inst['have'] == 2:
            yield 'canary:never_restarts', Iff(st.S.status.restart, st.old_restart)


CONTRACTS = [ResidualStepSize, ConvergedStepSize, ConvergedRestart, CollocationRestart]
