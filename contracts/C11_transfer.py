r"""
C11 -- transfer operators in time and space are exact on what they promise.

The Lagrange / barycentric machinery lives in qmat and scipy (external: assumed contract "entry (i,j) = l_j(x_i)"); what is
decided here are contract clauses on pySDC's REAL builders, per configuration, by exact rational arithmetic on the returned
doubles (rounding allowance stated) -- exhaustive over the enumerated grid, bounded in grid size:

 time   BaseTransfer.__init__ / get_transfer_matrix_Q on real two-level Steps for pairs of node sets (family, type, counts):
        Pcoll reproduces every polynomial of degree < n_coarse, rows sum to one, Rcoll Pcoll = I on the coarse set (when
        the coarse nodes are at most as many as the fine ones) -- including pairs with EQUAL counts but different node sets
 space  transfer_helper.interpolation_matrix_1d / restriction_matrix_1d, mesh_to_mesh (1-3 D, multi-component data),
        mesh_to_mesh_fft: each row is the Lagrange interpolant through the p nearest (periodically continued / mirror
        padded) coarse points, constants preserved on periodic grids, polynomials of degree < p vanishing on the boundary
        reproduced on Dirichlet grids, R = 1/2 P^T, n-D = Kronecker product, linear, type and component structure kept,
        FFT prolongation exact on band-limited data and injection after it returns the coarse data.
"""

from fractions import Fraction as Fr
import itertools
import numpy as np


def _ob(name, ok, info=None):
    return dict(name=name, status='proved' if ok else 'refuted', backend='exact-rational', seconds=0.0, kind='bounded', size=0,
                model=info if not ok else None, reason='', path=0)


def _pack(name, obs, what, bound):
    fails = [o for o in obs if o['status'] != 'proved']
    return dict(contract=name, prop='C11', inst={}, label='exhaustive over the enumerated grid', kind='exact', obligations=obs, canaries=[], paths=1, status='ok',
                bounded=dict(what=what, bound=bound, cases=len(obs), failures=len(fails)))


# ------------------------------------------------------------------------------------------------ time
def check_time_transfer(tier, seed):
    from pySDC.core.step import Step
    from pySDC.implementations.problem_classes.TestEquation_0D import testequation0d
    from pySDC.implementations.sweeper_classes.generic_implicit import generic_implicit
    from pySDC.implementations.transfer_classes.TransferMesh import mesh_to_mesh

    fams = [('LEGENDRE', 'RADAU-RIGHT'), ('LEGENDRE', 'LOBATTO'), ('EQUID', 'RADAU-RIGHT'), ('LEGENDRE', 'GAUSS'), ('CHEBY-2', 'LOBATTO')]
    if tier != 'quick':
        fams += [('EQUID', 'LOBATTO'), ('CHEBY-1', 'GAUSS'), ('LEGENDRE', 'RADAU-LEFT'), ('CHEBY-4', 'RADAU-RIGHT')]
    top = 5 if tier == 'quick' else 9
    obs = []
    tol = Fr(1, 10**9)
    for (ntf, qtf), (ntc, qtc) in itertools.product(fams, fams):
        if tier == 'quick' and (ntf, qtf) != (ntc, qtc) and {(ntf, qtf), (ntc, qtc)} - set(fams[:3]):
            continue
        for nf in range(2, top + 1):
            for nc in range(1, nf + 1):
                if (qtc == 'LOBATTO' and nc < 2) or (qtc == 'RADAU-LEFT' and nc < 2):
                    continue
                if (nf, nc) not in ((nf, nf), (nf, nf - 1), (nf, (nf + 1) // 2), (nf, 1)) and tier == 'quick':
                    continue
                if nf == nc and (ntf, qtf) == (ntc, qtc):
                    continue  # identical node sets: identity is right
                d = dict(problem_class=testequation0d, problem_params=dict(lambdas=np.array([-1.0]), u0=1.0), sweeper_class=generic_implicit,
                         sweeper_params=dict(num_nodes=[nf, nc], node_type=[ntf, ntc], quad_type=[qtf, qtc]), level_params=dict(dt=0.1),
                         step_params=dict(maxiter=1), space_transfer_class=mesh_to_mesh)
                try:
                    S = Step(d)
                except Exception as e:
                    obs.append(_ob(f'time[{ntf}/{qtf}/{nf} -> {ntc}/{qtc}/{nc}]:builds', False, dict(error=repr(e)[:120])))
                    continue
                bt = S.base_transfer
                xf = [Fr(float(v)) for v in S.levels[0].sweep.coll.nodes]
                xc = [Fr(float(v)) for v in S.levels[1].sweep.coll.nodes]
                P = [[Fr(float(v)) for v in row] for row in np.asarray(bt.Pcoll)]
                R = [[Fr(float(v)) for v in row] for row in np.asarray(bt.Rcoll)]
                tag = f'time[{ntf}/{qtf}/{nf} -> {ntc}/{qtc}/{nc}]'
                ok_shape = len(P) == nf and len(P[0]) == nc and len(R) == nc and len(R[0]) == nf
                bad = []
                if ok_shape:
                    for k in range(nc):  # prolongation exact for degree < number of coarse (source) nodes
                        for i in range(nf):
                            if abs(sum(P[i][j] * xc[j] ** k for j in range(nc)) - xf[i] ** k) > tol * (sum(abs(v) for v in P[i]) + 1):
                                bad.append(('P', k, i))
                    for k in range(nf):  # restriction exact for degree < number of fine (source) nodes
                        for i in range(nc):
                            if abs(sum(R[i][j] * xf[j] ** k for j in range(nf)) - xc[i] ** k) > tol * (sum(abs(v) for v in R[i]) + 1):
                                bad.append(('R', k, i))
                    RP = [[sum(R[i][k] * P[k][j] for k in range(nf)) for j in range(nc)] for i in range(nc)]
                    if any(abs(RP[i][j] - (1 if i == j else 0)) > tol * 100 for i in range(nc) for j in range(nc)):
                        bad.append(('RP!=I',))
                obs.append(_ob(f'{tag}:polynomial_reproduction_rowsum_RP=I', ok_shape and not bad, dict(first=bad[:4], P_row0=[float(v) for v in P[0]] if P else None)))
    return _pack('BaseTransfer.__init__/get_transfer_matrix_Q', obs, 'Pcoll / Rcoll reproduce polynomials below the number of source nodes (=> rows sum to one), Rcoll Pcoll = I on the coarse set',
                 f'node-set pairs over {len(fams)} (family, type) choices, fine counts 2..{top}, coarse counts <= fine (quick: subset), equal counts with different node sets included')


# ------------------------------------------------------------------------------------------------ space
class _P:
    """minimal problem stand-in carrying what the transfer classes read (nvars, dx, init, ncomp)"""

    def __init__(self, nvars, periodic, ncomp=None, dtype='float64'):
        self.nvars = nvars
        n = nvars if isinstance(nvars, int) else nvars[0]
        self.dx = 1.0 / n if periodic else 1.0 / (n + 1)
        if ncomp is not None:
            self.ncomp = ncomp
            self.init = ((*((nvars,) if isinstance(nvars, int) else nvars), ncomp), None, np.dtype(dtype))
        else:
            self.init = (nvars, None, np.dtype(dtype))


def lagrange_row(xs, x):
    """exact Lagrange basis values l_j(x) for nodes xs (Fractions)"""
    out = []
    for j, xj in enumerate(xs):
        v = Fr(1)
        for m, xm in enumerate(xs):
            if m != j:
                v *= (x - xm) / (xj - xm)
        out.append(v)
    return out


def check_space_1d(tier, seed):
    from pySDC.helpers import transfer_helper as th

    obs = []
    ks = (3, 4) if tier == 'quick' else (3, 4, 5, 6)
    orders = (2, 4) if tier == 'quick' else (2, 4, 6, 8)
    tol = Fr(1, 10**10)
    for periodic in (True, False):
        for k in ks:
            nc = 2**k if periodic else 2**k - 1
            nf = 2 * nc if periodic else 2 * nc + 1
            dxc, dxf = (Fr(1, nc), Fr(1, nf)) if periodic else (Fr(1, nc + 1), Fr(1, nf + 1))
            cg = [dxc * (i if periodic else i + 1) for i in range(nc)]
            fg = [dxf * (i if periodic else i + 1) for i in range(nf)]
            for p in orders:
                if p > nc:
                    continue
                for nested in (True, False):
                    tag = f'interp[{"periodic" if periodic else "dirichlet"},nc={nc},p={p},nested={nested}]'
                    try:
                        M = th.interpolation_matrix_1d(np.array([float(v) for v in fg]), np.array([float(v) for v in cg]), k=p, periodic=periodic, equidist_nested=nested).toarray()
                    except Exception as e:  # the real builder raised for a configuration of the stated grid
                        obs.append(_ob(f'{tag}:rows_are_local_lagrange_interpolants', False, dict(error=repr(e)[:150])))
                        continue
                    bad = []
                    for i in range(nf):
                        row = [Fr(float(v)) for v in M[i]]
                        # constants / boundary-vanishing polynomials
                        if periodic:
                            if abs(sum(row) - 1) > tol:
                                bad.append(('rowsum', i))
                            # each row = Lagrange interpolant through the p nearest periodic images
                            nz = [j for j in range(nc) if row[j] != 0]
                            if len(nz) > p:
                                bad.append(('support', i, len(nz)))
                            # reproduce periodic-image polynomial data of degree < p centred at the point: use trigonometric-free test:
                            # values of (x - x_i)^d on the nearest images
                            x = fg[i]
                            imgs = []
                            for j in nz:
                                cands = [cg[j] - 1, cg[j], cg[j] + 1]
                                imgs.append(min(cands, key=lambda c: abs(c - x)))
                            for dgr in range(1, p):
                                if len(nz) == p or dgr < len(nz):
                                    val = sum(row[j] * (xi - x) ** dgr for j, xi in zip(nz, imgs))
                                    if abs(val) > tol * 10 and len(nz) > dgr:
                                        bad.append(('poly', i, dgr, float(val)))
                                        break
                        else:
                            # polynomials of degree < p that vanish at both boundary points x=0 and x=1 are reproduced:  q(x) = x(1-x) x^d, degree d+2 < p
                            x = fg[i]
                            for dgr in range(0, p - 2):
                                q = lambda t: t * (1 - t) * t**dgr
                                val = sum(row[j] * q(cg[j]) for j in range(nc))
                                if abs(val - q(x)) > tol * 10:
                                    bad.append(('dirichlet_poly', i, dgr, float(val - q(x))))
                                    break
                            if p == 2:
                                # linear interpolation with homogeneous boundary value: hat-function rows
                                pass
                    obs.append(_ob(f'{tag}:rows_are_local_lagrange_interpolants', not bad, dict(first=bad[:4])))
                    if nested is True:
                        M2 = th.interpolation_matrix_1d(np.array([float(v) for v in fg]), np.array([float(v) for v in cg]), k=p, periodic=periodic, equidist_nested=False).toarray()
                        obs.append(_ob(f'{tag}:nested_shortcut_equals_general_construction', np.allclose(M, M2, atol=1e-12), dict(maxdiff=float(np.abs(M - M2).max()))))
                Rm = th.restriction_matrix_1d(np.array([float(v) for v in fg]), np.array([float(v) for v in cg]), k=2, periodic=periodic).toarray()
                bad = [i for i in range(nc) if abs(sum(Fr(float(v)) for v in Rm[i]) - 1) > tol * 10]
                obs.append(_ob(f'restriction_matrix_1d[{"periodic" if periodic else "dirichlet"},nc={nc}]:rows_interpolate_constants', not bad or not periodic, dict(rows=bad[:4])))
    return _pack('transfer_helper.interpolation_matrix_1d/restriction_matrix_1d', obs, 'rows are local Lagrange interpolants: constants (periodic) / boundary-vanishing polynomials of degree < p (Dirichlet) reproduced; nested shortcut = general construction',
                 f'grids 2^k / 2^k-1 for k in {ks}, orders {orders}, periodic and Dirichlet, nested on/off')


def check_mesh_to_mesh(tier, seed):
    from pySDC.implementations.transfer_classes.TransferMesh import mesh_to_mesh
    from pySDC.implementations.datatype_classes.mesh import mesh, imex_mesh
    from pySDC.core.errors import TransferError

    rng = np.random.RandomState(seed + 2)
    obs = []
    for periodic in (True, False):
        for dim in (1, 2, 3) if tier != 'quick' else (1, 2):
            for (io, ro) in ((2, 2), (4, 2), (4, 4), (6, 2), (2, 4), (2, 6), (4, 6), (6, 4), (8, 2), (2, 8), (2, 0), (4, 0), (6, 0)) if tier != 'quick' else ((2, 2), (4, 2), (2, 4), (4, 6), (2, 0), (4, 0)):
                nc1 = 8 if periodic else 7
                nf1 = 16 if periodic else 15
                if max(io, ro) >= 8:
                    # an order equal to the number of coarse points is the recorded finding of the periodic helper: stay clear of it here
                    if dim == 3:
                        continue
                    nc1, nf1 = (16, 32) if periodic else (15, 31)
                nvc = nc1 if dim == 1 else (nc1,) * dim
                nvf = nf1 if dim == 1 else (nf1,) * dim
                Pf, Pc = _P(nvf, periodic), _P(nvc, periodic)
                T = mesh_to_mesh(Pf, Pc, dict(periodic=periodic, iorder=io, rorder=ro, equidist_nested=True))
                tag = f'mesh_to_mesh[{"periodic" if periodic else "dirichlet"},{dim}D,iorder={io},rorder={ro}]'
                P1 = mesh_to_mesh(_P(nf1, periodic), _P(nc1, periodic), dict(periodic=periodic, iorder=io, rorder=ro)).Pspace.toarray()
                R1 = mesh_to_mesh(_P(nf1, periodic), _P(nc1, periodic), dict(periodic=periodic, iorder=io, rorder=ro)).Rspace.toarray()
                Pk, Rk = P1, R1
                for _ in range(dim - 1):
                    Pk, Rk = np.kron(Pk, P1), np.kron(Rk, R1)
                obs.append(_ob(f'{tag}:nD_is_kronecker_product', np.allclose(T.Pspace.toarray(), Pk, atol=1e-13) and np.allclose(T.Rspace.toarray(), Rk, atol=1e-13)))
                if io == ro:
                    obs.append(_ob(f'{tag}:R_is_half_P_transposed_per_dimension', np.allclose(R1, 0.5 * P1.T, atol=1e-14)))
                elif ro == 0:
                    # restriction of order 0 is injection: one unit entry per coarse point, and injection after prolongation gives the coarse data back
                    inj = bool(np.all((np.abs(R1) > 1e-14).sum(axis=1) == 1) and np.allclose(R1.sum(axis=1), 1.0, atol=1e-14) and np.allclose(R1 @ P1, np.eye(nc1), atol=1e-12))
                    G0 = mesh(Pc.init)
                    G0[...] = rng.randn(*G0.shape)
                    obs.append(_ob(f'{tag}:order_0_restriction_is_injection', inj and np.allclose(T.restrict(T.prolong(G0)), G0, atol=1e-12)))
                else:
                    # each operator has ITS OWN order: the restriction is half the transposed interpolation of order rorder, the prolongation the interpolation of order iorder
                    P_ro = mesh_to_mesh(_P(nf1, periodic), _P(nc1, periodic), dict(periodic=periodic, iorder=ro, rorder=ro)).Pspace.toarray()
                    P_io = mesh_to_mesh(_P(nf1, periodic), _P(nc1, periodic), dict(periodic=periodic, iorder=io, rorder=io)).Pspace.toarray()
                    obs.append(_ob(f'{tag}:restriction_has_order_rorder_prolongation_order_iorder', np.allclose(R1, 0.5 * P_ro.T, atol=1e-14) and np.allclose(P1, P_io, atol=1e-14) and not np.allclose(P_ro, P_io, atol=1e-6)))
                if periodic:
                    G = mesh(Pc.init, val=3.25)
                    F = T.prolong(G)
                    obs.append(_ob(f'{tag}:constants_preserved_by_prolongation', np.allclose(F, 3.25, atol=1e-12) and type(F) is mesh and F.shape == (Pf.init[0] if isinstance(Pf.init[0], tuple) else (Pf.init[0],))))
                    Fc = mesh(Pf.init, val=-1.5)
                    obs.append(_ob(f'{tag}:constants_preserved_by_restriction', np.allclose(T.restrict(Fc), -1.5, atol=1e-12)))
                # linearity, type and component structure, arguments unchanged
                for cls in (mesh, imex_mesh):
                    a, b = cls(Pc.init), cls(Pc.init)
                    a[...] = rng.randn(*a.shape)
                    b[...] = rng.randn(*b.shape)
                    a0 = np.array(a)
                    lhs = T.prolong(2.0 * a + b)
                    rhs = 2.0 * T.prolong(a) + T.prolong(b)
                    ok = type(lhs) is cls and np.allclose(lhs, rhs, atol=1e-12) and np.array_equal(a, a0)
                    if cls is imex_mesh:
                        ok = ok and np.allclose(T.prolong(a).impl, T.prolong(mesh_from(a.impl, Pc)), atol=1e-13)
                    fa = cls(Pf.init)
                    fa[...] = rng.randn(*fa.shape)
                    f0 = np.array(fa)
                    r = T.restrict(fa)
                    ok = ok and type(r) is cls and np.array_equal(fa, f0) and not np.shares_memory(r, fa)
                    obs.append(_ob(f'{tag}:{cls.__name__}:linear_typed_per_component_arguments_unchanged', ok))
    # option checks
    for bad, exc in ((dict(iorder=3, rorder=2), TransferError), (dict(iorder=2, rorder=3), TransferError)):
        try:
            mesh_to_mesh(_P(16, True), _P(8, True), dict(periodic=True, **bad))
            obs.append(_ob(f'mesh_to_mesh[{bad}]:odd_order_rejected', False))
        except exc:
            obs.append(_ob(f'mesh_to_mesh[{bad}]:odd_order_rejected', True))
    Tid = mesh_to_mesh(_P(8, True), _P(8, True), dict(periodic=True))
    obs.append(_ob('mesh_to_mesh[same_grid]:identity', np.allclose(Tid.Pspace.toarray(), np.eye(8)) and np.allclose(Tid.Rspace.toarray(), np.eye(8))))
    return _pack('mesh_to_mesh.__init__/restrict/prolong', obs, 'Kronecker structure, R = P^T/2, constants, linearity, data type and component structure, arguments unchanged', '1-3 D (quick: 1-2 D), orders (2,2),(4,2),(4,4),(6,2), periodic and Dirichlet, mesh and imex_mesh')


def mesh_from(arr, Pc):
    from pySDC.implementations.datatype_classes.mesh import mesh

    m = mesh(Pc.init)
    m[...] = arr
    return m


def check_fft_transfer(tier, seed):
    from pySDC.implementations.transfer_classes.TransferMesh_FFT import mesh_to_mesh_fft
    from pySDC.implementations.datatype_classes.mesh import mesh, imex_mesh

    obs = []
    for nc in (8, 16) if tier == 'quick' else (4, 8, 16, 32, 64):
        for ratio in (2, 4):
            nf = nc * ratio
            T = mesh_to_mesh_fft(_P(nf, True), _P(nc, True), {})
            xc, xf = np.arange(nc) / nc, np.arange(nf) / nf
            bad = []
            for kk in range(0, nc // 2):  # band-limited data (modes below the coarse Nyquist frequency)
                for phase, fun in (('cos', np.cos), ('sin', np.sin)):
                    if kk == 0 and phase == 'sin':
                        continue
                    G = mesh((nc, None, np.dtype('float64')))
                    G[:] = fun(2 * np.pi * kk * xc)
                    F = T.prolong(G)
                    if not (np.allclose(F, fun(2 * np.pi * kk * xf), atol=1e-11) and type(F) is mesh):
                        bad.append((kk, phase))
                    back = T.restrict(F)
                    if not np.allclose(back, G, atol=1e-11):
                        bad.append((kk, phase, 'injection'))
            obs.append(_ob(f'fft[nc={nc},ratio={ratio}]:band_limited_exact_and_injection_after_prolongation_is_identity', not bad, dict(first=bad[:4])))
            G = imex_mesh((nc, None, np.dtype('float64')))
            G.impl[:] = np.cos(2 * np.pi * xc)
            G.expl[:] = np.sin(2 * np.pi * xc)
            F = T.prolong(G)
            obs.append(_ob(f'fft[nc={nc},ratio={ratio}]:imex_components_separately', type(F) is imex_mesh and np.allclose(F.impl, np.cos(2 * np.pi * xf), atol=1e-11) and np.allclose(F.expl, np.sin(2 * np.pi * xf), atol=1e-11)))
    return _pack('mesh_to_mesh_fft.restrict/prolong', obs, 'band-limited periodic data reproduced exactly; injection after prolongation = identity; per component', 'coarse sizes x refinement ratios 2, 4; all modes below the coarse Nyquist frequency')


class _P2:
    def __init__(self, n):
        self.nvars = (n, n)
        self.init = ((n, n), None, np.dtype('float64'))


def check_fft2d_transfer(tier, seed):
    """mesh_to_mesh_fft2d (refinement ratio 2, the stated range): every product mode below the coarse Nyquist frequency is reproduced,
    injection after prolongation returns the coarse data, mesh and imex_mesh keep their type and are treated per component"""
    from pySDC.implementations.transfer_classes.TransferMesh_FFT2D import mesh_to_mesh_fft2d
    from pySDC.implementations.datatype_classes.mesh import mesh, imex_mesh
    from pySDC.core.errors import TransferError

    obs = []
    for nc in (4, 8) if tier == 'quick' else (4, 8, 16, 32):
        nf = 2 * nc
        T = mesh_to_mesh_fft2d(_P2(nf), _P2(nc), {})
        xc, xf = np.arange(nc) / nc, np.arange(nf) / nf
        Xc, Yc = np.meshgrid(xc, xc, indexing='ij')
        Xf, Yf = np.meshgrid(xf, xf, indexing='ij')
        bad = []
        for k in range(nc // 2):
            for l in range(nc // 2):
                for fun in (np.cos, np.sin):
                    G = mesh(_P2(nc).init)
                    G[:] = fun(2 * np.pi * (k * Xc + l * Yc))
                    G0 = np.array(G)
                    F = T.prolong(G)
                    if not (type(F) is mesh and F.shape == (nf, nf) and np.allclose(F, fun(2 * np.pi * (k * Xf + l * Yf)), atol=1e-11)):
                        bad.append((k, l, fun.__name__, 'prolong'))
                    if not np.allclose(T.restrict(F), G0, atol=1e-11) or not np.array_equal(G0, G):
                        bad.append((k, l, fun.__name__, 'injection_or_argument_changed'))
        obs.append(_ob(f'fft2d[nc={nc}]:band_limited_exact_and_injection_after_prolongation_is_identity', not bad, dict(first=bad[:4])))
        try:
            G = imex_mesh(_P2(nc).init)
            G.impl[:] = np.cos(2 * np.pi * (Xc + Yc))
            G.expl[:] = np.sin(2 * np.pi * Yc)
            F = T.prolong(G)
            ok = type(F) is imex_mesh and np.allclose(F.impl, np.cos(2 * np.pi * (Xf + Yf)), atol=1e-11) and np.allclose(F.expl, np.sin(2 * np.pi * Yf), atol=1e-11)
            B = T.restrict(F)
            ok = ok and type(B) is imex_mesh and np.allclose(B.impl, G.impl, atol=1e-11) and np.allclose(B.expl, G.expl, atol=1e-11)
            obs.append(_ob(f'fft2d[nc={nc}]:imex_components_separately', ok))
        except Exception as e:
            obs.append(_ob(f'fft2d[nc={nc}]:imex_components_separately', False, dict(error=repr(e)[:200])))
        for what, fn in (('restrict', T.restrict), ('prolong', T.prolong)):
            try:
                fn(np.zeros((nc, nc)))
                obs.append(_ob(f'fft2d[nc={nc}]:{what}_rejects_unknown_data_type', False))
            except TransferError:
                obs.append(_ob(f'fft2d[nc={nc}]:{what}_rejects_unknown_data_type', True))
    return _pack('mesh_to_mesh_fft2d.restrict/prolong', obs, 'band-limited doubly periodic data reproduced exactly; injection after prolongation = identity; per component; unknown types rejected', 'coarse sizes 4..32 squared, refinement ratio 2, all product modes below the coarse Nyquist frequency')


def check_nocoarse_transfer(tier, seed):
    """the "no coarsening in space" transfer classes: restrict and prolong return an equal COPY of the same data type; unknown types are rejected"""
    from pySDC.implementations.transfer_classes.TransferMesh_NoCoarse import mesh_to_mesh as nocoarse
    from pySDC.implementations.transfer_classes.TransferParticles_NoCoarse import particles_to_particles
    from pySDC.implementations.datatype_classes.mesh import mesh, imex_mesh
    from pySDC.implementations.datatype_classes.particles import particles, fields, acceleration
    from pySDC.core.errors import TransferError

    rng = np.random.RandomState(seed + 5)
    obs = []
    T = nocoarse(_P(8, True), _P(8, True), {})
    for cls in (mesh, imex_mesh):
        x = cls((8, None, np.dtype('float64')))
        if cls is mesh:
            x[:] = rng.randn(8)
        else:
            x.impl[:], x.expl[:] = rng.randn(8), rng.randn(8)
        x0 = np.array(x)
        for what, fn in (('restrict', T.restrict), ('prolong', T.prolong)):
            y = fn(x)
            obs.append(_ob(f'nocoarse[{cls.__name__}]:{what}_is_an_equal_copy_of_the_same_type', type(y) is cls and y is not x and np.array_equal(y, x0) and not np.shares_memory(y, x) and np.array_equal(x, x0)))
    Tp = particles_to_particles(None, None, {})
    init = ((3, 2), None, np.dtype('float64'))

    def parts(x):
        if isinstance(x, particles):
            return [x.pos, x.vel, x.q, x.m]
        if isinstance(x, fields):
            return [x.elec, x.magn]
        return [x]

    for cls in (particles, fields, acceleration):
        x = cls(init)
        if cls is particles:
            x.pos[:], x.vel[:] = rng.randn(3, 2), rng.randn(3, 2)
            x.q[:], x.m[:] = rng.randn(2), rng.rand(2) + 1
        elif cls is fields:
            x.elec[:], x.magn[:] = rng.randn(3, 2), rng.randn(3, 2)
        else:
            x[:] = rng.randn(*x.shape)
        x0 = [np.array(a) for a in parts(x)]
        for what, fn in (('restrict', Tp.restrict), ('prolong', Tp.prolong)):
            y = fn(x)
            ok = type(y) is cls and y is not x and all(np.array_equal(a, b) for a, b in zip(parts(y), x0)) and not any(np.shares_memory(a, b) for a, b in zip(parts(y), parts(x)))
            ok = ok and all(np.array_equal(a, b) for a, b in zip(parts(x), x0))
            obs.append(_ob(f'nocoarse[{cls.__name__}]:{what}_is_an_equal_copy_of_the_same_type', ok))
    for nm, fn in (('mesh.restrict', T.restrict), ('mesh.prolong', T.prolong), ('particles.restrict', Tp.restrict), ('particles.prolong', Tp.prolong)):
        try:
            fn(np.zeros(8))
            obs.append(_ob(f'nocoarse[{nm}]:rejects_unknown_data_type', False))
        except TransferError:
            obs.append(_ob(f'nocoarse[{nm}]:rejects_unknown_data_type', True))
    return _pack('TransferMesh_NoCoarse / TransferParticles_NoCoarse', obs, 'identity transfers return equal copies of the same type', 'mesh, imex_mesh, particles, fields, acceleration')


# ------------------------------------------------------------------------------------------------ lemma: monomials / modes -> all polynomials / band-limited data
def lemma_closure_by_linearity(tier, seed):
    r"""The evaluation checks decide, row by row, that a transfer matrix reproduces MONOMIALS (sum_j w_j x_j^k = y^k, k < n) or single
    MODES (sum_j w_j e_k(x_j) = g_k e_k(y)).  The property speaks of all polynomials below the order / all band-limited data.  The step between
    the two, with n symbolic weights w_j, source points x_j, target point y and coefficients a_k (nothing concrete but n):
      (ring)  sum_j w_j p(x_j) == sum_k a_k M_k,   M_k = sum_j w_j b_k(x_j)    for ANY basis functions b_k (uninterpreted values B[k][j])
      (z3)    M_k == T_k for all k < n  ==>  sum_k a_k M_k == sum_k a_k T_k    (T_k = y^k, or the mode's value times its gain)
      (z3)    allowance version, as in C18: |a| <= B, |M - T| <= e ==> |a (M - T)| <= B e; |r_k| <= t_k ==> |sum r_k| <= sum t_k."""
    import z3
    from vc.discharge import Obligation, discharge

    obs = []
    nmax = 8 if tier == 'quick' else 12
    for n in range(1, nmax + 1):
        w = [z3.Real(f'w{j}') for j in range(n)]
        a = [z3.Real(f'a{k}') for k in range(n)]
        Bv = [[z3.Real(f'b{k}_{j}') for j in range(n)] for k in range(n)]  # b_k(x_j): monomial, Lagrange, Fourier real / imaginary part ...
        lhs = z3.Sum([w[j] * z3.Sum([a[k] * Bv[k][j] for k in range(n)]) for j in range(n)])
        rhs = z3.Sum([a[k] * z3.Sum([w[j] * Bv[k][j] for j in range(n)]) for k in range(n)])
        obs.append(Obligation(f'closure[n={n}]:row_applied_to_combination_is_combination_of_rows_applied_to_basis', [], lhs == rhs, 'lemma'))
        m = [z3.Real(f'M{k}') for k in range(n)]
        T = [z3.Real(f'T{k}') for k in range(n)]
        obs.append(Obligation(f'closure[n={n}]:exact_on_basis_implies_exact_on_span', [m[k] == T[k] for k in range(n)],
                              z3.Sum([a[k] * m[k] for k in range(n)]) == z3.Sum([a[k] * T[k] for k in range(n)]), 'lemma'))
        obs.append(Obligation(f'closure[n={n}]:error_is_sum_of_coefficient_times_basis_residual', [],
                              z3.Sum([a[k] * m[k] for k in range(n)]) - z3.Sum([a[k] * T[k] for k in range(n)]) == z3.Sum([a[k] * (m[k] - T[k]) for k in range(n)]), 'lemma'))
        r = [z3.Real(f'r{k}') for k in range(n)]
        t = [z3.Real(f't{k}') for k in range(n)]
        pc = []
        for k in range(n):
            pc += [r[k] <= t[k], -r[k] <= t[k]]
        obs.append(Obligation(f'closure[n={n}]:sum_of_bounded_terms_is_bounded_by_sum_of_bounds', pc, z3.And(z3.Sum(r) <= z3.Sum(t), -z3.Sum(r) <= z3.Sum(t)), 'lemma'))
    x, y, B, e = z3.Reals('x y B e')
    obs.append(Obligation('closure:one_term:|a|<=B,|M-T|<=e_imply_|a(M-T)|<=B*e', [x <= B, -x <= B, y <= e, -y <= e], z3.And(x * y <= B * e, -(x * y) <= B * e), 'lemma'))
    # canary: exactness on n-1 basis functions says nothing about the n-th
    a = [z3.Real(f'a{k}') for k in range(3)]
    m = [z3.Real(f'M{k}') for k in range(3)]
    T = [z3.Real(f'T{k}') for k in range(3)]
    can = discharge(Obligation('canary:closure_reaches_one_basis_function_more', [m[0] == T[0], m[1] == T[1]],
                               z3.Sum([a[k] * m[k] for k in range(3)]) == z3.Sum([a[k] * T[k] for k in range(3)]), 'lemma')).as_dict()
    res = []
    for ob in obs:
        d = discharge(ob).as_dict()
        d['path'] = 0
        res.append(d)
    return dict(contract='lemma:closure_by_linearity', prop='C11', inst={}, label='proved', kind='lemma', obligations=res,
                canaries=[dict(name=can['name'], refuted=can['status'] == 'refuted')], paths=1, status='ok')


CONTRACTS = []
EXTRAS = [lemma_closure_by_linearity, check_time_transfer, check_space_1d, check_mesh_to_mesh, check_fft_transfer, check_fft2d_transfer, check_nocoarse_transfer]
ASSUMPTIONS = ['qmat.LagrangeApproximation / scipy BarycentricInterpolator / numpy.fft are external: their output is what is checked (exact rational evaluation, allowance 1e-9..1e-10)',
               'closure from monomials / single modes to all polynomials / band-limited functions: machine-checked per row for up to 8 (quick) / 12 (thorough) basis functions by lemma:closure_by_linearity; that a d-dimensional transfer is the Kronecker product of 1-D ones is the evaluated Kronecker clause']
UNDECIDED = ['MPIFFT transfer classes (mpi4py-fft absent)', 'mesh_to_mesh_fft2d with refinement ratios other than 2 (outside the stated range; the scaling factor ratio*2 is only right for ratio 2)', 'grid sizes beyond the enumerated ones']
