r"""
C01 -- a converged SDC / MLSDC / PFASST run returns the fine collocation solution.

C01 is a composition; the pieces that are machine-checked here:

 (1) SweepFixedPoint   the zero-defect point U = u0 + dt Q F(U) + tau is a fixed point of the REAL update_nodes of
                       generic_implicit / explicit / imex_1st_order for ANY lower-triangular QDelta (symbolic), any dt,
                       any (nonlinear) F  -> "the preconditioner changes the iteration count, never the answer"
 (2) lemma converse    U' = U in the C02 sweep relation  =>  zero defect (polynomial identity over the contract formulas)
 (3) coarse levels     C10's cycle contract (restrict -> coarse sweep -> prolong leaves the fine solution unchanged),
                       re-exported under C01
 (4) what is returned  recv_full copies the predecessor's end value and re-evaluates f (C07), compute_end_point (C02),
                       run returns the last accepted end value (C06): re-exported under C01
 (5) bounded stand-in  REAL controller runs (SDC, MSSDC Jacobi/Gauss-Seidel, MLSDC, PFASST with every predictor) on random
                       scalar/vector Dahlquist and IMEX problems iterated to residual tolerance, compared with the
                       independently computed collocation solution of every step. Labelled bounded.
Not decided: the conditioning constant in "up to a small multiple of the tolerance" (numerical analysis).
"""

import numpy as np

from vc import sym
from vc.sym import And, Or, Not, Implies
from vc.vec import Vec, vec_provably_equal, scalar_provably_equal
from vc.contract import Contract, State, veq, seq, vsum, snapshot
from vc.discharge import Obligation, discharge
from contracts.common import make_level, cls_of, lower, strictly_lower0, cp, ftot
from contracts.C02_sweep import SW, GI, EX, IMEX, fI

import z3


def install_unique_solve(P, st):
    """solver contract incl. uniqueness: if the initial guess already satisfies guess - a F_impl(guess, t) = rhs it is
    returned (for a = 0 the solution is rhs itself)"""
    real = P.solve_system

    def solve(rhs, a, u0, t):
        for r in P.evals:
            if vec_provably_equal(r.u, u0) and scalar_provably_equal(r.t, t):
                fimpl = r.f if isinstance(r.f, Vec) else r.f.impl
                if vec_provably_equal(u0 - a * fimpl, rhs):
                    st.hits += 1
                    return Vec(u0)
        return real(rhs, a, u0, t)

    P.solve_system = solve


class SweepFixedPoint(Contract):
    prop = 'C01'
    label = 'instance-proved'
    native = False
    sweeper = GI
    kind = 'full'
    stubs = ('Problem.eval_f [uninterpreted, congruent]', 'Problem.solve_system [C12 contract incl. uniqueness]')

    def instances(self, tier):
        Ms = (1, 2, 3) if tier == 'quick' else (1, 2, 3, 4)
        return [dict(M=M, tau=t) for M in Ms for t in (False, True)]

    def build(self, inst, mk):
        cls = cls_of(SW + self.sweeper[0], self.sweeper[1])
        M = inst['M']
        L = make_level(cls, M, mk, kind=self.kind, tau=inst['tau'], fill=True)
        sw, P = L.sweep, L.prob
        if hasattr(sw, 'QI'):
            sw.QI = mk.matrix('L.QI', M + 1, M + 1, lower)
        if hasattr(sw, 'QE'):
            sw.QE = mk.matrix('L.QE', M + 1, M + 1, strictly_lower0)
        st = State(L=L, M=M, hits=0)
        # the level holds a zero-defect point: f_j = F(u_j, t_j) and u_{m+1} = u0 + sum_j dt Q[m+1,j] f_j + tau_m.
        # Construct it by substitution: take f_j as the atoms F returns for (u_j, t_j) and define u_j through them.
        dt, Q = L.params.dt, sw.coll.Qmat
        fs = [L.f[j] for j in range(M + 1)]
        for m in range(M):
            L.u[m + 1] = L.u[0] + vsum(dt * Q[m + 1, j] * ftot(fs[j]) for j in range(1, M + 1)) + (L.tau[m] if inst['tau'] else 0)
        from vc.ghost.problem import Rec

        for j in range(1, M + 1):
            P.evals.append(Rec(f=cp(fs[j]), u=Vec(L.u[j]), t=L.status.time + dt * sw.coll.nodes[j - 1], k=len(P.evals)))
        install_unique_solve(P, st)
        st.old_u = [cp(u) for u in L.u]
        st.old_f = [cp(f) for f in L.f]
        st.call = sw.update_nodes
        return st

    def post(self, st, old, result, exc):
        L, M = st.L, st.M
        yield 'returns_normally', exc is None
        if exc is not None:
            return
        for m in range(1, M + 1):
            yield f'node{m}:collocation_solution_is_a_fixed_point', veq(L.u[m], st.old_u[m])
            yield f'f{m}:unchanged', veq(L.f[m], st.old_f[m])

    def canary(self, st, old, result, exc):
        yield 'canary:first_node_equals_u0', veq(st.L.u[1], st.old_u[0])


class SweepFixedPointExplicit(SweepFixedPoint):
    name = 'explicit.update_nodes [fixed point]'
    target = (SW + EX[0], 'explicit.update_nodes')
    sweeper = EX


class SweepFixedPointImplicit(SweepFixedPoint):
    name = 'generic_implicit.update_nodes [fixed point]'
    target = (SW + GI[0], 'generic_implicit.update_nodes')
    sweeper = GI


class SweepFixedPointIMEX(SweepFixedPoint):
    name = 'imex_1st_order.update_nodes [fixed point]'
    target = (SW + IMEX[0], 'imex_1st_order.update_nodes')
    sweeper = IMEX
    kind = 'imex'


def lemma_converse(tier, seed):
    r"""converse direction over the C02 contract formulas (implicit form): if the sweep reproduces its input,
    u_{m+1} - a_m f_{m+1} = u0 + sum_j dt (Q - QI)[m+1,j] f_j + sum_{j<=m} dt QI[m+1,j] f_j + tau_m with a_m = dt QI[m+1,m+1],
    then defect_m = u0 + sum_j dt Q[m+1,j] f_j + tau_m - u_{m+1} = 0. Scalar version per atom (linear in the data)."""
    res = []
    for M in (1, 2, 3) if tier == 'quick' else (1, 2, 3, 4, 5):
        dt, u0 = z3.Reals('dt u0')
        u = [z3.Real(f'u{m}') for m in range(M + 1)]
        f = [z3.Real(f'f{m}') for m in range(M + 1)]
        tau = [z3.Real(f'tau{m}') for m in range(M)]
        Q = [[z3.Real(f'Q{i}_{j}') for j in range(M + 1)] for i in range(M + 1)]
        QI = [[z3.Real(f'QI{i}_{j}') if 1 <= j <= i else z3.RealVal(0) for j in range(M + 1)] for i in range(M + 1)]
        for m in range(M):
            relation = u[m + 1] - dt * QI[m + 1][m + 1] * f[m + 1] == u0 + sum(dt * (Q[m + 1][j] - QI[m + 1][j]) * f[j] for j in range(1, M + 1)) + sum(
                dt * QI[m + 1][j] * f[j] for j in range(1, m + 1)) + tau[m]
            defect = u0 + sum(dt * Q[m + 1][j] * f[j] for j in range(1, M + 1)) + tau[m] - u[m + 1]
            d = discharge(Obligation(f'fixed_point_implies_zero_defect[M={M},m={m + 1}]', [relation], defect == 0, 'lemma')).as_dict()
            d['path'] = 0
            res.append(d)
    return dict(contract='lemma:fixed_point_converse', prop='C01', inst={}, label='proved', kind='lemma', obligations=res, canaries=[], paths=1, status='ok')


def collocation_reference(lam, u0, dt, Q, w, right_is_node, coll_update):
    """solve (I - dt Q x diag(lam)) U = 1 x u0 independently (numpy, dense)"""
    M, n = Q.shape[0], len(lam)
    A = np.eye(M * n, dtype=complex) - dt * np.kron(Q, np.diag(lam))
    U = np.linalg.solve(A, np.tile(u0, M)).reshape(M, n)
    if right_is_node and not coll_update:
        return U[-1]
    return u0 + dt * sum(w[m] * lam * U[m] for m in range(M))


def bounded_runs(tier, seed):
    from pySDC.implementations.controller_classes.controller_nonMPI import controller_nonMPI
    from pySDC.implementations.problem_classes.TestEquation_0D import testequation0d, test_equation_IMEX
    from pySDC.implementations.sweeper_classes.generic_implicit import generic_implicit
    from pySDC.implementations.sweeper_classes.imex_1st_order import imex_1st_order
    from pySDC.implementations.transfer_classes.TransferMesh import mesh_to_mesh
    from pySDC.implementations.hooks.log_solution import LogSolution
    from pySDC.helpers.stats_helper import get_sorted
    import logging

    rng = np.random.RandomState(seed + 11)
    cases, fails = 0, []
    cfgs = []
    for nprocs in (1, 2, 3):
        for nlev in (1, 2):
            for qi in ('IE', 'LU', 'MIN-SR-S'):
                for jac in (True, False):
                    if nprocs == 1 and not jac:
                        continue
                    preds = (None,) if nlev == 1 else ((None, 'fine_only', 'pfasst_burnin') if tier != 'quick' else ('pfasst_burnin', None))
                    for pred in preds:
                        cfgs.append(dict(nprocs=nprocs, nlev=nlev, QI=qi, jac=jac, pred=pred, imex=False))
    cfgs += [dict(nprocs=2, nlev=1, QI='IE', jac=False, pred=None, imex=True), dict(nprocs=1, nlev=2, QI='LU', jac=True, pred=None, imex=True)]
    # other quadrature types (end point by quadrature, left end point a node), other initial guesses, the explicit sweeper
    for quad in ('LOBATTO', 'RADAU-LEFT', 'GAUSS'):
        for guess in ('spread', 'zero'):
            cfgs.append(dict(nprocs=2 if guess == 'spread' else 1, nlev=1, QI='PIC' if quad != 'GAUSS' else 'IE', jac=True, pred=None, imex=False, quad=quad, guess=guess, force=True))
        cfgs.append(dict(nprocs=1, nlev=1, QI='IE', jac=True, pred=None, imex=False, quad=quad, guess='spread', explicit=True, force=True))
    if tier == 'quick':
        cfgs = [c for i, c in enumerate(cfgs) if i % 2 == 0 or c.get('force')]
    for cf in cfgs:
        lam = -rng.rand(3) * 2.0 + 1j * rng.randn(3)
        dt = 0.1
        M = 3
        lp = dict(dt=dt, restol=1e-12, residual_type=['full_abs', 'last_abs', 'full_rel', 'last_rel'][cases % 4])
        sp = dict(num_nodes=[M, 2] if cf['nlev'] == 2 else M, quad_type=cf.get('quad', 'RADAU-RIGHT'), QI=cf['QI'], initial_guess=cf.get('guess', 'spread'))
        if cf.get('explicit'):
            from pySDC.implementations.sweeper_classes.explicit import explicit

            sp.pop('QI')
            lam = lam * 0.3
        if cf['imex']:
            pp = dict(lambdas_implicit=lam * 0.7, lambdas_explicit=lam * 0.3, u0=1.0)
            d = dict(problem_class=test_equation_IMEX, problem_params=pp, sweeper_class=imex_1st_order)
        else:
            d = dict(problem_class=testequation0d, problem_params=dict(lambdas=lam, u0=1.0), sweeper_class=explicit if cf.get('explicit') else generic_implicit)
        d.update(sweeper_params=sp, level_params=lp, step_params=dict(maxiter=200))
        if cf['nlev'] == 2:
            d['space_transfer_class'] = mesh_to_mesh
        try:
            c = controller_nonMPI(num_procs=cf['nprocs'], controller_params=dict(logger_level=40, hook_class=[LogSolution], mssdc_jac=cf['jac'], predict_type=cf['pred'], dump_setup=False), description=d)
            P = c.MS[0].levels[0].prob
            u0 = P.u_exact(0.0) if hasattr(P, 'u_exact') else None
            Tend = dt * (cf['nprocs'] + 2)
            uend, stats = c.run(u0=u0, t0=0.0, Tend=Tend)
        except Exception as e:
            cases += 1
            fails.append((str(cf), 'run failed: ' + repr(e)[:150]))
            continue
        coll = c.MS[0].levels[0].sweep.coll
        us = get_sorted(stats, type='u', sortby='time')
        ref = np.array(u0)
        t = 0.0
        for (te, u) in us:
            cases += 1
            ref = collocation_reference(lam, ref, dt, coll.Qmat[1:, 1:], coll.weights, coll.right_is_node, c.MS[0].levels[0].sweep.params.do_coll_update)
            err = np.max(np.abs(np.asarray(u) - ref))
            if not err <= 1e-8:
                fails.append((str(cf), f't={te}: distance to the fine collocation solution {err:.2e}'))
        cases += 1
        if len(us) != round(Tend / dt) or abs(us[-1][0] - Tend) > 1e-9 or np.max(np.abs(np.asarray(uend) - np.asarray(us[-1][1]))) > 0:
            fails.append((str(cf), f'{len(us)} steps logged, last at {us[-1][0] if us else None}, returned value differs from last logged'))
    ob = dict(name='bounded:converged_runs_return_the_fine_collocation_solution', status='proved' if not fails else 'refuted', backend='native-run', seconds=0.0, kind='bounded', size=0,
              model=dict(first=fails[:5]) if fails else None, reason='', path=0, counted=False)
    return dict(contract='bounded:controller_nonMPI.run[converged]', prop='C01', inst={}, label='bounded', kind='bounded', obligations=[ob], canaries=[], paths=1, status='ok',
                bounded=dict(what='real runs iterated to restol=1e-12 compared with the independently solved collocation problem of every step (chained from the previous end value)',
                             bound=f'{len(cfgs)} configurations: 1-3 steps per block, 1-2 levels (node coarsening), IE/LU/MIN-SR-S, Jacobi/Gauss-Seidel, predictors, scalar-vector Dahlquist and IMEX, all residual types', cases=cases, failures=len(fails)))


def _reexports():
    from contracts.C10_fas import CycleFixedPoint, Restrict
    from contracts.C07_block import RecvFull
    from contracts.C02_sweep import CONTRACTS as C02C

    ends = [c for c in C02C if c.__name__ in ('generic_implicit_compute_end_point', 'explicit_compute_end_point', 'imex_1st_order_compute_end_point',
                                              'generic_implicit_update_nodes', 'explicit_update_nodes', 'imex_1st_order_update_nodes')]
    return [type(b.__name__ + '_C01', (b,), dict(prop='C01')) for b in [CycleFixedPoint, Restrict, RecvFull] + ends]


CONTRACTS = [SweepFixedPointImplicit, SweepFixedPointExplicit, SweepFixedPointIMEX] + _reexports()
EXTRAS = [lemma_converse, bounded_runs]
ASSUMPTIONS = ['solver uniqueness for the ghost problem (a guess that satisfies the implicit equation is returned)']
UNDECIDED = ['conditioning constant: |defect| <= tol  =>  distance to the collocation solution <= kappa*tol is not a contract (numerical analysis)',
             'composition of the per-function contracts into the whole-run statement is argued in DESIGN.md 6 C01, not machine-checked end to end; the bounded runs are the stand-in']
