r"""
C06 -- accepted steps tile [t0, Tend] contiguously and chain their values exactly.

controller_nonMPI.run is cut at its main loop `while any(active)` (vc/cut.py; the pieces are compiled from the unchanged
statement nodes of the current source). Three obligations groups:

  RunEntry   {requires}  statements before the loop  {Inv}         and  t0 >= Tend - 10 eps  <=>  ControllerError
  RunBody    {Inv /\ any(active)}  one loop iteration  {Inv /\ tiling/chaining clauses /\ progress}
  RunExit    {Inv /\ not any(active)}  statements after the loop  {returned value = last accepted end value}

from an ARBITRARY loop-head state: symbolic t0, Tend, block start time, all step sizes (each > 0, changed arbitrarily by
the step-size stub between blocks), arbitrary restart pattern -> one discharged iteration covers every history of
restarts and step-size changes. Block size (num_procs) and number of currently active steps are enumerated.
Floats are reals here; the rounding clause is the bounded float-grid stand-in at the end of this file.
"""

import itertools
import numpy as np

from vc import sym
from vc.sym import And, Or, Not, Implies, Iff
from vc.cut import Cut
from vc.contract import Contract, State, veq, seq, snapshot, frame_clauses
from contracts.common import cp
from contracts import ctrl

CTRL = 'pySDC/implementations/controller_classes/controller_nonMPI.py'
EPS10 = 10 * np.finfo(float).eps


class StepSizeCC(ctrl.ArbitraryCC):
    """prepare_next_block stub (contract proved under C09): afterwards all steps share ONE step size > 0 per level;
    here: an arbitrary fresh positive value per block (covers unchanged, grown and shrunk step sizes)"""

    def __init__(self, trace, fresh, mk):
        super().__init__(trace, fresh, flags=())
        self.mk = mk
        self.dtnew = None

    def prepare_next_block(self, controller, S, size, time, Tend, **kw):
        self.trace.append(('cc', 'prepare_next_block', S.status.slot if S.status.slot is not None else -1))
        if self.dtnew is None:
            # one value per level: the coarse levels' step sizes are NOT tied to the fine one (adaptivity writes dt_new on the
            # finest level only, the spreader keeps each coarser level's own value)
            self.dtnew = [self.fresh.real('dt_next_block' if l == 0 else f'dt_next_block_L{l}') for l in range(len(S.levels))]
            for d in self.dtnew:
                self.mk.assume(d > 0, 'callee post: common step size > 0')
        for l, L in enumerate(S.levels):
            L.params.dt = self.dtnew[l]


def make_paradiag_controller(mk, n):
    """REAL controller_ParaDiag_nonMPI with n real steps (numeric test equation; only the time bookkeeping of run() is under contract here)"""
    from pySDC.implementations.controller_classes.controller_ParaDiag_nonMPI import controller_ParaDiag_nonMPI
    from pySDC.implementations.problem_classes.TestEquation_0D import testequation0d
    from pySDC.implementations.sweeper_classes.ParaDiagSweepers import QDiagonalization

    trace = []
    d = dict(problem_class=testequation0d, problem_params=dict(lambdas=-1.0 * np.ones(2), u0=1.0), sweeper_class=QDiagonalization,
             sweeper_params=dict(num_nodes=2, quad_type='RADAU-RIGHT', initial_guess='spread'), level_params=dict(dt=0.1, restol=1e-8), step_params=dict(maxiter=9))
    c = controller_ParaDiag_nonMPI(num_procs=n, controller_params=dict(logger_level=40, alpha=1e-4, mssdc_jac=False, dump_setup=False, hook_class=[ctrl.make_rec_hook(trace)]), description=d)
    c._Controller__hooks = [h for h in c.hooks if type(h).__name__ == 'RecHook']
    return c, trace


def setup_run(mk, inst):
    n, nl = inst['n'], inst.get('nlevels', 1)
    paradiag = bool(inst.get('paradiag'))
    c, trace = make_paradiag_controller(mk, n) if paradiag else ctrl.make_controller(mk, n, nlevels=nl)
    fresh = ctrl.Fresh(mk)
    cc = StepSizeCC(trace, fresh, mk)
    c.convergence_controllers = [cc]
    c.convergence_controller_order = [0]
    dts = []
    for p, S in enumerate(c.MS):
        S.status.slot = p
        dt = mk.real(f'dt{p}')
        mk.assume(dt > 0, 'dt>0')
        dts.append(dt)
        for l, L in enumerate(S.levels):
            # the step a Step covers is the FINE level's [time, time + dt]; coarser levels carry their own (arbitrary) value
            L.params.dt = dt if l == 0 else mk.real(f'dt{p}_L{l}')
            if l > 0:
                mk.assume(L.params.dt > 0, 'dt>0')
    st = State(c=c, trace=trace, cc=cc, fresh=fresh, n=n, nl=nl, inst=inst, dts=dts, mk=mk, uends={}, ustarts={}, paradiag=paradiag)

    def restart_block(active_slots, time, u0):
        # contract of restart_block (proved under C07)
        trace.append(('restart_block', list(active_slots), list(time), u0))
        for j, p in enumerate(active_slots):
            S = c.MS[p]
            S.status.slot = p
            S.status.first, S.status.last = j == 0, j == len(active_slots) - 1
            S.status.done = False
            S.status.restart = False
            S.status.stage = 'SPREAD'
            for L in S.levels:
                L.status.time = time[p]
                L.uend = None
            S.levels[0].u[0] = cp(u0)

    def pfasst(MS_active):
        # block contract (C07 + C01 composition): the block finishes; every step has an end value; step j>0 started
        # from a copy of its predecessor's final end value; restart requests are arbitrary
        trace.append(('pfasst', [S.status.slot for S in MS_active]))
        for j, S in enumerate(MS_active):
            S.status.done = True
            S.status.stage = 'DONE'
            S.levels[0].uend = fresh.vec(f'uend[{S.status.slot}]')
            st.uends[S.status.slot] = S.levels[0].uend
            S.status.restart = fresh.bool(f'restart[{S.status.slot}]')
            if j > 0:
                S.levels[0].u[0] = cp(MS_active[j - 1].levels[0].uend)
            st.ustarts[S.status.slot] = S.levels[0].u[0]
        return True

    c.restart_block = restart_block
    if paradiag:
        c.ParaDiag = pfasst  # same block contract: the block finishes, end values present, restart requests arbitrary
    else:
        c.pfasst = pfasst
    st.cut = Cut(type(c).run, 0, kind='while')
    trace.clear()
    return st


def fine_dt(S):
    """length of the interval a step covers: what its finest level integrates over (NOT the Step.dt property, which is code under check)"""
    return S.levels[0].params.dt


def thr(Tend):
    return Tend - EPS10


def inv_clauses(st, L, tag='inv'):
    """the loop invariant, evaluated on a locals dict"""
    c, n = st.c, st.n
    time, active, aslots, Tend = L.get('time'), L.get('active'), L.get('active_slots'), L['Tend']
    ok_shape = isinstance(time, list) and len(time) == n and isinstance(active, list) and len(active) == n and L.get('slots') == list(range(n)) and L.get('num_procs') == n
    yield f'{tag}:shape', ok_shape
    if not ok_shape:
        return
    a = len(aslots)
    yield f'{tag}:active_slots_is_prefix', list(aslots) == list(range(a))
    for p in range(n):
        if st.paradiag:
            # all-or-nothing blocks: every slot is active as long as the FIRST one starts before Tend
            yield f'{tag}:active_flag[{p}]', Iff(active[p], time[0] < thr(Tend))
        else:
            yield f'{tag}:active_flag[{p}]', Iff(active[p], time[p] < thr(Tend))
        yield f'{tag}:active_slot_membership[{p}]', Iff(active[p], p < a)
    for p in range(1, a):
        yield f'{tag}:time_accumulates[{p}]', seq(time[p], time[p - 1] + fine_dt(c.MS[p - 1]))
    for p in range(a):
        yield f'{tag}:dt_positive[{p}]', fine_dt(c.MS[p]) > 0
        yield f'{tag}:level_time[{p}]', And(*[seq(Lv.status.time, time[p]) for Lv in c.MS[p].levels])


class _RunBase(Contract):
    prop = 'C06'
    label = 'instance-proved'
    native = True
    target = (CTRL, 'controller_nonMPI.run')
    stubs = ('controller.pfasst [block contract from C07: block finishes, step j>0 holds a copy of its predecessor end value, restart flags arbitrary]',
             'controller.restart_block [contract proved under C07]',
             'ConvergenceController.prepare_next_block [C09 contract: one common positive step size afterwards, value arbitrary]',
             'Hooks callbacks [recording subclass]')
    assumptions = ('loop rule: loop-carried locals havocked to an arbitrary state satisfying the invariant (vc/cut.py adds nothing else)',)

    def Ns(self, tier):
        return (1, 2, 3) if tier == 'quick' else (1, 2, 3, 4, 5)


class RunEntry(_RunBase):
    name = 'controller_nonMPI.run[entry]'
    from pySDC.core.errors import ControllerError

    expected_exceptions = (ControllerError,)

    def instances(self, tier):
        return [dict(n=n, nlevels=nl) for n in self.Ns(tier) for nl in (1, 2) if not (nl == 2 and n > 3)]

    def build(self, inst, mk):
        st = setup_run(mk, inst)
        st.t0, st.Tend, st.u0 = mk.real('t0'), mk.real('Tend'), mk.vec('u0')
        st.call = lambda: st.cut.pre(st.c, st.u0, st.t0, st.Tend)
        return st

    def post(self, st, old, result, exc):
        c, n, tr = st.c, st.n, st.trace
        yield 'nothing_to_do_iff_t0_at_or_beyond_Tend', Iff(isinstance(exc, self.ControllerError), Not(st.t0 < thr(st.Tend)))
        if exc is not None:
            yield 'no_block_started_on_error', not [e for e in tr if e[0] == 'restart_block']
            return
        L = result
        yield from inv_clauses(st, L, 'inv_on_entry')
        for p in range(n):
            yield f'time_from_t0[{p}]', seq(L['time'][p], st.t0 + sum(st.dts[:p]))
        rb = [e for e in tr if e[0] == 'restart_block']
        yield 'first_block_started_once_with_u0', len(rb) == 1 and rb[0][1] == list(L['active_slots']) and rb[0][3] is st.u0
        yield 'first_block_starts_at_t0', seq(L['time'][0], st.t0)
        yield 'uend_initially_none', L['uend'] is None
        hk = [e[1] for e in tr if e[0] == 'hook']
        yield 'pre_run_for_every_step_after_setup', hk == ['post_setup'] + ['pre_run'] * n

    def canary(self, st, old, result, exc):
        yield 'canary:always_raises', exc is not None
        if exc is None and st.n > 1:
            yield 'canary:all_active', len(result['active_slots']) == st.n


def arbitrary_head(st, mk, a):
    """an arbitrary loop-head state satisfying Inv with `a` active steps"""
    c, n = st.c, st.n
    Tend = mk.real('Tend')
    time = []
    for p in range(n):
        if p == 0 or p >= a:
            time.append(mk.real(f'time{p}'))
        else:
            time.append(time[p - 1] + st.dts[p - 1])
    for p in range(n):
        if st.paradiag:
            if p == 0:
                mk.assume(time[0] < thr(Tend) if a > 0 else Not(time[0] < thr(Tend)), 'Inv: all-or-nothing block')
        else:
            mk.assume(time[p] < thr(Tend) if p < a else Not(time[p] < thr(Tend)), 'Inv: active prefix')
    active = [p < a for p in range(n)]
    for p in range(a):
        S = c.MS[p]
        S.status.slot = p
        S.status.first, S.status.last = p == 0, p == a - 1
        S.status.restart = False
        for Lv in S.levels:
            Lv.status.time = time[p]
        S.levels[0].u[0] = mk.vec(f'ustart{p}')
    uend = mk.vec('uend_prev')
    return dict(self=c, u0=mk.vec('u0'), t0=mk.real('t0'), Tend=Tend, uend=uend, num_procs=n, slots=list(range(n)),
                time=time, active=active, active_slots=list(range(a)),
                MS_active=[c.MS[p] for p in range(a)], done=True, restarts=[False] * a, restart_at=a)


class RunBody(_RunBase):
    name = 'controller_nonMPI.run[loop body]'

    def instances(self, tier):
        return [dict(n=n, a=a, nlevels=nl) for n in self.Ns(tier) for a in range(1, n + 1) for nl in (1, 2) if not (nl == 2 and n > 2)]

    def build(self, inst, mk):
        st = setup_run(mk, inst)
        st.L = arbitrary_head(st, mk, inst['a'])
        st.old_time = list(st.L['time'])
        st.old_dt = [fine_dt(S) for S in st.c.MS]
        st.old_ustart = [cp(S.levels[0].u[0]) if S.levels[0].u[0] is not None else None for S in st.c.MS]

        def call():
            g = st.cut.guard(st.L)
            if not g:
                raise AssertionError('harness: guard must hold at an active loop head')
            return st.cut.body(st.L)

        st.call = call
        return st

    def post(self, st, old, result, exc):
        c, n, a, tr = st.c, st.n, st.inst['a'], st.trace
        yield 'returns_normally', exc is None
        if exc is not None:
            return
        L = result
        MSa = [c.MS[p] for p in range(a)]
        restarts = [st.fresh and S.status.restart for S in MSa]
        # which steps asked for a restart is decided by the path (np.where / `True in` forked on them)
        rflags = [bool(r) for r in [e for e in [ev for ev in tr if ev[0] == 'pfasst']] and [L['restarts'][j] for j in range(a)]]
        r = rflags.index(True) if True in rflags else a
        pf = [e for e in tr if e[0] == 'pfasst']
        yield 'block_run_on_the_active_steps', pf == [('pfasst', list(range(a)))]
        yield 'restart_at_is_first_requesting_step', L['restart_at'] == r
        t_old, dt_old = st.old_time, st.old_dt
        if r < a:
            # steps before r are accepted; the next block starts at step r's start time with step r's start value
            yield 'restart:next_block_starts_at_restarted_steps_time', seq(L['time'][0], t_old[r])
            yield 'restart:next_block_value_is_restarted_steps_start_value', L['uend'] is st.ustarts[r]
            if r > 0:
                yield 'restart:start_value_is_end_value_of_last_accepted_step', veq(L['uend'], st.uends[r - 1])
                yield 'restart:start_time_is_end_time_of_last_accepted_step', seq(t_old[r], t_old[r - 1] + dt_old[r - 1])
            else:
                yield 'restart:nothing_accepted_block_repeats_from_same_value', veq(L['uend'], st.old_ustart[0])
        else:
            yield 'advance:next_block_starts_at_end_of_last_step', seq(L['time'][0], t_old[a - 1] + dt_old[a - 1])
            yield 'advance:next_block_value_is_last_end_value', L['uend'] is st.uends[a - 1]
            yield 'progress:block_start_time_strictly_increases', L['time'][0] > t_old[0]
        # accepted steps 0..r-1 tile contiguously (start = previous end) -- from Inv of the old state
        for p in range(1, r):
            yield f'accepted_contiguous[{p}]', seq(t_old[p], t_old[p - 1] + dt_old[p - 1])
        for p in range(r):
            yield f'accepted_step_started_before_Tend[{p}]', t_old[p] < thr(L['Tend'])
        if st.paradiag and r < a:
            # the partially restarted block is repeated with ALL slots again
            pass
        psp = [e[2] for e in tr if e[0] == 'cc' and e[1] == 'post_step_processing']
        yield 'post_step_processing_exactly_for_accepted_steps', psp == list(range(r))
        pnb = [e[2] for e in tr if e[0] == 'cc' and e[1] == 'prepare_next_block']
        yield 'prepare_next_block_for_every_step', len(pnb) == n
        rb = [e for e in tr if e[0] == 'restart_block']
        yield 'next_block_initialised_with_carried_value', len(rb) == 1 and rb[0][1] == list(L['active_slots']) and rb[0][3] is L['uend']
        if rb:
            yield 'next_block_times_are_the_new_times', all(x is y for x, y in zip(rb[0][2], L['time']))
        yield from inv_clauses(st, L, 'inv_preserved')
        yield 'no_new_slots_become_active', len(L['active_slots']) <= a

    def canary(self, st, old, result, exc):
        if exc is None:
            yield 'canary:always_advances', seq(result['time'][0], st.old_time[st.inst['a'] - 1] + st.old_dt[st.inst['a'] - 1])
            yield 'canary:all_slots_stay_active', len(result['active_slots']) == st.inst['a']


class RunExit(_RunBase):
    name = 'controller_nonMPI.run[exit]'

    def instances(self, tier):
        return [dict(n=n, nlevels=1) for n in self.Ns(tier)]

    def build(self, inst, mk):
        st = setup_run(mk, inst)
        st.L = arbitrary_head(st, mk, 0)
        st.L['MS_active'] = [st.c.MS[0]]

        def call():
            if st.cut.guard(st.L):
                raise AssertionError('harness: guard must be false at exit')
            return st.cut.post(st.L)

        st.call = call
        return st

    def post(self, st, old, result, exc):
        tr, n = st.trace, st.n
        yield 'returns_normally', exc is None
        if exc is not None:
            return
        yield 'returns_pair', isinstance(result, tuple) and len(result) == 2
        yield 'returned_value_is_last_carried_end_value', result[0] is st.L['uend']
        yield 'stops_only_when_block_start_reached_Tend', Not(st.L['time'][0] < thr(st.L['Tend']))
        hk = [e[1] for e in tr if e[0] == 'hook']
        yield 'post_run_for_every_step', hk == ['post_run'] * n
        yield 'stats_are_the_merged_hook_stats', result[1] == st.c.return_stats()

    def canary(self, st, old, result, exc):
        yield 'canary:returns_u0', exc is None and result[0] is st.L['u0']


def _chaining_inside_a_block():
    # "each accepted step starts from exactly the end value of the previous accepted step" INSIDE a block rests on the block protocol:
    # a step is declared done only after its predecessor (it_check: prefix closed), and what it last received is the predecessor's final
    # end value (send_full / recv_full). These are the C07 contracts, re-exported because a change there breaks C06 as well.
    from contracts.C07_block import ItCheck, SendFull, RecvFull

    return [type(b.__name__ + '_C06', (b,), dict(prop='C06')) for b in (ItCheck, SendFull, RecvFull)]


CONTRACTS = [RunEntry, RunBody, RunExit] + _chaining_inside_a_block()


# ------------------------------------------------------------------------------------------------ lemmas
def lemma_fixed_step_count(tier, seed):
    r"""with a fixed step size the accepted steps are those with start time t0 + k*dt < Tend - 10 eps (RunBody/RunEntry:
    a step is active iff its start time is below the threshold, start times accumulate dt). Then the number of accepted
    steps N is the least N with t0 + N*dt >= Tend - 10 eps, independent of the block size: N is characterised by
    (forall k < N: start_k < thr) /\ start_N >= thr, and it is unique."""
    import z3
    from vc.discharge import Obligation, discharge

    t0, dt, T = z3.Reals('t0 dt thr')
    N, N2, k = z3.Ints('N N2 k')
    start = lambda i: t0 + z3.ToReal(i) * dt
    obs = []
    # uniqueness: two candidates coincide
    pc = [dt > 0, N >= 0, N2 >= 0, start(N) >= T, start(N2) >= T,
          z3.Or(N == 0, start(N - 1) < T), z3.Or(N2 == 0, start(N2 - 1) < T)]
    obs.append(Obligation('fixed_step:count_unique', pc, N == N2, 'lemma'))
    # every accepted index is below N, every index below N is accepted
    pc = [dt > 0, N >= 0, k >= 0, start(N) >= T, z3.Or(N == 0, start(N - 1) < T)]
    obs.append(Obligation('fixed_step:accepted_iff_below_N', pc, (start(k) < T) == (k < N), 'lemma'))
    # block-size independence: the start time of step j of a block starting at accepted index b is start(b+j)
    b, j = z3.Ints('b j')
    obs.append(Obligation('fixed_step:block_offset', [dt > 0, b >= 0, j >= 0], start(b) + z3.ToReal(j) * dt == start(b + j), 'lemma'))
    res = []
    for ob in obs:
        d = discharge(ob).as_dict()
        d['path'] = 0
        res.append(d)
    return dict(contract='lemma:fixed_step_count', prop='C06', inst={}, label='proved', kind='lemma', obligations=res, canaries=[],
                paths=1, status='ok')


EXTRAS = [lemma_fixed_step_count]

UNDECIDED = ['rounding clause ("up to rounding"): decided only by the bounded float-grid stand-in; reals elsewhere',
             'controller_MPI.run and controller_ParaDiag_nonMPI.run are not under contract in this file']


def bounded_float_step_count(tier, seed):
    """rounding clause (bounded stand-in, real floats, real controller runs with a trivial problem): the number of accepted steps of a
    fixed-step run is compared with the exact-rational count N* = least N with t0 + N*dt >= Tend - 10 eps.
      outside the rounding band (|t0 + N*dt - Tend| >= dt/2 for all N)  the counts must agree for every block size;
      inside the band (Tend = fl(t0 + N*dt))                             disagreements are the recorded known finding."""
    import numpy as np
    from fractions import Fraction as Fr
    from pySDC.implementations.controller_classes.controller_nonMPI import controller_nonMPI
    from pySDC.implementations.problem_classes.TestEquation_0D import testequation0d
    from pySDC.implementations.sweeper_classes.generic_implicit import generic_implicit
    from pySDC.helpers.stats_helper import get_sorted

    eps10 = Fr(10 * np.finfo(float).eps)

    def run(t0, dt, Tend, n):
        d = dict(problem_class=testequation0d, problem_params=dict(lambdas=np.array([-1.0]), u0=1.0), sweeper_class=generic_implicit,
                 sweeper_params=dict(num_nodes=1, quad_type='RADAU-RIGHT'), level_params=dict(dt=dt, restol=-1), step_params=dict(maxiter=1))
        c = controller_nonMPI(num_procs=n, controller_params=dict(logger_level=40, dump_setup=False), description=d)
        u, stats = c.run(u0=c.MS[0].levels[0].prob.u_exact(0), t0=t0, Tend=Tend)
        times = sorted(k.time for k in stats if k.type == 'niter')
        return times

    dts = [0.1, 0.25, 0.3, 1e-2, 1.0 / 3] if tier == 'quick' else [0.1, 0.2, 0.3, 0.25, 0.125, 0.01, 0.05, 1e-3, 0.7, 1.0 / 3]
    t0s = [0.0, -1.0, 100.0] if tier == 'quick' else [0.0, 1.0, -1.0, 100.0, -1e3]
    Ns = [1, 3, 10, 33] if tier == 'quick' else [1, 3, 7, 10, 33, 100, 300]
    outside_bad, inside_bad, cases, tiling_bad = [], [], 0, []
    for dt in dts:
        for t0 in t0s:
            for N in Ns:
                for frac, inside in ((0.0, True), (-0.5, False), (0.37, False)):
                    Tend = t0 + (N + frac) * dt
                    k = 0
                    while Fr(t0) + k * Fr(dt) < Fr(Tend) - eps10:
                        k += 1
                    for n in (1, 2, 3, 4) if tier == 'quick' else (1, 2, 3, 4, 8):
                        cases += 1
                        times = run(t0, dt, Tend, n)
                        got = len(times)
                        # tiling in floats: every start time is the running float sum; none at or beyond Tend - 10 eps
                        if any(not (t < Tend - 10 * np.finfo(float).eps) for t in times) or (times and times[0] != t0):
                            tiling_bad.append((dt, t0, Tend, n))
                        if got != k:
                            (inside_bad if inside else outside_bad).append(dict(dt=dt, t0=t0, Tend=Tend, steps_per_block=n, accepted=got, exact=k))
    obs = [
        dict(name='bounded:fixed_step_count_outside_the_rounding_band', status='proved' if not outside_bad else 'refuted', backend='native-run', seconds=0.0, kind='bounded', size=0,
             model=dict(first=outside_bad[:5]) if outside_bad else None, reason='', path=0, counted=False),
        dict(name='bounded:no_step_starts_at_or_beyond_Tend_and_first_starts_at_t0', status='proved' if not tiling_bad else 'refuted', backend='native-run', seconds=0.0, kind='bounded', size=0,
             model=dict(first=tiling_bad[:5]) if tiling_bad else None, reason='', path=0, counted=False),
        dict(name='bounded:fixed_step_count_inside_the_rounding_band', status='proved' if not inside_bad else 'refuted', backend='native-run', seconds=0.0, kind='bounded', size=0,
             model=dict(count=len(inside_bad), first=inside_bad[:6]) if inside_bad else None, reason='', path=0, counted=False),
    ]
    return dict(contract='bounded:controller_nonMPI.run[float step count]', prop='C06', inst={}, label='bounded', kind='bounded', obligations=obs, canaries=[], paths=1, status='ok',
                bounded=dict(what='accepted-step count of real fixed-step runs vs exact rational count; float tiling', bound=f'dt in {dts}, t0 in {t0s}, N in {Ns}, Tend = t0+(N+{{0,-0.5,0.37}})dt, 1-4(8) steps per block',
                             cases=cases, failures=len(outside_bad) + len(tiling_bad), inside_band_mismatches=len(inside_bad)))


EXTRAS = [lemma_fixed_step_count, bounded_float_step_count]
UNDECIDED = ['rounding clause ("up to rounding"): decided only by the bounded float-grid stand-in (known finding inside the rounding band); reals elsewhere',
             'controller_MPI.run and controller_ParaDiag_nonMPI.run are not under contract in this file']
