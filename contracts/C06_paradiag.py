r"""
C06 (ParaDiag controller) -- controller_ParaDiag_nonMPI.run cut at its main loop, same three obligation groups as contracts/C06_tiling.py.
Difference in the invariant: blocks are all-or-nothing (every slot is active as long as the first one starts before Tend; the code warns
"will solve past your desired end time"), so the clause "no accepted step starts at or beyond Tend" cannot hold for the later slots of the last
block -- recorded as a known finding (documented behaviour of this controller), every other tiling / chaining clause is proved.
"""
from contracts.C06_tiling import RunEntry, RunBody, RunExit

PD = 'pySDC/implementations/controller_classes/controller_ParaDiag_nonMPI.py'


class RunEntryPD(RunEntry):
    name = 'controller_ParaDiag_nonMPI.run[entry]'
    target = (PD, 'controller_ParaDiag_nonMPI.run')
    native = False

    def instances(self, tier):
        return [dict(n=n, nlevels=1, paradiag=True) for n in self.Ns(tier)]

    def canary(self, st, old, result, exc):
        yield 'canary:always_raises', exc is not None


class RunBodyPD(RunBody):
    name = 'controller_ParaDiag_nonMPI.run[loop body]'
    target = (PD, 'controller_ParaDiag_nonMPI.run')
    native = False

    def instances(self, tier):
        return [dict(n=n, a=n, nlevels=1, paradiag=True) for n in self.Ns(tier)]

    def canary(self, st, old, result, exc):
        if exc is None:
            yield 'canary:always_advances', (result['time'][0] > st.old_time[0]) if st.n > 0 else False


class RunExitPD(RunExit):
    name = 'controller_ParaDiag_nonMPI.run[exit]'
    target = (PD, 'controller_ParaDiag_nonMPI.run')
    native = False

    def instances(self, tier):
        return [dict(n=n, nlevels=1, paradiag=True) for n in self.Ns(tier)]


CONTRACTS = [RunEntryPD, RunBodyPD, RunExitPD]
