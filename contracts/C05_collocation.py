r"""
C05 -- collocation nodes, weights and integration matrices are exact on every interval.

pySDC's own code is the wrapper CollBase.__init__ / _gen_deltas / evaluate (and Sweeper.__init__'s collocation-update
switch); the mathematics lives in qmat (external).
 (a) wrapper contract (deductive): with the qmat generator replaced by a stub delivering SYMBOLIC nodes, weights, Q and a
     parent-class S, the real CollBase.__init__ zero-pads Q and the PARENT-class S into (M+1)x(M+1) matrices, copies nodes and
     weights, derives delta_m, left/right_is_node from the quadrature type, and rejects num_nodes <= 0, tleft >= tright
     (symbolic) and generator failures with CollocationError; Sweeper.__init__ switches do_coll_update on iff the right end
     point is not a node.
 (b) qmat's side is an ASSUMED contract, validated as a bounded stand-in in exact rational arithmetic on the returned
     floats (rounding allowance stated) over the property's grid: nodes strictly increasing inside the interval, end points
     iff the type says so, weights exact below `order`, Q exact below degree M, S = row differences of Q, cumulative sums,
     affine covariance across intervals (negative and large offsets).
"""

from fractions import Fraction as Fr
import numpy as np

from vc import sym
from vc.sym import And, Or, Not, Implies, Iff
from vc.contract import Contract, State, seq
from contracts.common import cls_of

COLL = 'pySDC/core/collocation.py'


class NpObj:
    """numpy as seen by collocation.py: zeros(...) are object arrays so that symbolic entries can be stored (exact)"""

    def __getattr__(self, n):
        return getattr(np, n)

    def zeros(self, shape, dtype=None):
        a = np.empty(shape, dtype=object)
        a.fill(0)
        return a


class CollInit(Contract):
    prop = 'C05'
    name = 'CollBase.__init__'
    target = (COLL, 'CollBase.__init__')
    label = 'instance-proved'
    native = False
    from pySDC.core.errors import CollocationError

    expected_exceptions = (CollocationError,)
    stubs = ('qmat Collocation generator [stub: symbolic nodes, weights, Q, order; parent-class property S]',)

    def instances(self, tier):
        out = [dict(M=M, quad=q, fail=False) for M in ((1, 2, 3) if tier == 'quick' else (1, 2, 3, 4, 5)) for q in ('GAUSS', 'LOBATTO', 'RADAU-LEFT', 'RADAU-RIGHT')]
        out += [dict(M=0, quad='GAUSS', fail=False), dict(M=-1, quad='GAUSS', fail=False), dict(M=2, quad='GAUSS', fail=True)]
        return out

    def build(self, inst, mk):
        import importlib

        mod = importlib.import_module('pySDC.core.collocation')
        M = max(inst['M'], 0)
        st = State(inst=inst, M=M, tl=mk.real('tleft'), tr=mk.real('tright'))
        st.nodes, st.weights = mk.vector('nodes', M), mk.vector('weights', M)
        st.Q, st.Sp, st.Sown = mk.matrix('Q', M, M), mk.matrix('Sparent', M, M), mk.matrix('Sown', M, M)
        st.order = mk.int('order')
        calls = []

        class Parent:
            @property
            def S(self):
                return st.Sp

        class Gen(Parent):
            def __init__(self, **kw):
                calls.append(kw)
                if inst['fail']:
                    raise ValueError('unknown node type')
                self.nodes, self.weights, self.Q, self.order = st.nodes, st.weights, st.Q, st.order

            @property
            def S(self):
                return st.Sown

        mod.Q_GENERATORS = {'Collocation': Gen}
        mod.np = NpObj()
        st.calls = calls
        st.call = lambda: mod.CollBase(num_nodes=inst['M'], tleft=st.tl, tright=st.tr, node_type='LEGENDRE', quad_type=inst['quad'])
        return st

    def post(self, st, old, result, exc):
        inst, M = st.inst, st.M
        bad_interval = Not(st.tl < st.tr)
        if inst['M'] <= 0:
            yield 'nonpositive_node_count_rejected', isinstance(exc, self.CollocationError) and not st.calls
            return
        if inst['fail']:
            yield 'generator_failure_becomes_CollocationError', Iff(isinstance(exc, self.CollocationError), True)
            return
        yield 'corrupt_interval_rejected', Iff(isinstance(exc, self.CollocationError), bad_interval)
        if exc is not None:
            return
        c = result
        yield 'generator_called_with_the_interval', len(st.calls) == 1 and st.calls[0]['tLeft'] is st.tl and st.calls[0]['tRight'] is st.tr and st.calls[0]['nNodes'] == M and st.calls[0]['quadType'] == inst['quad']
        yield 'shape', c.Qmat.shape == (M + 1, M + 1) and c.Smat.shape == (M + 1, M + 1)
        for i in range(M + 1):
            for j in range(M + 1):
                if i == 0 or j == 0:
                    yield f'Qmat[{i},{j}]:zero_padding', seq(c.Qmat[i, j], 0)
                    yield f'Smat[{i},{j}]:zero_padding', seq(c.Smat[i, j], 0)
                else:
                    yield f'Qmat[{i},{j}]:generator_Q', seq(c.Qmat[i, j], st.Q[i - 1, j - 1])
                    yield f'Smat[{i},{j}]:parent_class_S', seq(c.Smat[i, j], st.Sp[i - 1, j - 1])
        for m in range(M):
            yield f'nodes[{m}]', seq(c.nodes[m], st.nodes[m])
            yield f'weights[{m}]', seq(c.weights[m], st.weights[m])
            yield f'delta_m[{m}]', seq(c.delta_m[m], st.nodes[m] - (st.tl if m == 0 else st.nodes[m - 1]))
        yield 'nodes_and_weights_are_copies', c.nodes is not st.nodes and c.weights is not st.weights
        yield 'order_from_generator', c.order is st.order
        yield 'end_point_flags', c.left_is_node == (inst['quad'] in ('LOBATTO', 'RADAU-LEFT')) and c.right_is_node == (inst['quad'] in ('LOBATTO', 'RADAU-RIGHT'))

    def canary(self, st, old, result, exc):
        if exc is None and st.M >= 1:
            yield 'canary:Smat_from_own_S', seq(result.Smat[1, 1], st.Sown[0, 0])
        elif st.inst['M'] > 0 and not st.inst['fail']:
            yield 'canary:interval_accepted', exc is None and False
        else:
            yield 'canary:accepted', exc is None


class Evaluate(Contract):
    prop = 'C05'
    name = 'CollBase.evaluate'
    target = (COLL, 'CollBase.evaluate')
    label = 'instance-proved'
    native = False
    from pySDC.core.errors import CollocationError

    expected_exceptions = (CollocationError,)

    def instances(self, tier):
        return [dict(n=n, m=m) for n in (1, 2, 3) for m in (1, 2, 3)]

    def build(self, inst, mk):
        CB = cls_of(COLL, 'CollBase')
        st = State(inst=inst, w=mk.vector('w', inst['n']), d=mk.vector('d', inst['m']))
        st.call = lambda: CB.evaluate(st.w, st.d)
        return st

    def post(self, st, old, result, exc):
        if st.inst['n'] != st.inst['m']:
            yield 'size_mismatch_rejected', isinstance(exc, self.CollocationError)
        else:
            yield 'dot_product', exc is None and bool(seq(result, sum(st.w[i] * st.d[i] for i in range(st.inst['n'])))) is True or seq(result, sum(st.w[i] * st.d[i] for i in range(st.inst['n'])))

    def canary(self, st, old, result, exc):
        yield 'canary:opposite', (exc is None) == (st.inst['n'] != st.inst['m'])


class CollUpdateSwitch(Contract):
    prop = 'C05'
    name = 'Sweeper.__init__ [collocation update switch]'
    target = ('pySDC/core/sweeper.py', 'Sweeper.__init__')
    label = 'instance-proved'
    native = True

    def instances(self, tier):
        return [dict(quad=q, asked=a) for q in ('GAUSS', 'LOBATTO', 'RADAU-LEFT', 'RADAU-RIGHT') for a in (False, True)]

    def build(self, inst, mk):
        from contracts.common import make_level
        import importlib, numpy

        mod = importlib.import_module('pySDC.core.collocation')
        importlib.reload(mod)  # drop the generator stub / numpy shim of CollInit in this worker
        GI = cls_of('pySDC/implementations/sweeper_classes/generic_implicit.py', 'generic_implicit')
        st = State(inst=inst)
        st.call = lambda: make_level(GI, 3, mk, quad=inst['quad'], do_coll_update=inst['asked'], fill=False)
        return st

    def post(self, st, old, result, exc):
        yield 'returns_normally', exc is None
        if exc is None:
            right = st.inst['quad'] in ('LOBATTO', 'RADAU-RIGHT')
            yield 'collocation_update_forced_iff_right_end_is_no_node', result.sweep.params.do_coll_update == (st.inst['asked'] or not right)

    def canary(self, st, old, result, exc):
        yield 'canary:never_switched', result.sweep.params.do_coll_update == st.inst['asked'] and st.inst['quad'] in ('GAUSS', 'RADAU-LEFT') and not st.inst['asked']


def qmat_validation(tier, seed):
    """bounded validation of the ASSUMED qmat contract through the real CollBase (exact rationals on the returned floats)"""
    import importlib

    mod = importlib.import_module('pySDC.core.collocation')
    mod = importlib.reload(mod)
    CollBase = mod.CollBase
    fails, cases = [], 0
    node_types = ['LEGENDRE', 'EQUID', 'CHEBY-1', 'CHEBY-2', 'CHEBY-3', 'CHEBY-4']
    quad_types = ['GAUSS', 'LOBATTO', 'RADAU-LEFT', 'RADAU-RIGHT']
    Ms = range(1, 9) if tier == 'quick' else range(1, 17)
    # several intervals of EQUAL length and different offset follow each other (history: an object built for one interval must not leak into the next)
    intervals = [(0.0, 1.0), (2.0, 3.0), (-1.0, 1.0), (-3.25, -1.5), (1000.0, 1000.5), (-1.0, 0.0)] if tier == 'quick' else [(0.0, 1.0), (2.0, 3.0), (-1.0, 1.0), (-3.25, -1.5), (1000.0, 1000.5), (-1.0, 0.0), (0.0, 1e-3), (-1e4, 2e4)]
    ref = {}
    for nt in node_types:
        for qt in quad_types:
            for M in Ms:
                if (qt == 'LOBATTO' and M < 2) or (qt == 'RADAU-LEFT' and M < 2):
                    continue  # no such rule (LOBATTO needs both ends; qmat rejects a single RADAU-LEFT node with an error)
                for (a, b) in intervals:
                    try:
                        c = CollBase(num_nodes=M, tleft=a, tright=b, node_type=nt, quad_type=qt)
                    except Exception as e:
                        cases += 1
                        fails.append((f'{nt}/{qt}/M={M}/[{a},{b}]', 'construction failed: ' + repr(e)[:80]))
                        continue
                    tag = f'{nt}/{qt}/M={M}/[{a},{b}]'
                    x = [Fr(float(v)) for v in c.nodes]
                    w = [Fr(float(v)) for v in c.weights]
                    A, B, Lh = Fr(a), Fr(b), Fr(b) - Fr(a)
                    tol = Fr(1, 10**9) if M <= 10 else Fr(1, 10**6)

                    def chk(name, ok, info=None):
                        nonlocal cases
                        cases += 1
                        if not ok:
                            fails.append((tag + ':' + name, info))

                    chk('nodes_strictly_increasing_inside', all(x[i] < x[i + 1] for i in range(M - 1)) and x[0] >= A - Lh * tol and x[-1] <= B + Lh * tol)
                    chk('end_points_iff_type', (abs(x[0] - A) <= Lh * tol) == c.left_is_node and (abs(x[-1] - B) <= Lh * tol) == c.right_is_node, (float(x[0]), float(x[-1])))
                    # work in the reference variable s = (t - a)/L to keep the monomials well scaled
                    s = [(xi - A) / Lh for xi in x]
                    for k in range(0, c.order):
                        lhs = sum(wi * si**k for wi, si in zip(w, s))
                        scale = sum(abs(wi) for wi in w) + Lh
                        chk(f'weights_exact_degree_{k}', abs(lhs - Lh / (k + 1)) <= tol * scale, float(lhs - Lh / (k + 1)))
                    Q = [[Fr(float(v)) for v in row] for row in c.Qmat]
                    S = [[Fr(float(v)) for v in row] for row in c.Smat]
                    chk('zero_padding', all(Q[0][j] == 0 and Q[j][0] == 0 and S[0][j] == 0 and S[j][0] == 0 for j in range(M + 1)))
                    for m in range(1, M + 1):
                        rs = sum(abs(q) for q in Q[m]) + Lh
                        for k in range(0, M):
                            lhs = sum(Q[m][j] * s[j - 1] ** k for j in range(1, M + 1))
                            chk(f'Q_row{m}_exact_degree_{k}', abs(lhs - Lh * s[m - 1] ** (k + 1) / (k + 1)) <= tol * rs, float(lhs))
                        for j in range(1, M + 1):
                            chk(f'S_is_row_difference_of_Q[{m},{j}]', abs(S[m][j] - (Q[m][j] - Q[m - 1][j])) <= tol * rs)
                            chk(f'Q_is_cumulative_sum_of_S[{m},{j}]', abs(Q[m][j] - sum(S[i][j] for i in range(1, m + 1))) <= tol * rs * m)
                    # affine covariance against the reference interval [0,1]
                    key = (nt, qt, M)
                    if (a, b) == (0.0, 1.0):
                        ref[key] = (x, w, Q)
                    elif key in ref:
                        x0, w0, Q0 = ref[key]
                        chk('nodes_transform_affinely', all(abs(xi - (A + Lh * x0i)) <= tol * (abs(A) + Lh) for xi, x0i in zip(x, x0)))
                        chk('weights_scale_with_length', all(abs(wi - Lh * w0i) <= tol * Lh * (abs(w0i) + 1) for wi, w0i in zip(w, w0)))
                        chk('Q_scales_with_length', all(abs(Q[i][j] - Lh * Q0[i][j]) <= tol * Lh * (abs(Q0[i][j]) + 1) for i in range(M + 1) for j in range(M + 1)))
    import re

    groups = {}
    for (a, b) in intervals:
        for cat in ('nodes_strictly_increasing_inside', 'end_points_iff_type', 'weights_exact', 'zero_padding', 'Q_row_exact', 'S_Q_relations', 'affine_covariance', 'construction'):
            groups[(f'[{a},{b}]', cat)] = []
    for n, i in fails:
        iv = re.search(r'/(\[[^\]]*\])', n).group(1)
        c = n.split(':')[-1]
        cat = ('weights_exact' if c.startswith('weights_exact') else 'Q_row_exact' if c.startswith('Q_row') else 'S_Q_relations' if c.startswith(('S_is', 'Q_is')) else
               'affine_covariance' if c.startswith(('nodes_transform', 'weights_scale', 'Q_scales')) else 'construction' if 'construction' in str(i) else c)
        groups.setdefault((iv, cat), []).append((n, str(i)))
    obs = []
    for (iv, cat), bad in sorted(groups.items()):
        obs.append(dict(name=f'bounded:qmat{iv}:{cat}', status='proved' if not bad else 'refuted', backend='exact-rational', seconds=0.0, kind='bounded', size=0,
                        model=dict(count=len(bad), first=bad[:4]) if bad else None, reason='', path=0, counted=False))
    return dict(contract='bounded:qmat_collocation_contract', prop='C05', inst={}, label='bounded', kind='bounded', obligations=obs, canaries=[], paths=1, status='ok',
                bounded=dict(what='assumed qmat contract validated through the real CollBase: ordering, end points, exactness of weights below order and of Q below degree M, S/Q relations, affine covariance',
                             bound=f'6 node families x 4 quadrature types x M in {list(Ms)[0]}..{list(Ms)[-1]} x {len(intervals)} intervals; allowance 1e-9 relative (1e-6 for M>10)', cases=cases, failures=len(fails)))


def sweeper_reinitialised_in_place(tier, seed):
    """history clause: a sweeper object is initialised a SECOND time in place (what AdaptiveCollocation.switch_sweeper does with
    L.sweep.__init__(params, L)); afterwards its collocation object is the one of the NEW parameters -- node family, quadrature type,
    node count, nodes, weights, Q, S, order and end-point flags bit-identical to a freshly built CollBase(**new params) -- whatever it held before.
    Exhaustive over ordered pairs of parameter sets from the grid (all pairs in thorough, pairs differing in one entry in quick)."""
    import importlib
    import itertools
    import numpy as np
    from pySDC.core.level import Level

    mod = importlib.reload(importlib.import_module('pySDC.core.collocation'))
    CollBase = mod.CollBase
    GI = cls_of('pySDC/implementations/sweeper_classes/generic_implicit.py', 'generic_implicit')
    from vc.native import ConcreteLinearProblem

    node_types = ['LEGENDRE', 'EQUID', 'CHEBY-1', 'CHEBY-2', 'CHEBY-3', 'CHEBY-4']
    quad_types = ['GAUSS', 'LOBATTO', 'RADAU-LEFT', 'RADAU-RIGHT']
    grid = [dict(node_type=nt, quad_type=qt, num_nodes=M) for nt in node_types for qt in quad_types for M in (2, 3, 4)]
    fails = dict(collocation_object_belongs_to_the_new_parameters=[], reported_parameters_are_the_new_ones=[], reinitialisation_runs=[])
    cases = 0
    for a, b in itertools.permutations(grid, 2):
        ndiff = sum(a[k] != b[k] for k in a)
        if tier == 'quick' and ndiff != 1:
            continue
        cases += 1
        tag = f"{a['node_type']}/{a['quad_type']}/{a['num_nodes']} -> {b['node_type']}/{b['quad_type']}/{b['num_nodes']}"
        try:
            L = Level(problem_class=ConcreteLinearProblem, problem_params=dict(kind='full'), sweeper_class=GI, sweeper_params=dict(a, QI='IE'), level_params=dict(dt=0.1), level_index=0)
            sw = L.sweep
            sw.__init__(dict(b, QI='IE'), L)
        except Exception as e:
            fails['reinitialisation_runs'].append(dict(case=tag, error=repr(e)[:160]))
            continue
        ref = CollBase(**b)
        c = sw.coll
        same = (c.num_nodes == ref.num_nodes and c.node_type == ref.node_type and c.quad_type == ref.quad_type and np.array_equal(c.nodes, ref.nodes)
                and np.array_equal(c.weights, ref.weights) and np.array_equal(c.Qmat, ref.Qmat) and np.array_equal(c.Smat, ref.Smat) and c.order == ref.order
                and c.left_is_node == ref.left_is_node and c.right_is_node == ref.right_is_node)
        if not same:
            fails['collocation_object_belongs_to_the_new_parameters'].append(dict(case=tag, nodes=[float(x) for x in c.nodes], expected=[float(x) for x in ref.nodes]))
        if not (sw.params.num_nodes == b['num_nodes'] and sw.params.quad_type == b['quad_type'] and sw.params.get('node_type', b['node_type']) == b['node_type']):
            fails['reported_parameters_are_the_new_ones'].append(dict(case=tag))
    obs = [dict(name=f'history:{k}', status='proved' if not bad else 'refuted', backend='enumeration', seconds=0.0, kind='bounded', size=0, model=dict(count=len(bad), first=bad[:4]) if bad else None,
                reason='', path=0) for k, bad in fails.items()]
    return dict(contract='Sweeper.__init__ [re-initialised in place]', prop='C05', inst={}, label='exhaustive over the enumerated grid', kind='exact', obligations=obs, canaries=[], paths=1, status='ok',
                bounded=dict(what='second __init__ on an existing sweeper object: collocation object compared bit by bit with a fresh CollBase of the new parameters',
                             bound=f'ordered pairs over 6 node families x 4 quadrature types x M in (2,3,4) ({"pairs differing in one entry" if tier == "quick" else "all pairs"})', cases=cases, failures=sum(len(v) for v in fails.values())))


CONTRACTS = [CollInit, Evaluate, CollUpdateSwitch]
EXTRAS = [qmat_validation, sweeper_reinitialised_in_place]
ASSUMPTIONS = ['qmat (external): nodes, weights, Q, S, order are correct -- validated only boundedly']
UNDECIDED = ['"extended precision" of the property is replaced by exact rational evaluation of the returned doubles with a stated allowance']
