"""
C02, history clause: a sweeper object that is initialised a second time in place (AdaptiveCollocation.switch_sweeper does
L.sweep.__init__(new_params, L)) carries, afterwards, exactly the matrices of a sweeper built fresh from the new
parameters -- quadrature matrix AND every preconditioner matrix (QI, QE, Q1, Q2 ...): nothing of the earlier node set, the
earlier preconditioner name or an earlier sweep index survives in a cached generator.  Decided by running the real
constructors and comparing every array attribute bit by bit (exhaustive over the enumerated grid of parameter pairs).
"""

import itertools
import numpy as np

from contracts.common import cls_of

SW = 'pySDC/implementations/sweeper_classes/'


def _arrays(sw):
    out = {k: np.array(v) for k, v in vars(sw).items() if isinstance(v, np.ndarray)}
    for k in ('Qmat', 'Smat', 'nodes', 'weights'):
        out[f'coll.{k}'] = np.array(getattr(sw.coll, k))
    return out


def sweepers_reinitialised_in_place(tier, seed):
    from pySDC.core.level import Level
    from vc.native import ConcreteLinearProblem

    cases = [
        ('generic_implicit', (SW + 'generic_implicit.py', 'generic_implicit'), 'full', [dict(QI=q) for q in ('IE', 'LU', 'MIN-SR-S', 'MIN-SR-FLEX')]),
        ('imex_1st_order', (SW + 'imex_1st_order.py', 'imex_1st_order'), 'imex', [dict(QI=qi, QE=qe) for qi in ('IE', 'LU') for qe in ('EE', 'PIC')]),
        ('explicit', (SW + 'explicit.py', 'explicit'), 'full', [dict(QE=qe) for qe in ('EE', 'PIC')]),
        ('multi_implicit', (SW + 'multi_implicit.py', 'multi_implicit'), 'comp2', [dict(Q1=a, Q2=b) for a, b in (('IE', 'LU'), ('LU', 'IE'))]),
    ]
    colls = [dict(num_nodes=M, quad_type=qt, node_type=nt) for M in (2, 3) for qt in ('RADAU-RIGHT', 'LOBATTO', 'GAUSS') for nt in ('LEGENDRE', 'EQUID')]
    fails = dict(every_matrix_is_the_one_of_a_fresh_sweeper_with_the_new_parameters=[], reinitialisation_runs=[], after_a_sweep_index_dependent_update=[])
    ncases = 0
    for name, sweeper, kind, precs in cases:
        cls = cls_of(*sweeper)
        params = [dict(c, **p) for c in colls for p in precs]
        pairs = list(itertools.permutations(range(len(params)), 2))
        if tier == 'quick':
            pairs = [(i, j) for i, j in pairs if sum(params[i][k] != params[j][k] for k in params[i]) == 1]
        for i, j in pairs:
            a, b = params[i], params[j]
            ncases += 1
            tag = f'{name}: {a} -> {b}'
            try:
                L = Level(problem_class=ConcreteLinearProblem, problem_params=dict(kind=kind), sweeper_class=cls, sweeper_params=dict(a), level_params=dict(dt=0.1), level_index=0)
                sw = L.sweep
                if 'FLEX' in str(a.get('QI')):
                    sw.updateVariableCoeffs(2)  # the cached generator has seen another sweep index
                sw.__init__(dict(b), L)
                fresh = Level(problem_class=ConcreteLinearProblem, problem_params=dict(kind=kind), sweeper_class=cls, sweeper_params=dict(b), level_params=dict(dt=0.1), level_index=0).sweep
            except Exception as e:
                fails['reinitialisation_runs'].append(dict(case=tag, error=repr(e)[:160]))
                continue
            A, B = _arrays(sw), _arrays(fresh)
            bad = sorted(k for k in set(A) | set(B) if k not in A or k not in B or A[k].shape != B[k].shape or not np.array_equal(A[k], B[k]))
            if bad:
                fails['every_matrix_is_the_one_of_a_fresh_sweeper_with_the_new_parameters'].append(dict(case=tag, differing=bad))
            if 'FLEX' in str(b.get('QI')):
                sw.updateVariableCoeffs(2)
                fresh.updateVariableCoeffs(2)
                A, B = _arrays(sw), _arrays(fresh)
                bad = sorted(k for k in set(A) | set(B) if k not in A or k not in B or not np.array_equal(A[k], B[k]))
                if bad:
                    fails['after_a_sweep_index_dependent_update'].append(dict(case=tag, differing=bad))
    obs = [dict(name=f'history:{k}', status='proved' if not bad else 'refuted', backend='enumeration', seconds=0.0, kind='bounded', size=0, model=dict(count=len(bad), first=bad[:4]) if bad else None,
                reason='', path=0) for k, bad in fails.items()]
    return dict(contract='Sweeper.__init__ [re-initialised in place: preconditioner matrices]', prop='C02', inst={}, label='exhaustive over the enumerated grid', kind='exact', obligations=obs, canaries=[], paths=1, status='ok',
                bounded=dict(what='second __init__ on an existing sweeper object: every array attribute compared bit by bit with a fresh sweeper of the new parameters',
                             bound=f'generic_implicit / imex_1st_order / explicit / multi_implicit; node counts 2-3 x 3 quadrature types x 2 node families x preconditioner names ({"pairs differing in one entry" if tier == "quick" else "all ordered pairs"})',
                             cases=ncases, failures=sum(len(v) for v in fails.values())))


def verlet_position_matrix(tier, seed):
    """verlet / boris_2nd_order construction on REAL node sets: the position matrix QQ is Q*Q, except on Gauss-Lobatto (Legendre) nodes, where it is
    Q * B with B the partner matrix of the symplectic pair condition  w_m B[m,n] + w_n Q[n,m] = w_m w_n  (Lobatto IIIA-IIIB); qQ = w^T Q.
    The partner is recomputed here from the condition in exact rationals on the returned doubles (allowance 1e-12)."""
    from fractions import Fraction as Fr
    from pySDC.core.level import Level
    from vc.native import ConcreteLinearProblem

    obs = []
    for fn, cname in (('verlet.py', 'verlet'), ('boris_2nd_order.py', 'boris_2nd_order')):
        cls = cls_of(SW + fn, cname)
        for nt, qt in (('LEGENDRE', 'LOBATTO'), ('LEGENDRE', 'RADAU-RIGHT'), ('LEGENDRE', 'GAUSS'), ('EQUID', 'LOBATTO'), ('CHEBY-2', 'LOBATTO')):
            for M in (2, 3, 4) if tier == 'quick' else (2, 3, 4, 5, 6):
                tag = f'{cname}[{nt}/{qt}/M={M}]'
                try:
                    sw = Level(problem_class=ConcreteLinearProblem, problem_params=dict(kind='full'), sweeper_class=cls, sweeper_params=dict(num_nodes=M, quad_type=qt, node_type=nt),
                               level_params=dict(dt=0.1), level_index=0).sweep
                except Exception as e:
                    obs.append(dict(name=f'{tag}:constructs', status='refuted', backend='exact-rational', seconds=0.0, kind='bounded', size=0, model=dict(error=repr(e)[:160]), reason='', path=0))
                    continue
                Q = [[Fr(float(v)) for v in row] for row in np.asarray(sw.coll.Qmat)]
                w = [Fr(float(v)) for v in sw.coll.weights]
                n = M + 1
                if (nt, qt) == ('LEGENDRE', 'LOBATTO') and cname == 'verlet':  # boris_2nd_order uses Q*Q on every node set
                    B = [[Fr(0)] * n for _ in range(n)]
                    for m in range(M):
                        for k in range(M):
                            B[m + 1][k + 1] = (w[m] * w[k] - w[k] * Q[k + 1][m + 1]) / w[m]
                else:
                    B = Q
                want = [[sum(Q[i][k] * B[k][j] for k in range(n)) for j in range(n)] for i in range(n)]
                got = np.asarray(sw.QQ, dtype=float)
                err = max(abs(Fr(float(got[i, j])) - want[i][j]) for i in range(n) for j in range(n))
                ok = got.shape == (n, n) and err <= Fr(1, 10**12)
                obs.append(dict(name=f'{tag}:position_matrix_QQ', status='proved' if ok else 'refuted', backend='exact-rational', seconds=0.0, kind='bounded', size=0,
                                model=dict(max_deviation=float(err)) if not ok else None, reason='', path=0))
                wantq = [sum(w[m] * Q[m + 1][j + 1] for m in range(M)) for j in range(M)]
                gq = np.asarray(sw.qQ, dtype=float).ravel()
                okq = len(gq) == M and max(abs(Fr(float(gq[j])) - wantq[j]) for j in range(M)) <= Fr(1, 10**12)
                obs.append(dict(name=f'{tag}:qQ_is_weights_times_Q', status='proved' if okq else 'refuted', backend='exact-rational', seconds=0.0, kind='bounded', size=0, model=None, reason='', path=0))
    return dict(contract='verlet.__init__ / boris_2nd_order.__init__ [position matrices on real node sets]', prop='C02', inst={}, label='exhaustive over the enumerated grid', kind='exact', obligations=obs, canaries=[], paths=1, status='ok',
                bounded=dict(what='QQ and qQ of the second-order sweepers against Q*Q resp. the Lobatto IIIA-IIIB partner', bound='5 node sets x M = 2..4 (thorough: ..6), verlet and boris_2nd_order', cases=len(obs),
                             failures=sum(1 for o in obs if o['status'] != 'proved')))


CONTRACTS = []
EXTRAS = [sweepers_reinitialised_in_place, verlet_position_matrix]
ASSUMPTIONS = ['qmat generators are deterministic functions of (nodes, type, k)']
