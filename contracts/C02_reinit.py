"""
C02, history clause: a sweeper object that is initialised a second time in place (AdaptiveCollocation.switch_sweeper does
L.sweep.__init__(new_params, L)) carries, afterwards, exactly the matrices of a sweeper built fresh from the new
parameters -- quadrature matrix AND every preconditioner matrix (QI, QE, Q1, Q2 ...): nothing of the earlier node set, the
earlier preconditioner name or an earlier sweep index survives in a cached generator.  Decided by running the real
constructors and comparing every array attribute bit by bit (exhaustive over the enumerated grid of parameter pairs).
"""

import itertools
import numpy as np

from contracts.common import cls_of

SW = 'pySDC/implementations/sweeper_classes/'


def _arrays(sw):
    out = {k: np.array(v) for k, v in vars(sw).items() if isinstance(v, np.ndarray)}
    for k in ('Qmat', 'Smat', 'nodes', 'weights'):
        out[f'coll.{k}'] = np.array(getattr(sw.coll, k))
    return out


def sweepers_reinitialised_in_place(tier, seed):
    from pySDC.core.level import Level
    from vc.native import ConcreteLinearProblem

    cases = [
        ('generic_implicit', (SW + 'generic_implicit.py', 'generic_implicit'), 'full', [dict(QI=q) for q in ('IE', 'LU', 'MIN-SR-S', 'MIN-SR-FLEX')]),
        ('imex_1st_order', (SW + 'imex_1st_order.py', 'imex_1st_order'), 'imex', [dict(QI=qi, QE=qe) for qi in ('IE', 'LU') for qe in ('EE', 'PIC')]),
        ('explicit', (SW + 'explicit.py', 'explicit'), 'full', [dict(QE=qe) for qe in ('EE', 'PIC')]),
        ('multi_implicit', (SW + 'multi_implicit.py', 'multi_implicit'), 'comp2', [dict(Q1=a, Q2=b) for a, b in (('IE', 'LU'), ('LU', 'IE'))]),
    ]
    colls = [dict(num_nodes=M, quad_type=qt, node_type=nt) for M in (2, 3) for qt in ('RADAU-RIGHT', 'LOBATTO', 'GAUSS') for nt in ('LEGENDRE', 'EQUID')]
    fails = dict(every_matrix_is_the_one_of_a_fresh_sweeper_with_the_new_parameters=[], reinitialisation_runs=[], after_a_sweep_index_dependent_update=[])
    ncases = 0
    for name, sweeper, kind, precs in cases:
        cls = cls_of(*sweeper)
        params = [dict(c, **p) for c in colls for p in precs]
        pairs = list(itertools.permutations(range(len(params)), 2))
        if tier == 'quick':
            pairs = [(i, j) for i, j in pairs if sum(params[i][k] != params[j][k] for k in params[i]) == 1]
        for i, j in pairs:
            a, b = params[i], params[j]
            ncases += 1
            tag = f'{name}: {a} -> {b}'
            try:
                L = Level(problem_class=ConcreteLinearProblem, problem_params=dict(kind=kind), sweeper_class=cls, sweeper_params=dict(a), level_params=dict(dt=0.1), level_index=0)
                sw = L.sweep
                if 'FLEX' in str(a.get('QI')):
                    sw.updateVariableCoeffs(2)  # the cached generator has seen another sweep index
                sw.__init__(dict(b), L)
                fresh = Level(problem_class=ConcreteLinearProblem, problem_params=dict(kind=kind), sweeper_class=cls, sweeper_params=dict(b), level_params=dict(dt=0.1), level_index=0).sweep
            except Exception as e:
                fails['reinitialisation_runs'].append(dict(case=tag, error=repr(e)[:160]))
                continue
            A, B = _arrays(sw), _arrays(fresh)
            bad = sorted(k for k in set(A) | set(B) if k not in A or k not in B or A[k].shape != B[k].shape or not np.array_equal(A[k], B[k]))
            if bad:
                fails['every_matrix_is_the_one_of_a_fresh_sweeper_with_the_new_parameters'].append(dict(case=tag, differing=bad))
            if 'FLEX' in str(b.get('QI')):
                sw.updateVariableCoeffs(2)
                fresh.updateVariableCoeffs(2)
                A, B = _arrays(sw), _arrays(fresh)
                bad = sorted(k for k in set(A) | set(B) if k not in A or k not in B or not np.array_equal(A[k], B[k]))
                if bad:
                    fails['after_a_sweep_index_dependent_update'].append(dict(case=tag, differing=bad))
    obs = [dict(name=f'history:{k}', status='proved' if not bad else 'refuted', backend='enumeration', seconds=0.0, kind='bounded', size=0, model=dict(count=len(bad), first=bad[:4]) if bad else None,
                reason='', path=0) for k, bad in fails.items()]
    return dict(contract='Sweeper.__init__ [re-initialised in place: preconditioner matrices]', prop='C02', inst={}, label='exhaustive over the enumerated grid', kind='exact', obligations=obs, canaries=[], paths=1, status='ok',
                bounded=dict(what='second __init__ on an existing sweeper object: every array attribute compared bit by bit with a fresh sweeper of the new parameters',
                             bound=f'generic_implicit / imex_1st_order / explicit / multi_implicit; node counts 2-3 x 3 quadrature types x 2 node families x preconditioner names ({"pairs differing in one entry" if tier == "quick" else "all ordered pairs"})',
                             cases=ncases, failures=sum(len(v) for v in fails.values())))


CONTRACTS = []
EXTRAS = [sweepers_reinitialised_in_place]
ASSUMPTIONS = ['qmat generators are deterministic functions of (nodes, type, k)']
