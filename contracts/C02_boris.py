"""
C02 (Boris-type second-order sweeper) -- pySDC/implementations/sweeper_classes/boris_2nd_order.py.

Node-to-node form.  With F_j = build_f(f_j, u_j, t_j) (problem stub, uninterpreted), old = values before the sweep:
    x_{m+1} = x_m^new + dt*delta_m*v_0 + dt^2*sum_{j=0..M} (SQ - Sx)[m+1,j] F_j^old + dt^2*sum_{j=0..m} Sx[m+1,j] F_j^new (+ tau_m.pos - tau_{m-1}.pos)
    f_{m+1} = eval_f(u_{m+1} with the new position, t_{m+1})
    v_{m+1} = boris_solver(c, dt*QI[m+1,m+1], f_m^new, f_{m+1}^new, u_m^new),  c = dt*sum_j (S - ST)[m+1,j] F_j^old (+ tau_m.vel - tau_{m-1}.vel)
integrate: (dt^2*QQ*F + dt*Q*v_0, dt*Q*F);  end point: u_0 + (dt^2*qQ*F + dt*w*v_0, dt*w*F) + tau_M (always quadrature).
Construction: QT = (QI+QE)/2, Qx = QE*QT + (QE o QE)/2, S/ST/Sx = row differences of Q/QT/Qx, SQ = S*Q, QQ = Q*Q.
The time handed to build_f for node 0 is left unspecified (the code passes nodes[-1] there; the statement does not speak about it).
"""

import numpy as onp

from vc import sym
from vc.sym import And
from vc.vec import Vec, vec_syntactic_equal
from vc.contract import Contract, State, veq, seq, vsum, snapshot, frame_clauses
from vc.ghost.problem import ParticleProblem, VecP, Rec, _same_scalar, data_syntactic_equal
from contracts.common import make_level, cls_of, lower, cp
from contracts.C02_qdelta import install_ghost_generators, _NpShim, _meq, _pad_impl, _pad_expl, symbolic

BF = 'pySDC/implementations/sweeper_classes/boris_2nd_order.py'


class BorisProblem(ParticleProblem):
    def __init__(self, **kw):
        super().__init__(**kw)
        self.builds = []
        self.boris = []

    def build_f(self, f, u, t):
        for r in self.builds:
            if vec_syntactic_equal(r.f, f) and data_syntactic_equal(r.u, u) and _same_scalar(r.t, t):
                return Vec(r.out)
        k = len(self.builds)
        out = Vec.atom(f'{self.name}.B{k}', kind='f')
        self.builds.append(Rec(out=Vec(out), f=Vec(f), u=VecP(u), t=t, k=k))
        return out

    def find_build(self, f, u, t=None):
        for r in self.builds:
            if vec_syntactic_equal(r.f, f) and data_syntactic_equal(r.u, u) and (t is None or _same_scalar(r.t, t)):
                return Vec(r.out)
        return None

    def boris_solver(self, c, dt, old_fields, new_fields, old_parts):
        k = len(self.boris)
        v = Vec.atom(f'{self.name}.V{k}')
        self.boris.append(Rec(v=Vec(v), c=Vec(c), dt=dt, old_fields=Vec(old_fields), new_fields=Vec(new_fields), old_parts=VecP(old_parts), k=k))
        return v


class _BorisBase(Contract):
    prop = 'C02'
    label = 'instance-proved'
    native = False
    stubs = ('Problem.eval_f [uninterpreted fields of (pos, vel, t)]', 'Problem.build_f(f, u, t) [uninterpreted acceleration]',
             'Problem.boris_solver(c, dt, old_fields, new_fields, old_parts) [fresh velocity; arguments recorded]')

    def Ms(self, tier):
        return (1, 2, 3) if tier == 'quick' else (1, 2, 3, 4)

    def mk_level(self, inst, mk):
        M = inst['M']
        L = make_level(cls_of(BF, 'boris_2nd_order'), M, mk, kind='particles', fill=False, problem_class=BorisProblem)
        sw = L.sweep
        full = lambda i, j: True
        for nm in ('S', 'ST', 'SQ', 'Sx', 'QQ'):
            setattr(sw, nm, mk.matrix(f'L.{nm}', M + 1, M + 1, full))
        sw.QI = mk.matrix('L.QI', M + 1, M + 1, lower)
        sw.qQ = mk.vector('L.qQ', M)
        sw.coll.delta_m = mk.vector('L.delta', M)
        for m in range(M + 1):
            u = VecP()
            u.pos, u.vel = mk.vec(f'L.x{m}'), mk.vec(f'L.v{m}')
            u.m, u.q = 'mass', 'charge'
            L.u[m] = u
            L.f[m] = mk.vec(f'L.EB{m}', 'f')
        if inst.get('tau'):
            for m in range(M):
                t = VecP()
                t.pos, t.vel = mk.vec(f'L.taux{m}'), mk.vec(f'L.tauv{m}')
                L.tau[m] = t
        L.status.unlocked = True
        return L

    def snapshot(self, st):
        st.old_u = [VecP(u) for u in st.L.u]
        st.old_f = [cp(f) for f in st.L.f]
        st.old_tau = [None if t is None else VecP(t) for t in st.L.tau]
        return snapshot({'L': st.L})

    def tnode(self, st, j):
        return None if j == 0 else st.L.status.time + st.L.params.dt * st.L.sweep.coll.nodes[j - 1]


class BorisIntegrate(_BorisBase):
    name = 'boris_2nd_order.integrate'
    target = (BF, 'boris_2nd_order.integrate')

    def instances(self, tier):
        return [dict(M=M) for M in self.Ms(tier)]

    def build(self, inst, mk):
        L = self.mk_level(inst, mk)
        return State(L=L, M=inst['M'], call=L.sweep.integrate)

    def post(self, st, old, result, exc):
        L, M, sw, P = st.L, st.M, st.L.sweep, st.L.prob
        dt, Q = L.params.dt, sw.coll.Qmat
        yield 'returns_M_values', exc is None and len(result) == M
        if exc is not None:
            return
        F = [None] + [P.find_build(st.old_f[j], st.old_u[j], self.tnode(st, j)) for j in range(1, M + 1)]
        yield 'accelerations_built_from_node_values_at_node_times', all(f is not None for f in F[1:])
        if any(f is None for f in F[1:]):
            return
        for m in range(1, M + 1):
            yield f'row{m}:position', veq(result[m - 1].pos, vsum(dt * (dt * sw.QQ[m, j] * F[j]) + dt * Q[m, j] * st.old_u[0].vel for j in range(1, M + 1)))
            yield f'row{m}:velocity', veq(result[m - 1].vel, vsum(dt * Q[m, j] * F[j] for j in range(1, M + 1)))
        yield from frame_clauses(old, snapshot({'L': L}), frame=['L.prob'])

    def canary(self, st, old, result, exc):
        yield 'canary:velocity_row_zero', veq(result[0].vel, 0)


class BorisUpdateNodes(_BorisBase):
    name = 'boris_2nd_order.update_nodes'
    target = (BF, 'boris_2nd_order.update_nodes')

    def instances(self, tier):
        return [dict(M=M, tau=t) for M in self.Ms(tier) for t in (False, True)]

    def build(self, inst, mk):
        L = self.mk_level(inst, mk)
        return State(L=L, M=inst['M'], call=L.sweep.update_nodes)

    def post(self, st, old, result, exc):
        L, M, sw, P = st.L, st.M, st.L.sweep, st.L.prob
        dt = L.params.dt
        yield 'returns_normally', exc is None
        if exc is not None:
            return
        Fold = [P.find_build(st.old_f[j], st.old_u[j], self.tnode(st, j)) for j in range(M + 1)]
        yield 'old_accelerations_built_from_old_node_values', all(f is not None for f in Fold)
        if any(f is None for f in Fold):
            return
        yield 'one_boris_solve_per_node', len(P.boris) == M
        for m in range(M):
            known_pos = vsum(dt * (dt * (sw.SQ[m + 1, j] - sw.Sx[m + 1, j]) * Fold[j]) for j in range(M + 1))
            known_vel = vsum(dt * (sw.S[m + 1, j] - sw.ST[m + 1, j]) * Fold[j] for j in range(M + 1))
            if st.old_tau[m] is not None:
                known_pos, known_vel = known_pos + st.old_tau[m].pos, known_vel + st.old_tau[m].vel
                if m > 0:
                    known_pos, known_vel = known_pos - st.old_tau[m - 1].pos, known_vel - st.old_tau[m - 1].vel
            # accelerations of the already updated nodes 0..m: at the time node m+1 was processed, node j held its new position and velocity
            Fnew = [P.find_build(L.f[j], L.u[j], self.tnode(st, j)) for j in range(m + 1)]
            yield f'node{m + 1}:new_accelerations_built_from_updated_nodes', all(f is not None for f in Fnew)
            if any(f is None for f in Fnew):
                continue
            pos = known_pos + vsum(dt * (dt * sw.Sx[m + 1, j] * Fnew[j]) for j in range(m + 1)) + L.u[m].pos + dt * sw.coll.delta_m[m] * st.old_u[0].vel
            yield f'node{m + 1}:position', veq(L.u[m + 1].pos, pos)
            er = P.find_eval(L.f[m + 1])
            yield f'f{m + 1}:is_eval_f', er is not None
            if er is not None:
                yield f'f{m + 1}:fields_at_new_position', veq(er.u.pos, L.u[m + 1].pos)
                yield f'f{m + 1}:at_node_time', seq(er.t, L.status.time + dt * sw.coll.nodes[m])
            rec = next((r for r in P.boris if vec_syntactic_equal(r.v, L.u[m + 1].vel)), None)
            yield f'node{m + 1}:velocity_is_a_boris_solve', rec is not None
            if rec is not None:
                yield f'node{m + 1}:boris_known_term', veq(rec.c, known_vel)
                yield f'node{m + 1}:boris_step', seq(rec.dt, dt * sw.QI[m + 1, m + 1])
                yield f'node{m + 1}:boris_fields_old_new', And(veq(rec.old_fields, L.f[m]), veq(rec.new_fields, L.f[m + 1]))
                yield f'node{m + 1}:boris_previous_particles', And(veq(rec.old_parts.pos, L.u[m].pos), veq(rec.old_parts.vel, L.u[m].vel))
        yield 'u0_untouched', And(veq(L.u[0].pos, st.old_u[0].pos), veq(L.u[0].vel, st.old_u[0].vel), veq(L.f[0], st.old_f[0]))
        yield 'status.updated', L.status.updated is True
        yield from frame_clauses(old, snapshot({'L': L}),
                                 frame=[f'L.u[{m}]' for m in range(1, M + 1)] + [f'L.f[{m}]' for m in range(1, M + 1)] + ['L.status.updated', 'L.prob'])

    def canary(self, st, old, result, exc):
        L, M, P = st.L, st.M, st.L.prob
        yield 'canary:position_unchanged', veq(L.u[M].pos, st.old_u[M].pos)
        yield 'canary:boris_known_term_zero', veq(P.boris[-1].c, 0)


class BorisEndPoint(_BorisBase):
    name = 'boris_2nd_order.compute_end_point'
    target = (BF, 'boris_2nd_order.compute_end_point')

    def instances(self, tier):
        return [dict(M=M, tau=t) for M in self.Ms(tier) for t in (False, True)]

    def build(self, inst, mk):
        from contracts.common import plant_earlier_end_value

        L = self.mk_level(inst, mk)
        return plant_earlier_end_value(State(L=L, M=inst['M'], call=L.sweep.compute_end_point), L, cp(L.u[inst['M']]))

    def post(self, st, old, result, exc):
        L, M, sw, P = st.L, st.M, st.L.sweep, st.L.prob
        dt, w = L.params.dt, sw.coll.weights
        yield 'returns_normally', exc is None
        if exc is not None:
            return
        F = [None] + [P.find_build(st.old_f[j], st.old_u[j], self.tnode(st, j)) for j in range(1, M + 1)]
        yield 'accelerations_built_from_node_values_at_node_times', all(f is not None for f in F[1:])
        if any(f is None for f in F[1:]):
            return
        pos = st.old_u[0].pos + vsum(dt * (dt * sw.qQ[m] * F[m + 1]) + dt * w[m] * st.old_u[0].vel for m in range(M))
        vel = st.old_u[0].vel + vsum(dt * w[m] * F[m + 1] for m in range(M))
        if st.old_tau[M - 1] is not None:
            pos, vel = pos + st.old_tau[M - 1].pos, vel + st.old_tau[M - 1].vel
        yield 'uend:position', veq(L.uend.pos, pos)
        yield 'uend:velocity', veq(L.uend.vel, vel)
        yield 'uend:new_object', all(L.uend is not u for u in L.u)
        from contracts.common import earlier_end_value_clause

        yield earlier_end_value_clause(st, L)
        yield from frame_clauses(old, snapshot({'L': L}), frame=['L.uend', 'L.prob'])

    def canary(self, st, old, result, exc):
        yield 'canary:uend_is_last_node', veq(st.L.uend.pos, st.old_u[st.M].pos)


def _close(A, B):
    # purely numeric matrices (products of the collocation matrix): equal up to the rounding of the summation order
    A, B = onp.asarray(A, dtype=float), onp.asarray(B, dtype=float)
    return A.shape == B.shape and bool(onp.all(onp.abs(A - B) <= 1e-13 * max(1.0, float(onp.abs(B).max()))))


class BorisMatrices(Contract):
    """construction: the node-to-node matrices are the documented combinations of Q and of the two preconditioners named in the description"""

    prop = 'C02'
    name = 'boris_2nd_order.__init__ [node-to-node matrices]'
    target = (BF, 'boris_2nd_order.__get_Qd')
    label = 'instance-proved'
    native = False
    assumptions = ('qmat QDeltaGenerator.genCoeffs(k[, dTau]) is a function of (generator type, k) [ghost generator with symbolic entries]',)

    def instances(self, tier):
        return [dict(M=M) for M in ((2,) if tier == 'quick' else (1, 2, 3))]

    def build(self, inst, mk):
        import importlib
        from pySDC.core.level import Level

        M = inst['M']
        mod, log, GA, GB = install_ghost_generators(mk, M, {}, triangular=True)
        bm = importlib.import_module('pySDC.implementations.sweeper_classes.boris_2nd_order')
        bm.np = _NpShim()
        st = State(M=M, mod=mod)

        def call():
            L = Level(problem_class=BorisProblem, problem_params=dict(name='L.P'), sweeper_class=bm.boris_2nd_order,
                      sweeper_params=dict(num_nodes=M, quad_type='RADAU-RIGHT', QI='GA', QE='GB'), level_params=dict(dt=1.0), level_index=0)
            return L.sweep

        st.call = symbolic(call)
        return st

    def post(self, st, old, result, exc):
        M = st.M
        yield 'constructs', exc is None
        if exc is not None:
            return
        sw, T = result, st.mod._ghost_tables
        Q = onp.asarray(sw.coll.Qmat, dtype=object)
        QI, QE = _pad_impl(T['GA'][None][0], M), _pad_expl(T['GB'][None][0], T['GB'][None][1], M)
        QT = 0.5 * (QI + QE)
        Qx = onp.dot(QE, QT) + 0.5 * QE * QE

        def rowdiff(A):
            R = onp.zeros((M + 1, M + 1), dtype=object)
            R[0, :] = A[0, :]
            for m in range(M):
                R[m + 1, :] = A[m + 1, :] - A[m, :]
            return R

        S = rowdiff(Q)
        yield 'QI_is_the_named_implicit_preconditioner', _meq(sw.QI, QI)
        yield 'QT_is_the_trapezoidal_mean', _meq(sw.QT, QT)
        yield 'Qx', _meq(sw.Qx, Qx)
        yield 'S_is_node_to_node_Q', _meq(sw.S, S)
        yield 'ST_is_node_to_node_QT', _meq(sw.ST, rowdiff(QT))
        yield 'Sx_is_node_to_node_Qx', _meq(sw.Sx, rowdiff(Qx))
        yield 'SQ_is_S_times_Q', _close(sw.SQ, onp.dot(S, Q))
        yield 'QQ_is_Q_squared', _close(sw.QQ, onp.dot(Q, Q))
        yield 'qQ_is_weights_times_Q', _close(sw.qQ, onp.dot(onp.asarray(sw.coll.weights, dtype=object), Q[1:, 1:]))

    def canary(self, st, old, result, exc):
        if st.M >= 2:
            yield 'canary:ST_equals_QT', _meq(result.ST, result.QT)
        else:
            yield 'canary:Sx_is_zero', _meq(result.Sx, 0 * result.Sx + 1)



# ------------------------------------------------------------------------------------------ Runge-Kutta-Nystroem (explicit tableaux)
RKNF = 'pySDC/implementations/sweeper_classes/Runge_Kutta_Nystrom.py'


class RKNUpdateNodes(Contract):
    """explicit Runge-Kutta-Nystroem stages (A = velocity tableau, Abar = position tableau, c = nodes, a_j = build_f(f_j, u_j, t + c_j dt)):
        x_m = x_0 + dt*c_m*v_0 + dt^2*sum_{j<m} Abar[m,j]*a_j,    v_m = v_0 + dt*sum_{j<m} A[m,j]*a_j,   f_m = eval_f(u_m, .) for all but the last stage
    (the time handed to eval_f is left unspecified: the code passes the time of the previous stage; every shipped second-order
    problem ignores it).  The implicit branch (bespoke to Velocity_Verlet) is not under contract."""

    prop = 'C02'
    name = 'RungeKuttaNystrom.update_nodes [explicit tableaux]'
    target = (RKNF, 'RungeKuttaNystrom.update_nodes')
    label = 'instance-proved'
    native = False
    stubs = _BorisBase.stubs[:2]

    def instances(self, tier):
        return [dict(cls='RKN', M=5)]

    def build(self, inst, mk):
        import importlib

        mod = importlib.import_module('pySDC.implementations.sweeper_classes.Runge_Kutta_Nystrom')
        M = inst['M']
        L = make_level(getattr(mod, inst['cls']), M, mk, kind='particles', fill=False, sweeper_params={}, problem_class=BorisProblem)
        sw = L.sweep
        assert sw.coll.num_nodes == M and not sw.coll.implicit
        # the type test of get_full_f sees the ghost data types
        mod.particles, mod.fields, mod.acceleration = VecP, Vec, Vec
        sw.coll.Qmat = mk.matrix('L.A', M + 1, M + 1, lambda i, j: i >= 1 and 1 <= j < i)
        sw.QI = sw.coll.Qmat
        sw.Qx = mk.matrix('L.Abar', M + 1, M + 1, lambda i, j: i >= 1 and 1 <= j < i)
        sw.coll.nodes = onp.array([0] + [mk.real(f'L.c_{i}') for i in range(M)], dtype=object)
        u = VecP()
        u.pos, u.vel = mk.vec('L.x0'), mk.vec('L.v0')
        u.m, u.q = 'mass', 'charge'
        L.u[0] = u
        L.status.sweep = 1
        L.status.unlocked = True
        return State(L=L, M=M, u0=VecP(u), call=sw.update_nodes)

    def post(self, st, old, result, exc):
        L, M, sw, P = st.L, st.M, st.L.sweep, st.L.prob
        dt, A, Ab, c = L.params.dt, sw.QI, sw.Qx, sw.coll.nodes
        yield 'returns_normally', exc is None
        if exc is not None:
            return
        acc = {}
        for m in range(1, M + 1):
            ok = True
            for j in range(1, m):
                if j not in acc:
                    acc[j] = P.find_build(L.f[j], L.u[j], L.status.time + dt * c[j])
                ok = ok and acc[j] is not None
            yield f'stage{m}:accelerations_built_from_earlier_stages_at_their_times', ok
            if not ok:
                continue
            yield f'stage{m}:position', veq(L.u[m].pos, st.u0.pos + dt * c[m] * st.u0.vel + vsum(dt * dt * Ab[m, j] * acc[j] for j in range(1, m)))
            yield f'stage{m}:velocity', veq(L.u[m].vel, st.u0.vel + vsum(dt * A[m, j] * acc[j] for j in range(1, m)))
            if m < M:
                er = P.find_eval(L.f[m])
                yield f'f{m}:fields_at_the_stage_value', er is not None and bool(veq(er.u.pos, L.u[m].pos)) is True and bool(veq(er.u.vel, L.u[m].vel)) is True
        yield 'u0_untouched', And(veq(L.u[0].pos, st.u0.pos), veq(L.u[0].vel, st.u0.vel))
        yield 'status.updated', L.status.updated is True

    def canary(self, st, old, result, exc):
        yield 'canary:last_stage_position_without_accelerations', veq(st.L.u[st.M].pos, st.u0.pos + st.L.params.dt * st.L.sweep.coll.nodes[st.M] * st.u0.vel)


CONTRACTS = [BorisIntegrate, BorisUpdateNodes, BorisEndPoint, BorisMatrices, RKNUpdateNodes]
