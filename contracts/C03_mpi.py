"""C03 (MPI flavour): the per-rank it_check contract of controller_MPI (residual after send/receive, before the stopping decision;
counter incremented only when not done) -- contracts/C07_mpi.py re-exported under C03."""
from contracts.C07_mpi import ItCheckMPI, ItCheckMPIForced, _c03

CONTRACTS = [_c03(ItCheckMPI), _c03(ItCheckMPIForced)]
