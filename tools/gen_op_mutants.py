#!/usr/bin/env python3
"""Operator-mutant generator (self test of the contracts, not part of any check): for the source files a property is anchored in,
produce one-token mutants  [0]<->[-1],  <  <->  <=,  >  <->  >=,  "+ 1" -> "",  "- 1" -> ""  on code tokens (comments, strings and
docstrings are skipped), each as a (file, old, new) replacement that is unique in the file (context lines are added until it is).
usage: tools/gen_op_mutants.py > /tmp/op_mutants.json ;  tools/run_op_mutants.py /tmp/op_mutants.json"""
import io, json, re, sys, tokenize

FILES = {
    'pySDC/implementations/controller_classes/controller_nonMPI.py': ['C06', 'C07', 'C01'],
    'pySDC/core/base_transfer.py': ['C10'],
    'pySDC/core/sweeper.py': ['C02', 'C03'],
    'pySDC/core/level.py': ['C19', 'C07'],
    'pySDC/core/step.py': ['C20', 'C07'],
    'pySDC/implementations/sweeper_classes/generic_implicit.py': ['C02'],
    'pySDC/implementations/sweeper_classes/imex_1st_order.py': ['C02'],
    'pySDC/implementations/sweeper_classes/explicit.py': ['C02'],
    'pySDC/implementations/sweeper_classes/multi_implicit.py': ['C02'],
    'pySDC/implementations/sweeper_classes/verlet.py': ['C02'],
    'pySDC/implementations/sweeper_classes/boris_2nd_order.py': ['C02'],
    'pySDC/implementations/sweeper_classes/Runge_Kutta.py': ['C02'],
    'pySDC/implementations/convergence_controller_classes/check_convergence.py': ['C03'],
    'pySDC/implementations/convergence_controller_classes/basic_restarting.py': ['C09'],
    'pySDC/implementations/convergence_controller_classes/spread_step_sizes.py': ['C09'],
    'pySDC/implementations/convergence_controller_classes/step_size_limiter.py': ['C09'],
    'pySDC/implementations/convergence_controller_classes/adaptivity.py': ['C09'],
    'pySDC/core/hooks.py': ['C14'],
    'pySDC/implementations/hooks/default_hook.py': ['C14'],
    'pySDC/helpers/stats_helper.py': ['C14'],
    'pySDC/helpers/fieldsIO.py': ['C16'],
    'pySDC/helpers/blocks.py': ['C16'],
    'pySDC/core/collocation.py': ['C05'],
    'pySDC/helpers/problem_helper.py': ['C18'],
    'pySDC/helpers/pysdc_helper.py': ['C20'],
    'pySDC/core/common.py': ['C20'],
    'pySDC/core/convergence_controller.py': ['C20', 'C09'],
}


def code_spans(text):
    """per line: list of (col_start, col_end) that are code (not comment / string)"""
    skip = {}
    for tok in tokenize.generate_tokens(io.StringIO(text).readline):
        if tok.type in (tokenize.COMMENT, tokenize.STRING) or (hasattr(tokenize, 'FSTRING_START') and tok.type in (tokenize.FSTRING_START, tokenize.FSTRING_MIDDLE, tokenize.FSTRING_END)):
            (r0, c0), (r1, c1) = tok.start, tok.end
            for r in range(r0, r1 + 1):
                skip.setdefault(r, []).append((c0 if r == r0 else 0, c1 if r == r1 else 10**9))
    return skip


OPS = [(r'\[0\]', '[-1]'), (r'\[-1\]', '[0]'), (r'(?<![<>=!])<(?![<=])', '<='), (r'(?<![<>=!-])>(?![>=])', '>='), (r'<=', '<'), (r'(?<!-)>=', '>'),
       (r' \+ 1\b(?!\.)', ''), (r' - 1\b(?!\.)', '')]


def main():
    out = []
    for f, props in FILES.items():
        raw = open('/repo/' + f, 'rb').read().decode()
        nl = '\r\n' if '\r\n' in raw else '\n'
        lines = raw.split(nl)
        skip = code_spans(raw.replace('\r\n', '\n'))
        for i, l in enumerate(lines):
            if l.lstrip().startswith(('def ', 'class ', '@', 'import ', 'from ')) or '->' in l or 'logger' in l or 'self.log(' in l or 'self.debug(' in l:
                continue
            for pat, rep in OPS:
                for m in re.finditer(pat, l):
                    if any(a <= m.start() < b for a, b in skip.get(i + 1, [])):
                        continue
                    newl = l[:m.start()] + rep + l[m.end():]
                    a = b = i
                    while True:
                        old = nl.join(lines[a:b + 1])
                        if raw.count(old) == 1:
                            break
                        if a > 0:
                            a -= 1
                        else:
                            b += 1
                    new = nl.join(lines[a:i] + [newl] + lines[i + 1:b + 1])
                    out.append(dict(file=f, old=old, new=new, props=props, line=i + 1, op=f'{m.group(0).strip()} -> {rep.strip() or "(dropped)"}', text=l.strip()[:100]))
    json.dump(out, sys.stdout, indent=1)


if __name__ == '__main__':
    main()
