#!/bin/sh
# tools/scratch_repo.sh make|drop : a scratch git worktree of /repo's HEAD under /var/tmp (outside /repo and /verif).
# Seeded changes are applied THERE and the checks are pointed at it with VERIF_REPO; /repo's working tree is never
# modified by a tool of this directory (a sweep killed half-way once left a seed applied in /repo -- DESIGN 12.5).
SCRATCH=${VERIF_SCRATCH:-/var/tmp/verif_scratch_repo}
case "$1" in
  make)
    if [ -n "$(git -C /repo status --porcelain)" ]; then echo "/repo has uncommitted changes: refusing" >&2; exit 7; fi
    git -C /repo worktree remove --force "$SCRATCH" >/dev/null 2>&1; rm -rf "$SCRATCH"; git -C /repo worktree prune
    git -C /repo worktree add -q --detach "$SCRATCH" HEAD || exit 9
    echo "$SCRATCH" ;;
  drop)
    git -C /repo worktree remove --force "$SCRATCH" >/dev/null 2>&1; rm -rf "$SCRATCH"; git -C /repo worktree prune ;;
  *) echo "usage: $0 make|drop" >&2; exit 2 ;;
esac
