#!/usr/bin/env python3
"""tools/write_meta.py <seed-id> <property> <caught_by> [remark]  -- writes seeded/<seed-id>/meta.json from notes.md and /tmp/confirm_all.log"""
import json, re, sys, os
sid, prop, by = sys.argv[1:4]
remark = sys.argv[4] if len(sys.argv) > 4 else ''
d = f'/verif/seeded/{sid}/'
log = open('/tmp/confirm_all.log').read()
m = None
for m in re.finditer(r'seed ' + re.escape(sid) + r': demo clean rc=(\d+) patched rc=(\d+) ; test outcome set vs clean tree: (\w+) \((\d+)', log):
    pass
conf = dict(demo_clean_rc=int(m.group(1)), demo_patched_rc=int(m.group(2)), tests=m.group(3), n_env_failures=int(m.group(4))) if m else dict(note='confirmation run missing')
if m and m.group(3) != 'same':
    conf['note'] = 'differences confined to test_fieldsIO.py (flaky under xdist on the clean tree as well)'
notes = open(d + 'notes.md').read()
paras = re.split(r'\n\s*\n', notes)
pick = [p for p in paras if re.search(r'(?i)(needs? to manifest|what it needs|condition)', p)]
meta = dict(seed=sid, breaks_property=prop, what_it_needs_to_manifest=' '.join((pick[0] if pick else paras[min(1, len(paras) - 1)]).split())[:1200],
            confirmed_by_me=dict(how='tools/confirm_seed.sh in a scratch git worktree of /repo HEAD (removed afterwards): demo.py run without and with patch.diff; core pinned test directories with pytest -n 6, FAILED/ERROR id sets compared with the clean tree', **conf),
            caught_by=by, remark=remark, checks_run=f'tools/try_seed.sh <patch> {prop} (git -C /repo apply, ./check {prop} --tier quick, git -C /repo checkout -- .)')
json.dump(meta, open(d + 'meta.json', 'w'), indent=1)
print(sid, conf)
