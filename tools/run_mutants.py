#!/usr/bin/env python3
"""Scratch-mutant self test: every mutant in tools/mutants.json (one textual replacement in one /repo module, compiled
in memory by the check process, nothing written) must make ./check <prop> exit 1 with a VIOLATION line.
usage: tools/run_mutants.py [Cxx ...]"""
import json, os, subprocess, sys
from concurrent.futures import ThreadPoolExecutor

ROOT = os.path.dirname(os.path.dirname(os.path.abspath(__file__)))
muts = json.load(open(os.path.join(ROOT, 'tools', 'mutants.json')))
sel = set(sys.argv[1:])
muts = [m for m in muts if not sel or m['prop'] in sel]


def run(m):
    env = dict(os.environ, VERIF_MUTANT=json.dumps(dict(file=m['file'], old=m['old'], new=m['new'])), VERIF_JOBS='4')
    cmd = [os.path.join(ROOT, 'check'), m['prop'], '--tier', 'quick', '--no-evidence']
    if m.get('only'):
        cmd += ['--only', m['only']]
    p = subprocess.run(cmd, env=env, capture_output=True, text=True)
    v = [l for l in p.stdout.split('\n') if l.startswith('VIOLATION') or l.startswith('  failed') or l.startswith('  native')]
    return m, p.returncode, v, p.stdout[-600:] + p.stderr[-600:]


killed = 0
with ThreadPoolExecutor(4) as ex:
    for m, rc, v, tail in ex.map(run, muts):
        ok = rc == 1 and v
        killed += bool(ok)
        conf = sum('no-failing-input-found' not in l for l in v if l.startswith('VIOLATION'))
        print(f"{'KILLED ' if ok else 'SURVIVED'} {m['prop']} {m['file'].split('/')[-1]}: {m['old'][:50]!r} -> {m['new'][:50]!r}  rc={rc} first={v[1].strip() if len(v) > 1 else ''} replay-confirmed={conf}")
        if not ok:
            print(tail)
print(f'{killed}/{len(muts)} mutants killed')
sys.exit(0 if killed == len(muts) else 1)
