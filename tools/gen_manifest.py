#!/usr/bin/env python3
"""Regenerates MANIFEST.json from the table below (kept in one place so that claims and not_applicable stay in sync)."""
import json
import os

ROOT = os.path.dirname(os.path.dirname(os.path.abspath(__file__)))

COMMON_NOTE = ('Trusted: CPython running the real functions on symbolic leaves (vc/sym.py, vc/vec.py; cross-checked natively every run), '
               'the path explorer, z3/cvc5, harness constructors. Assumed: floats are mathematical reals, data types obey the vector-space laws, '
               'callee contracts used as stubs (listed per evidence file), numpy/scipy/qmat internals. Container sizes are enumerated per instance '
               '(instance-proved = complete over all continuous inputs per size, bounded in the size).')

CLAIMS = {
    # id: (text, technique, design_ref, extra note)
}

NOT_APPLICABLE = {
    'C08': 'quantifier is over MPI schedules / completion orders of non-blocking operations: contract proofs are sequential and per function; deciding it needs a model of the MPI runtime (a different technique family) and mpi4py is not installed. Sequential formula agreement of the MPI flavours is reported under C02/C03/C09 without claiming C08.',
}

ALL = [f'C{i:02d}' for i in range(1, 21)]


def load_claims():
    fn = os.path.join(ROOT, 'tools', 'claims.json')
    return json.load(open(fn))


def main():
    claims = load_claims()
    checks = []
    for pid in ALL:
        if pid in claims:
            c = claims[pid]
            checks.append(dict(
                property_id=pid,
                quick_cmd=f'./check {pid} --tier quick',
                thorough_cmd=f'./check {pid} --tier thorough',
                evidence_file=f'evidence/{pid}.json',
                replay_cmd_template='./check --replay {path}',
                engine='vc',
                level_claimed=dict(category=c.get('category', 'proof'), text=c['text'], design_ref=c.get('design_ref', 'DESIGN.md section 6')),
                level_note=COMMON_NOTE + ' ' + c.get('note', ''),
                technique=c['technique'],
            ))
    na = []
    for pid in ALL:
        if pid not in claims:
            na.append(dict(property_id=pid, reason=NOT_APPLICABLE.get(pid, 'contracts for this property are not built yet (nothing is claimed until its obligations are generated from /repo and discharged)')))
    m = dict(
        version=1,
        setup_cmd='./setup.sh',
        hooks=dict(guard='PYSDC_VERIF', enable='none needed: contracts, stubs and shims are installed by the check process at run time; /repo carries no hook code (/repo commit b69fdf9 "uncommitted hook changes" is NOT a hook: it is a seeded change of the corpus of this machinery, seeded/C17-J, left in the working tree by an interrupted seed sweep; it is undone by the fix commit 443de0d, see DESIGN.md 12.5)',
                   baseline_off_cmd='cd /repo && /venv/bin/python -m pytest -ra -q -p no:cacheprovider --timeout=900 --continue-on-collection-errors',
                   source_commits=[], add_only=True),
        engines=[dict(name='vc', path='vc/', serves_properties=sorted(claims), kind_free_text='contract-based deductive verification: the real pySDC functions are evaluated under CPython on symbolic leaves (z3 terms, free-module vectors), paths enumerated exhaustively, callees replaced by contract stubs, obligations (pre/post/frame/lemma) discharged by z3, cvc5 and a polynomial normal form; counterexamples replayed natively on the real code')],
        checks=checks,
        notes='See DESIGN.md. exit 0 held / 1 violation (replay file) / 2 undecided / 3 checker crash. known_findings.json lists recorded findings and fixes.',
        not_applicable=na,
    )
    with open(os.path.join(ROOT, 'MANIFEST.json'), 'w') as f:
        json.dump(m, f, indent=1)
    print('MANIFEST.json:', len(checks), 'claimed,', len(na), 'not applicable')


if __name__ == '__main__':
    main()
