#!/usr/bin/env python3
"""runs the mutants of tools/gen_op_mutants.py: each one against the quick checks of the properties its file is anchored in (in memory, nothing
written to /repo); prints KILLED / SURVIVED per mutant. Survivors are triaged by hand (equivalent mutant, or a hole in a contract)."""
import json, os, subprocess, sys
from concurrent.futures import ThreadPoolExecutor

muts = json.load(open(sys.argv[1]))
ROOT = os.path.dirname(os.path.dirname(os.path.abspath(__file__)))


def run(m):
    res = []
    for p in m['props']:
        env = dict(os.environ, VERIF_MUTANT=json.dumps(dict(file=m['file'], old=m['old'], new=m['new'])), VERIF_JOBS='4', VERIF_JOB_TIMEOUT='600')
        r = subprocess.run([os.path.join(ROOT, 'check'), p, '--tier', 'quick', '--no-evidence'], env=env, capture_output=True, text=True)
        first = [l for l in r.stdout.split('\n') if l.startswith('  failed') or l.startswith('  native')]
        res.append((p, r.returncode, first[0].strip()[:140] if first else ''))
        if r.returncode == 1:
            break
    return m, res


with ThreadPoolExecutor(int(os.environ.get('MUT_PAR', '4'))) as ex:
    for m, res in ex.map(run, muts):
        killed = [p for p, rc, _ in res if rc == 1]
        print(('KILLED  ' if killed else 'SURVIVED'), m['file'].split('/')[-1], m['line'], f"[{m['op']}]", m['text'], '|', [(p, rc) for p, rc, _ in res], flush=True)
