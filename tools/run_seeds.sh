#!/bin/sh
# tools/run_seeds.sh [pattern] : apply every stored seeded change (seeded/<pattern>*/patch.diff) in turn to a SCRATCH
# worktree of /repo's HEAD, run the quick check of its property on that worktree (VERIF_REPO), undo; prints CAUGHT / MISSED
# per seed. /repo's own working tree is never modified, so an interrupted sweep cannot leave a seed behind in it.
HERE="$(cd "$(dirname "$0")" && pwd)"
export VERIF_SCRATCH=/var/tmp/verif_seeds_$$
S=$("$HERE/scratch_repo.sh" make) || exit $?
trap '"$HERE/scratch_repo.sh" drop' EXIT INT TERM HUP
cd "$HERE/.."
for d in seeded/${1:-}*/; do
  [ -f "$d/patch.diff" ] || continue
  s=$(basename $d); p=$(echo $s | cut -c1-3)
  if ! git -C "$S" apply --check "$PWD/$d/patch.diff" 2>/dev/null; then echo "NOAPPLY $s"; continue; fi
  git -C "$S" apply "$PWD/$d/patch.diff"
  out=$(VERIF_REPO="$S" ./check $p --tier quick --no-evidence 2>&1); rc=$?
  git -C "$S" checkout -- . ; git -C "$S" clean -fdq
  n=$(echo "$out" | grep -c "^VIOLATION")
  if [ $rc -eq 1 ] && [ $n -gt 0 ]; then echo "CAUGHT  $s ($n violation lines) $(echo "$out" | grep 'failed obligation' | head -1 | sed 's/instance=.*//' | cut -c1-150)"; else echo "MISSED  $s rc=$rc"; fi
done
