#!/bin/sh
# tools/run_seeds.sh : apply every stored seeded change in turn to /repo, run the quick check of its property, undo; prints CAUGHT / MISSED per seed
# (nothing else may use /repo or run checks while this runs)
if [ -n "$(git -C /repo status --porcelain)" ]; then echo "/repo has uncommitted changes"; exit 7; fi
cd /verif
for d in seeded/*/; do
  s=$(basename $d); p=$(echo $s | cut -c1-3)
  if ! git -C /repo apply --check /verif/$d/patch.diff 2>/dev/null; then echo "NOAPPLY $s"; continue; fi
  git -C /repo apply /verif/$d/patch.diff
  out=$(./check $p --tier quick --no-evidence 2>&1); rc=$?
  git -C /repo checkout -- .
  n=$(echo "$out" | grep -c "^VIOLATION")
  if [ $rc -eq 1 ] && [ $n -gt 0 ]; then echo "CAUGHT  $s ($n violation lines) $(echo "$out" | grep 'failed obligation' | head -1 | sed 's/instance=.*//' | cut -c1-150)"; else echo "MISSED  $s rc=$rc"; fi
done
