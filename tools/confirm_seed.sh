#!/bin/sh
# tools/confirm_seed.sh <seed-src-dir> <name>  : confirm a seeded change in a scratch worktree (never in /repo):
#   demo fails with the patch and passes without; the relevant pinned tests give the same outcome set as on the clean tree.
SRC=$1; NAME=$2
WT=/tmp/confirm_$NAME
TESTS="pySDC/tests/tests_core.py pySDC/tests/test_controllers pySDC/tests/test_sweepers pySDC/tests/test_convergence_controllers pySDC/tests/test_hooks pySDC/tests/test_helpers pySDC/tests/test_collocation.py pySDC/tests/test_Q_transfer.py pySDC/tests/test_transfer_classes pySDC/tests/test_datatypes"
git -C /repo worktree add -q --detach $WT HEAD || exit 9
cd $WT
export OMP_NUM_THREADS=1 OPENBLAS_NUM_THREADS=1
run_tests() { /venv/bin/python -m pytest -q -p no:cacheprovider -n 6 --timeout=900 $TESTS -rfE 2>&1 | grep -E "^(FAILED|ERROR)" | sed 's/ - .*//' | sort > $1; }
if [ ! -f /tmp/confirm_baseline_$(git rev-parse --short HEAD).txt ]; then run_tests /tmp/confirm_baseline_$(git rev-parse --short HEAD).txt; fi
cp $SRC/demo.py demo_seed.py
/venv/bin/python demo_seed.py > /tmp/confirm_${NAME}_clean.log 2>&1; RC_CLEAN=$?
git apply $SRC/patch.diff || { echo "PATCH DOES NOT APPLY"; cd /; git -C /repo worktree remove --force $WT; exit 8; }
/venv/bin/python demo_seed.py > /tmp/confirm_${NAME}_patched.log 2>&1; RC_PATCHED=$?
run_tests /tmp/confirm_${NAME}_tests.txt
# test_fieldsIO.py is flaky under xdist on the clean tree as well (shared file names): left out of the comparison
grep -v test_fieldsIO /tmp/confirm_baseline_$(git rev-parse --short HEAD).txt > /tmp/confirm_cmp_a.txt; grep -v test_fieldsIO /tmp/confirm_${NAME}_tests.txt > /tmp/confirm_cmp_b.txt
if diff -q /tmp/confirm_cmp_a.txt /tmp/confirm_cmp_b.txt >/dev/null; then T=same; else T=DIFFERENT; fi
echo "seed $NAME: demo clean rc=$RC_CLEAN patched rc=$RC_PATCHED ; test outcome set vs clean tree: $T ($(wc -l < /tmp/confirm_${NAME}_tests.txt) failing/erroring ids, identical list = environment-related)"
cd /; git -C /repo worktree remove --force $WT
