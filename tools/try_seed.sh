#!/bin/sh
# tools/try_seed.sh <patch.diff> <prop> [tier] [lines] : apply a seeded change to a SCRATCH worktree of /repo's HEAD,
# run the check of <prop> on that worktree (VERIF_REPO), remove the worktree. /repo itself is never touched.
P=$(readlink -f "$1"); PROP=$2; TIER=${3:-quick}
HERE="$(cd "$(dirname "$0")" && pwd)"
export VERIF_SCRATCH=/var/tmp/verif_try_$$
S=$("$HERE/scratch_repo.sh" make) || exit $?
trap '"$HERE/scratch_repo.sh" drop' EXIT INT TERM HUP
git -C "$S" apply "$P" || { echo "patch does not apply"; exit 9; }
cd "$HERE/.." && VERIF_REPO="$S" ./check $PROP --tier $TIER --no-evidence 2>&1 | grep -E "VIOLATION|failed obligation|native contract|tier=" | head -${4:-6}
