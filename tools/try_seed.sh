#!/bin/sh
# tools/try_seed.sh <patch.diff> <prop> [tier] : apply a seeded change to /repo, run the check, undo the change
P=$1; PROP=$2; TIER=${3:-quick}
if [ -n "$(git -C /repo status --porcelain)" ]; then echo "/repo has uncommitted changes: refusing (try_seed resets the working tree)"; exit 7; fi
cd /repo && git apply "$P" || { echo "patch does not apply"; exit 9; }
cd /verif && ./check $PROP --tier $TIER --no-evidence 2>&1 | grep -E "VIOLATION|failed obligation|native contract|tier=" | head -${4:-6}
cd /repo && git checkout -- . && git status --short | head -3
