#!/usr/bin/env python3
"""Property-PRESERVING edits (tools/benign.json: refactorings, reordered independent statements, private bookkeeping attributes): every one must leave
its check green (exit 0, no VIOLATION line) -- the counterpart of tools/run_mutants.py. Applied in memory (VERIF_MUTANT), nothing written to /repo."""
import json, os, subprocess, sys

ROOT = os.path.dirname(os.path.dirname(os.path.abspath(__file__)))
bad = 0
for m in json.load(open(os.path.join(ROOT, 'tools', 'benign.json'))):
    env = dict(os.environ, VERIF_MUTANT=json.dumps(dict(file=m['file'], old=m['old'], new=m['new'])))
    p = subprocess.run([os.path.join(ROOT, 'check'), m['prop'], '--tier', 'quick', '--no-evidence'], env=env, capture_output=True, text=True)
    ok = p.returncode == 0 and 'VIOLATION' not in p.stdout
    bad += not ok
    print(('QUIET   ' if ok else 'ALARM   '), m['prop'], m['file'].split('/')[-1], repr(m['new'][:60]), f'rc={p.returncode}')
print(f'{bad} false alarms')
sys.exit(1 if bad else 0)
